/-
The path from the tokens of a `#if` / `#elif` line to the expression tree (C10).

  preprocess.c  eval_const_expr:  read_const_expr (`defined X` / `defined ( X )` → 1/0, BEFORE expansion; Model/PPExpr.lean
                `readDefined`)  →  preprocess2 (macro expansion; a parameter `xp` here, property C09)  →  "no expression"
                →  every identifier left → 0 (`identToZero`)  →  convert_pp_tokens + retyping to long / unsigned long (`cv`)
                →  const_expr  →  "extra token"
  parse.c       const_expr → conditional → logor → logand → bitor → bitxor → bitand → equality → relational → shift → add
                → mul → cast → unary → postfix → primary → ( expr → assign → conditional … )

restricted to what a controlling expression can contain after those passes: integer constants (character constants are
integer constants by then), the unary operators + - ~ !, the binary operators of the ten levels, ?:, parentheses and – inside
parentheses or the middle operand of ?: – the comma operator.  There are no identifiers and no keywords left when the
parser runs (all replaced by 0 before convert_pp_tokens), hence no type names: cast() always falls through to unary(),
`sizeof`, `_Alignof`, `_Generic` are not reachable.  Every other token the parser would accept – assignment operators, postfix
`(` `[` `.` `->` `++` `--`, unary `&` `*` `++` `--` `&&`, `( {`, the GNU `?:` without middle operand, string literals,
floating constants – leaves the fragment: explicit outcome `unmodelled` (no claim).

The ten binary levels are one function `lvlD` over the table `Gen.C10IfParse.chain` that tools/extract/c10ifparse.py
regenerates from parse.c on every run (operand function, operators in source order, node kind, swapped operands for `>` `>=`);
conditional(), expr(), assign()'s head, unary()'s arms, primary()'s arms, skip(), read_const_expr, eval_const_expr are pinned
by the same translator.

Recursion: `parseN (f+1) = step (parseN f)`; `step prev` calls `prev` only after a token has been consumed (operand of a
unary or binary operator, continuation of a binary loop, parenthesis, operands of ?: and of the comma), everything else is the
non-recursive chain cond → lvlD 10 → … → lvlD 0 = unary → postfix → primary.  So fuel `length + 1` suffices
(Lemmas/IfParseLemmas.lean) and `ifParse` is a total function.

`error_tok` sites are explicit outcomes located by the index of the token they point at (index = length: the EOF token that
copy_line appended).  Core Lean only.
-/
import ChibiVerif.Gen.C10IfParseGen

namespace ChibiVerif.IfParse
open ChibiVerif.PPExpr ChibiVerif.CondIncl
open ChibiVerif.Gen.C10IfParse

-- ------------------------------------------------------------------ tokens and trees

/-- a token as `const_expr` sees it -/
inductive PTok where
  | num (v : Nat) (uns : Bool)     -- TK_NUM of integer type: value (as a 64-bit pattern), retyped unsigned long (`uns`) or long
  | punct (s : String)             -- TK_PUNCT
  | other                          -- TK_STR, TK_NUM of floating type: outside the fragment
  deriving DecidableEq, Repr

/-- the tree parse.c builds (Node kinds ND_NUM, ND_NEG/ND_NOT/ND_BITNOT, the binary kinds, ND_COND, ND_COMMA) -/
inductive PT where
  | num (v : Nat) (uns : Bool)
  | un (op : UnOp) (e : PT)
  | bin (op : BinOp) (a b : PT)
  | cond (c a b : PT)
  | comma (a b : PT)
  deriving DecidableEq, Repr

/-- kinds of located outcomes of the parser proper -/
inductive EK where
  | expectedExpr                   -- primary(): "expected an expression"
  | expected (s : String)          -- skip(): "expected ')'" / "expected ':'"
  | unmodelled                     -- a token that leaves the fragment (see the header)
  | fuel
  deriving DecidableEq, Repr

/-- result of a parser function: tree and remaining tokens, or an error kind and the tokens from the offending one on -/
abbrev Res := Except (EK × List PTok) (PT × List PTok)

/-- entry points that are called after a token has been consumed -/
inductive Mode where
  | expr                           -- expr()
  | cond                           -- conditional()
  | lvl (d : Nat)                  -- 0 = cast()/unary(), 1 = mul(), 2 = add(), … 10 = logor()
  | loop (d : Nat) (node : PT)     -- the loop of level `d` with `node` built so far
  deriving Repr

-- ------------------------------------------------------------------ the operator table (regenerated)

/-- number of binary levels (10) -/
def top : Nat := chain.length

/-- operators the function of level `d` tests for (1 = mul … 10 = logor) -/
def opsAt (d : Nat) : List (String × BinOp × Bool) :=
  match d with
  | 0 => []
  | d+1 => ((chain.reverse[d]?).map (·.2)).getD []

def lookupOp (d : Nat) (s : String) : Option (BinOp × Bool) :=
  ((opsAt d).find? (fun e => e.1 == s)).map (·.2)

def lookupUn (s : String) : Option UnOp := (unaryOps.find? (fun e => e.1 == s)).map (·.2)

/-- `new_binary(kind, node, rhs)` / for `>` `>=`: `new_binary(kind, rhs, node)` -/
def mkNode (op : BinOp) (swapped : Bool) (node rhs : PT) : PT :=
  if swapped then .bin op rhs node else .bin op node rhs

/-- unary(): `+` returns its operand (the integer promotions change nothing at the ranks long / int), the others build a node -/
def mkUnary (op : UnOp) (e : PT) : PT :=
  match op with
  | .plus => e
  | op => .un op e

-- ------------------------------------------------------------------ one unfolding of the mutually recursive functions

/-- tokenize.c `skip(tok, s)` -/
def skipTok (s : String) (ts : List PTok) : Except (EK × List PTok) (List PTok) :=
  match ts with
  | .punct s' :: r => if s' = s then .ok r else .error (.expected s, ts)
  | _ => .error (.expected s, ts)

section Step
variable (prev : Mode → List PTok → Res)

/-- primary(): `( {` is a statement expression; `(` expr `)`; TK_NUM; TK_STR (outside); else "expected an expression" -/
def primary (ts : List PTok) : Res :=
  match ts with
  | .punct s :: r =>
    if s = "(" then
      match r with
      | .punct "{" :: _ => .error (.unmodelled, ts)
      | _ =>
        match prev .expr r with
        | .error e => .error e
        | .ok (t, r') =>
          match skipTok ")" r' with
          | .error e => .error e
          | .ok r'' => .ok (t, r'')
    else .error (.expectedExpr, ts)
  | .num v u :: r => .ok (.num v u, r)
  | .other :: _ => .error (.unmodelled, ts)
  | [] => .error (.expectedExpr, ts)

/-- postfix(): primary, then the suffix loop – any suffix leaves the fragment -/
def postfixP (ts : List PTok) : Res :=
  match primary prev ts with
  | .error e => .error e
  | .ok (t, r) =>
    match r with
    | .punct s :: _ => if postfixOps.contains s then .error (.unmodelled, r) else .ok (t, r)
    | _ => .ok (t, r)

/-- cast() (never a type name here) → unary() -/
def unary (ts : List PTok) : Res :=
  match ts with
  | .punct s :: r =>
    match lookupUn s with
    | some op =>
      match prev (.lvl 0) r with
      | .error e => .error e
      | .ok (t, r') => .ok (mkUnary op t, r')
    | none => if unaryOther.contains s then .error (.unmodelled, ts) else postfixP prev ts
  | _ => postfixP prev ts

/-- the loop of a binary level, one iteration: an operator of the level → operand by the next level, continue; else return -/
def loopAt (d : Nat) (node : PT) (ts : List PTok) : Res :=
  match ts with
  | .punct s :: r =>
    match lookupOp d s with
    | some (op, sw) =>
      match prev (.lvl (d - 1)) r with
      | .error e => .error e
      | .ok (rhs, r') => prev (.loop d (mkNode op sw node rhs)) r'
    | none => .ok (node, ts)
  | _ => .ok (node, ts)

/-- mul() … logor(): first operand by the next level, then the loop -/
def lvlD : Nat → List PTok → Res
  | 0, ts => unary prev ts
  | d+1, ts =>
    match lvlD d ts with
    | .error e => .error e
    | .ok (node, r) => loopAt prev (d+1) node r

/-- conditional(): logor ( `?` expr `:` conditional )?  – `? :` without middle operand is the GNU extension (outside) -/
def condAt (ts : List PTok) : Res :=
  match lvlD prev top ts with
  | .error e => .error e
  | .ok (c, r) =>
    match r with
    | .punct s :: r1 =>
      if s = "?" then
        match r1 with
        | .punct ":" :: _ => .error (.unmodelled, r)
        | _ =>
          match prev .expr r1 with
          | .error e => .error e
          | .ok (a, r2) =>
            match skipTok ":" r2 with
            | .error e => .error e
            | .ok r3 =>
              match prev .cond r3 with
              | .error e => .error e
              | .ok (b, r4) => .ok (.cond c a b, r4)
      else .ok (c, r)
    | _ => .ok (c, r)

/-- assign(): conditional ( assign-op assign )? – an assignment operator leaves the fragment -/
def assignAt (ts : List PTok) : Res :=
  match condAt prev ts with
  | .error e => .error e
  | .ok (a, r) =>
    match r with
    | .punct s :: _ => if assignOps.contains s then .error (.unmodelled, r) else .ok (a, r)
    | _ => .ok (a, r)

/-- expr(): assign ( `,` expr )? -/
def exprAt (ts : List PTok) : Res :=
  match assignAt prev ts with
  | .error e => .error e
  | .ok (a, r) =>
    match r with
    | .punct s :: r1 =>
      if s = "," then
        match prev .expr r1 with
        | .error e => .error e
        | .ok (b, r2) => .ok (.comma a b, r2)
      else .ok (a, r)
    | _ => .ok (a, r)

def step : Mode → List PTok → Res
  | .expr, ts => exprAt prev ts
  | .cond, ts => condAt prev ts
  | .lvl d, ts => lvlD prev d ts
  | .loop d node, ts => loopAt prev d node ts

end Step

/-- the parser with `f` levels of unfolding -/
def parseN : Nat → Mode → List PTok → Res
  | 0 => fun _ ts => .error (.fuel, ts)
  | f+1 => step (parseN f)

-- ------------------------------------------------------------------ const_expr inside eval_const_expr

/-- the tree as an expression of Model/PPExpr.lean.  `eval` of ND_COMMA is `eval(rhs)`: the left operand is not evaluated and
    the node has the type of the right operand. -/
def ptExpr : PT → Expr
  | .num v u => .num v u
  | .un op e => .un op (ptExpr e)
  | .bin op a b => .bin op (ptExpr a) (ptExpr b)
  | .cond c a b => .cond (ptExpr c) (ptExpr a) (ptExpr b)
  | .comma _ b => ptExpr b

/-- located outcomes of eval_const_expr (index of the token pointed at; `ts.length` = the EOF token) -/
inductive PErr where
  | badDefined                     -- read_const_expr: "macro name must be an identifier" / "expected ')'"
  | expand (d : Diag)              -- a diagnostic of macro expansion (property C09)
  | noExpr                         -- "no expression" (located at the directive)
  | expectedExpr (i : Nat)         -- "expected an expression"
  | expected (s : String) (i : Nat)
  | extraToken (i : Nat)           -- "extra token"
  | divZeroFirst (i : Nat)         -- tokens are left at `i`, but const_expr has evaluated the tree before eval_const_expr tests
                                   -- for them: "division by zero in a constant expression" comes first
  | unmodelled (i : Nat)           -- outside the fragment from token `i` on: no claim
  | fuel
  deriving DecidableEq, Repr

def locate (n : Nat) (k : EK) (rest : List PTok) : PErr :=
  let i := n - rest.length
  match k with
  | .expectedExpr => .expectedExpr i
  | .expected s => .expected s i
  | .unmodelled => .unmodelled i
  | .fuel => .fuel

def isDivZero (r : Except PPErr Val) : Bool :=
  match r with
  | .error .divZero => true
  | _ => false

/-- `const_expr(&rest2, expr)` (= conditional() and then eval()) followed by the "extra token" test: when tokens are left, the
    tree has already been evaluated, so a division by zero in an evaluated operand is reported instead.
    Fuel `length + 1` is sufficient (C10_ifparse_total). -/
def ifParse (ts : List PTok) : Except PErr PT :=
  match parseN (ts.length + 1) .cond ts with
  | .ok (t, []) => .ok t
  | .ok (t, r) =>
    if isDivZero (evalTopC [] (ptExpr t)) then .error (.divZeroFirst (ts.length - r.length))
    else .error (.extraToken (ts.length - r.length))
  | .error (k, r) => .error (locate ts.length k r)

-- ------------------------------------------------------------------ eval_const_expr

/-- convert_pp_tokens and the retyping loop of eval_const_expr, token by token (`cv`: pp-number / character constant →
    value and signedness; `none`: not an integer constant – floating or invalid: outside the fragment) -/
def convAll (cv : Tok → Option PTok) : List Tok → Nat → Except PErr (List PTok)
  | [], _ => .ok []
  | t :: ts, i =>
    match cv t with
    | none => .error (.unmodelled i)
    | some p =>
      match convAll cv ts (i+1) with
      | .error e => .error e
      | .ok ps => .ok (p :: ps)

/-- eval_const_expr behind the macro expansion: "no expression", identifiers → 0, conversion, const_expr, "extra token" -/
def afterExpand (cv : Tok → Option PTok) (l2 : List Tok) : Except PErr PT :=
  match l2 with
  | [] => .error .noExpr
  | _ =>
    match convAll cv (identToZero l2) 0 with
    | .error e => .error e
    | .ok ps => ifParse ps

/-- the tree of a `#if` / `#elif` line: eval_const_expr up to and including the parse -/
def ifTree (isDef : String → Bool) (xp : List Tok → Except Diag (List Tok)) (cv : Tok → Option PTok) (line : List Tok) :
    Except PErr PT :=
  match readDefined isDef line with
  | .error _ => .error .badDefined
  | .ok l1 =>
    match xp l1 with
    | .error e => .error (.expand e)
    | .ok l2 => afterExpand cv l2

-- ------------------------------------------------------------------ from the tree to the value

abbrev PT.toExpr (t : PT) : Expr := ptExpr t

def PT.hasComma : PT → Bool
  | .num _ _ => false
  | .un _ e => e.hasComma
  | .bin _ a b => a.hasComma || b.hasComma
  | .cond c a b => c.hasComma || a.hasComma || b.hasComma
  | .comma _ _ => true

/-- the evaluator of controlling expressions given as token lines: chibicc (`narrow = true`) / C11 6.10.1p4 on the tree
    (`narrow = false`).  The macro table is used for `defined` and by the expander only: the tree has no identifiers. -/
def ifEval {β : Type} (narrow : Bool) (xp : Defs β → List Tok → Except Diag (List Tok)) (cv : Tok → Option PTok)
    (line : List Tok) (d : Defs β) : Except Diag Bool :=
  match ifTree d.isDef (xp d) cv line with
  | .error _ => .error .badExpr
  | .ok t => if narrow then evC t.toExpr [] else ev t.toExpr []

/-- region in which `C10_ifline` claims nothing: the tree has a comma operator (C11 6.6p3: a constraint violation where it is
    evaluated; chibicc and gcc accept it, chibicc without evaluating the left operand), an `int`-typed intermediate result
    leaves 32 bits (known finding C10-ppif-int-result-shift), or C11 leaves the behaviour undefined -/
def ifRegion {β : Type} (xp : Defs β → List Tok → Except Diag (List Tok)) (cv : Tok → Option PTok)
    (line : List Tok) (d : Defs β) : Bool :=
  match ifTree d.isDef (xp d) cv line with
  | .error _ => false
  | .ok t => t.hasComma || intResultOverflows [] t.toExpr || decide ((evalN false [] FUEL [] t.toExpr).1 = .error .undefinedBeh)

end ChibiVerif.IfParse
