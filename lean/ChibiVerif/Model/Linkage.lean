/-
Model of chibicc's linkage / storage-duration / symbol-emission logic (property C15).

Transcribed from /repo as it is now:

* parse.c `function`            → `declFunction`  (flags on first declaration / redeclaration, `is_root` only set)
* parse.c `primary` (ident arm) → `recordFnRef`   (`current_fn->refs` inside a body, `is_root` at file scope)
* parse.c `declaration` (static local), `new_anon_gvar`, `new_string_literal`, `compound_stmt`'s block-scope
  `extern`                      → `bodyItem`
* parse.c `global_variable`     → `declObject`    (is_definition = !extern, is_static, is_tls, is_tentative)
* parse.c `find_func`, `mark_live`, the root loop of `parse` → `findFunc`, `markLive`, `markRoots`
* parse.c `scan_globals`        → `scanGlobals`   (including the pointer re-linking that decides which earlier
                                                   nodes the inner loop still sees)
* codegen.c `emit_data`, `emit_text` → `emitData`, `emitText`, `emit`
* what `as` does with the directives (`.local`+`.comm` = local bss object; undefined references become
  global undefined symbols)     → `asmView`, `undefs`, `objectSymbols`

The C `Obj` list `globals` is a `List Obj`, newest first (new_gvar pushes at the head).  A C identifier is a
`Nat` (the driver interns the spelling); the anonymous names `.L..N` are `Sym.anon N`.

The model is parametrised by `Rules`: which of the candidate repairs of the known findings of C15 the code has.
`tools/extract/linkrules.py` reads the four sites in parse.c / codegen.c on every run and writes
`Gen/LinkageRulesGen.lean`; `Rules.asBuilt` (Model/LinkageRules.lean) is the instance for the code as it is.  Every
theorem is proved for ALL sixteen rule sets, so applying a repair in /repo flips one flag and nothing else changes.

* `Rules.externInherits`     global_variable: an `extern` declaration inherits internal linkage from the visible prior
                             declaration (C11 6.2.2p4)                         [C15-extern-init-after-static]
* `Rules.flagsFollow`        function(): `is_static` / `is_inline` follow the redeclarations (C11 6.7.4p7, new field
                             `is_inline_def`); the root decision `!(static && inline)` is taken in the root loop of
                             parse() with the final flags                      [C15-inline-flags-frozen]
* `Rules.compositeFromDecls` scan_globals: an array of unknown length first takes the length any declaration of the
                             identifier states (C11 6.2.7p4)                   [C15-tentative-composite-size]
* `Rules.ownedData`          new_anon_gvar records the function being parsed (`owner`); emit_data skips the data of a
                             function that is not emitted                      [C15-static-local-in-dead-inline]

Core Lean only (no Mathlib): the driver links this file, and `decide` evaluates it in the kernel.
-/
import ChibiVerif.Gen.AddrFormsGen
import ChibiVerif.Gen.LinkageRulesGen

namespace ChibiVerif.Linkage

abbrev Name := Nat

/-- which candidate repairs the code has (see the head of this file) -/
class Rules where
  externInherits : Bool
  flagsFollow : Bool
  compositeFromDecls : Bool
  ownedData : Bool

/-- **the code as it is**: the flags `tools/extract/linkrules.py` read off parse.c / codegen.c on this run -/
def Rules.asBuilt : Rules :=
  ⟨Gen.LinkageRules.externInherits, Gen.LinkageRules.flagsFollow, Gen.LinkageRules.compositeFromDecls, Gen.LinkageRules.ownedData⟩

/-- the code before any of the four repairs / with all of them -/
def Rules.original : Rules := ⟨false, false, false, false⟩
def Rules.repaired : Rules := ⟨true, true, true, true⟩

/-- a label in the assembly: a C identifier or `.L..k` -/
inductive Sym where
  | named (n : Name)
  | anon (k : Nat)
  deriving DecidableEq, Repr, Inhabited

/-- what linkage/emission needs to know about an object type -/
structure ObjTy where
  size : Nat           -- `ty->size`; for an array of unknown length (`ty->size < 0` in C): the element size
  align : Nat          -- `var->align`: the type's alignment, or the `_Alignas` value
  isArray : Bool       -- `ty->kind == TY_ARRAY`
  unknownLen : Bool := false   -- `T x[];` without initializer: `ty->kind == TY_ARRAY && ty->size < 0`
  deriving DecidableEq, Repr, Inhabited

/-- an identifier in an expression that names a function or an object with linkage -/
inductive Ref where
  | fn (f : Name)
  | obj (x : Name)
  deriving DecidableEq, Repr, Inhabited

/-- the linkage-relevant content of an initializer: address constants and string literals, in source order -/
inductive InitItem where
  | ref (r : Ref)
  | str (size : Nat)       -- a string literal used as a pointer (`char *p = "abc";`): size includes the NUL
  deriving DecidableEq, Repr, Inhabited

/-- the linkage-relevant content of a function body, in source order -/
inductive BodyItem where
  | ref (r : Ref)                                              -- `f` / `x` in an expression
  | staticLocal (tls : Bool) (ty : ObjTy) (init : Option (List InitItem))   -- `static [_Thread_local] T v [= init];`
  | str (size : Nat)                                           -- a string literal in an expression
  | externObj (x : Name) (tls : Bool) (ty : ObjTy)             -- block-scope `extern [_Thread_local] T x;`
  deriving Repr, Inhabited

/-- one file-scope declaration -/
inductive Decl where
  /-- `[static] [extern] [inline] T f(..);` or, with a body, `.. { body }`; `nameLen` = strlen of the spelling
      (size of the `__func__`/`__FUNCTION__` arrays is `nameLen + 1`) -/
  | func (f : Name) (nameLen : Nat) (isStatic isExtern isInline : Bool) (body : Option (List BodyItem))
  /-- `[static] [extern] [_Thread_local] T x [= init];` -/
  | obj (x : Name) (isStatic isExtern isTls : Bool) (ty : ObjTy) (init : Option (List InitItem))
  deriving Repr, Inhabited

/-- chibicc's `Obj`, restricted to the fields the anchors read or write -/
structure Obj where
  sym : Sym
  isFunction : Bool := false
  isDefinition : Bool := true      -- new_gvar
  isStatic : Bool := true          -- new_gvar
  isInline : Bool := false
  isInlineDef : Bool := false      -- `is_inline_def` (only with `Rules.flagsFollow`): inline definition, no external one
  isTentative : Bool := false
  isTls : Bool := false
  isRoot : Bool := false
  isLive : Bool := false
  hasInit : Bool := false          -- `init_data != NULL`
  ty : ObjTy := ⟨0, 1, false, false⟩
  refs : List Name := []           -- `fn->refs`: names recorded by `primary` while `current_fn == fn`
  uses : List Sym := []            -- labels the emitted text of a function / the relocations of a datum mention
  owner : Option Name := none      -- `owner` (only with `Rules.ownedData`): the function whose body created this datum
  deriving DecidableEq, Repr, Inhabited

inductive ParseErr where
  | redefinition (f : Name)                 -- "redefinition of %s"
  | staticAfterNonStatic (f : Name)         -- "static declaration follows a non-static declaration"
  | undeclared (r : Ref)                    -- "undefined variable" / "implicit declaration of a function"
  | markLiveFuel                            -- recursion of mark_live deeper than the number of functions (never: C15_live)
  deriving DecidableEq, Repr, Inhabited

structure PState where
  globals : List Obj := []     -- newest first
  nextAnon : Nat := 0          -- `static int id` of new_unique_name
  deriving Repr, Inhabited

/-! ### lookups -/

/-- `find_func`: the file-scope function object with this name -/
def findFunc (gs : List Obj) (f : Name) : Option Obj :=
  gs.find? (fun o => o.isFunction && o.sym == .named f)

/-- the object (non-function) an identifier resolves to: the most recent declaration with that name -/
def findObj (gs : List Obj) (x : Name) : Option Obj :=
  gs.find? (fun o => !o.isFunction && o.sym == .named x)

/-- update the first object satisfying `p` (pointer mutation `fn->field = ..`) -/
def updFirst (p : Obj → Bool) (u : Obj → Obj) : List Obj → List Obj
  | [] => []
  | o :: os => if p o then u o :: os else o :: updFirst p u os

def updFunc (gs : List Obj) (f : Name) (u : Obj → Obj) : List Obj :=
  updFirst (fun o => o.isFunction && o.sym == .named f) u gs

/-! ### parse.c -/

/-- `var->owner = current_fn` in `new_anon_gvar` (the field exists only in the repaired code) -/
def ownerOf [Rules] (cur : Option Name) : Option Name := if Rules.ownedData then cur else none

/-- `new_anon_gvar` / `new_string_literal`; `cur` = `current_fn` -/
def newAnon [Rules] (cur : Option Name) (st : PState) (ty : ObjTy) (hasInit : Bool) (uses : List Sym := []) : PState × Sym :=
  let s := Sym.anon st.nextAnon
  ({ globals := { sym := s, ty := ty, hasInit := hasInit, uses := uses, owner := ownerOf cur } :: st.globals,
     nextAnon := st.nextAnon + 1 }, s)

/-- `prev && prev->var->is_static` for the visible prior declaration of the object `x` (global_variable, repaired) -/
def prevStatic (gs : List Obj) (x : Name) : Bool :=
  match findObj gs x with
  | some o => o.isStatic
  | none => false

def strTy (size : Nat) : ObjTy := ⟨size, 1, true, false⟩

/-- `primary`, identifier arm, for an identifier that names a function:
    inside a body the *name* is pushed on `current_fn->refs`; at file scope the function becomes a root -/
def recordFnRef (cur : Option Name) (st : PState) (g : Name) : Except ParseErr PState :=
  match findFunc st.globals g with
  | none => .error (.undeclared (.fn g))
  | some _ =>
    match cur with
    | some f => .ok { st with globals := updFunc st.globals f (fun o => { o with refs := o.refs ++ [g] }) }
    | none => .ok { st with globals := updFunc st.globals g (fun o => { o with isRoot := true }) }

/-- an identifier in an expression; returns the label the generated code / relocation mentions -/
def useRef (cur : Option Name) (st : PState) : Ref → Except ParseErr (PState × Sym)
  | .fn g => do
    let st ← recordFnRef cur st g
    pure (st, .named g)
  | .obj x =>
    match findObj st.globals x with
    | none => .error (.undeclared (.obj x))
    | some _ => pure (st, .named x)

/-- the address constants and string literals of an initializer, left to right;
    returns the labels of the relocations -/
def initItems [Rules] (cur : Option Name) : PState → List InitItem → Except ParseErr (PState × List Sym)
  | st, [] => pure (st, [])
  | st, .ref r :: rest => do
    let (st, s) ← useRef cur st r
    let (st, ss) ← initItems cur st rest
    pure (st, s :: ss)
  | st, .str n :: rest => do
    let (st, s) := newAnon cur st (strTy n) true
    let (st, ss) ← initItems cur st rest
    pure (st, s :: ss)

/-- set the relocation labels of an already created datum -/
def setUses (gs : List Obj) (s : Sym) (uses : List Sym) : List Obj :=
  updFirst (fun o => o.sym == s && !o.isFunction) (fun o => { o with uses := uses }) gs

/-- one item of a function body (`current_fn = f`); returns the labels the body's code mentions -/
def bodyItem [Rules] (f : Name) (st : PState) : BodyItem → Except ParseErr (PState × List Sym)
  | .ref r => do
    let (st, s) ← useRef (some f) st r
    pure (st, [s])
  | .staticLocal tls ty init =>
    -- declaration(): `attr->is_static` → new_anon_gvar; `var->is_tls = attr->is_tls`
    let (st, s) := newAnon (some f) st ty init.isSome
    let st := { st with
      globals := updFirst (fun o => o.sym == s && !o.isFunction) (fun o => { o with isTls := tls }) st.globals }
    match init with
    | none => pure (st, [s])
    | some items => do
      let (st, rel) ← initItems (some f) st items
      pure ({ st with globals := setUses st.globals s rel }, [s])
  | .str n =>
    let (st, s) := newAnon (some f) st (strTy n) true
    pure (st, [s])
  | .externObj x tls ty =>
    -- compound_stmt: `attr.is_extern` → global_variable
    let var : Obj := { sym := .named x, isDefinition := false,
                       isStatic := Rules.externInherits && prevStatic st.globals x, isTls := tls, ty := ty }
    pure ({ st with globals := var :: st.globals }, [])

def bodyItems [Rules] (f : Name) : PState → List BodyItem → Except ParseErr (PState × List Sym)
  | st, [] => pure (st, [])
  | st, b :: rest => do
    let (st, u) ← bodyItem f st b
    let (st, us) ← bodyItems f st rest
    pure (st, u ++ us)

/-- the repaired `function()` on a redeclaration (before `fn->is_definition` is updated):
    a declaration without `inline` or with `extern` turns an inline definition into an external definition (6.7.4p7);
    a function with internal linkage declared `inline` before or at its definition becomes droppable -/
def redeclFlags [Rules] (isExtern isInline : Bool) (o : Obj) : Obj :=
  if Rules.flagsFollow then
    let o1 := if o.isInlineDef && (!isInline || isExtern) then { o with isInlineDef := false, isStatic := false } else o
    if o1.isStatic && !o1.isInlineDef && isInline && !o1.isDefinition then { o1 with isInline := true } else o1
  else o

/-- `if (!(fn->is_static && fn->is_inline)) fn->is_root = true;` in `function()`; the repaired code takes this decision
    in the root loop of `parse()` instead -/
def rootIfO [Rules] (o : Obj) : Obj :=
  if Rules.flagsFollow then o else (if !(o.isStatic && o.isInline) then { o with isRoot := true } else o)

/-- `function`, up to `if (consume(&tok, tok, ";")) return tok;`: look the name up, check the redeclaration,
    create or update the object, set `is_root` -/
def declFunctionHead [Rules] (st : PState) (f : Name) (isStatic isExtern isInline hasBody : Bool) : Except ParseErr PState :=
  match findFunc st.globals f with
  | some fn =>
    if fn.isDefinition && hasBody then .error (.redefinition f)
    else if !fn.isStatic && isStatic then .error (.staticAfterNonStatic f)
    else .ok { st with
      globals := updFunc (updFunc (updFunc st.globals f (redeclFlags isExtern isInline)) f
        (fun o => { o with isDefinition := o.isDefinition || hasBody })) f rootIfO }
  | none =>
    let fn : Obj := { sym := .named f, isFunction := true, isDefinition := hasBody,
                      isStatic := isStatic || (isInline && !isExtern), isInline := isInline,
                      isInlineDef := Rules.flagsFollow && isInline && !isStatic && !isExtern }
    .ok { st with globals := updFunc (fn :: st.globals) f rootIfO }

/-- `function` -/
def declFunction [Rules] (st : PState) (f : Name) (nameLen : Nat) (isStatic isExtern isInline : Bool)
    (body : Option (List BodyItem)) : Except ParseErr PState :=
  match declFunctionHead st f isStatic isExtern isInline body.isSome with
  | .error e => .error e
  | .ok st =>
    match body with
    | none => .ok st
    | some items =>
      -- `__func__`, `__FUNCTION__`
      let st := (newAnon (some f) st (strTy (nameLen + 1)) true).1
      let st := (newAnon (some f) st (strTy (nameLen + 1)) true).1
      match bodyItems f st items with
      | .error e => .error e
      | .ok (st, uses) => .ok { st with globals := updFunc st.globals f (fun o => { o with uses := uses }) }

/-- `global_variable` (one declarator) -/
def declObject [Rules] (st : PState) (x : Name) (isStatic isExtern isTls : Bool) (ty : ObjTy)
    (init : Option (List InitItem)) : Except ParseErr PState :=
  -- repaired: `var->is_static = attr->is_static || prev_static` with `prev` looked up only for `extern`
  let var : Obj := { sym := .named x, isDefinition := !isExtern,
                     isStatic := isStatic || (Rules.externInherits && isExtern && prevStatic st.globals x),
                     isTls := isTls, ty := ty }
  match init with
  | some items => do
    -- "A declaration with an initializer is a definition even if it says extern."
    let st := { st with globals := { var with hasInit := true, isDefinition := true } :: st.globals }
    let (st, rel) ← initItems none st items
    -- the variable is the newest *named* object called x: string literals pushed after it are anonymous
    pure { st with
      globals := updFirst (fun o => o.sym == .named x && !o.isFunction) (fun o => { o with uses := rel }) st.globals }
  | none =>
    pure { st with globals := { var with isTentative := !isExtern } :: st.globals }

def declStep [Rules] (st : PState) : Decl → Except ParseErr PState
  | .func f n s e i body => declFunction st f n s e i body
  | .obj x s e t ty init => declObject st x s e t ty init

def declAll [Rules] : PState → List Decl → Except ParseErr PState
  | st, [] => pure st
  | st, d :: ds => do
    let st ← declStep st d
    declAll st ds

/-! ### mark_live -/

def setLive (gs : List Obj) (f : Name) : List Obj := updFunc gs f (fun o => { o with isLive := true })

/-- `mark_live(find_func(f))`.  `fuel` bounds the recursion depth; the C code has no bound and terminates
    because every call that goes on sets a fresh `is_live` flag (C15_live: `fuel` = number of objects is enough). -/
def markLive : Nat → List Obj → Name → Option (List Obj)
  | 0, gs, f =>
    match findFunc gs f with
    | none => some gs
    | some o => if o.isLive then some gs else none
  | fuel + 1, gs, f =>
    match findFunc gs f with
    | none => some gs                             -- `if (fn) mark_live(fn)`
    | some o =>
      if o.isLive then some gs                    -- `if (... || var->is_live) return;`
      else o.refs.foldlM (fun gs g => markLive fuel gs g) (setLive gs f)

/-- the condition of the root loop: `var->is_root`; repaired:
    `var->is_root || (var->is_function && !(var->is_static && var->is_inline))` -/
def effRoot [Rules] (o : Obj) : Bool := o.isRoot || (Rules.flagsFollow && !(o.isStatic && o.isInline))

/-- `for (var = globals; var; var = var->next) if (<effRoot>) mark_live(var);`
    (`mark_live` returns at once on non-functions; `is_root` is only ever set on functions) -/
def rootNames [Rules] (gs : List Obj) : List Name :=
  gs.filterMap (fun o => match o.sym with
    | .named n => if o.isFunction && effRoot o then some n else none
    | .anon _ => none)

def markRoots [Rules] (gs : List Obj) : Option (List Obj) :=
  (rootNames gs).foldlM (fun gs r => markLive gs.length gs r) gs

/-! ### scan_globals -/

/-- "A tentative definition of an array of unknown size behaves as if it had one element":
    `var->ty = array_of(var->ty->base, 1)` (`var->align` is not touched) -/
def completeArray (o : Obj) : Obj :=
  if o.ty.isArray && o.ty.unknownLen then { o with ty := { o.ty with unknownLen := false } } else o

def isTentOf (name : Sym) (o : Obj) : Bool := o.isTentative && o.sym == name

/-- The loop of `scan_globals` over `globals` (`all`); `rest` = the nodes after `var`.
    The first inner loop walks from `globals` and looks for a *non-tentative* definition of the same name.
    Non-tentative nodes are always kept, so the re-linking done by the outer loop (`cur->next = var`) never
    hides one of them from that walk: it sees every non-tentative node of the original list.
    The second inner loop walks `var->next ...`, whose `next` pointers are still the original ones; the
    tentative definition it finds (`var2`, declared earlier) is the one that stays, and it takes `var`'s
    type when its own array length is unknown (`var` has been completed just before, so `var->ty->size >= 0`). -/
def scanLoop (all : List Obj) : Nat → List Obj → List Obj
  | 0, _ => []
  | _ + 1, [] => []
  | n + 1, var :: rest =>
    if !var.isTentative then var :: scanLoop all n rest
    else
      let var := completeArray var
      if all.any (fun o => o.isDefinition && !o.isTentative && o.sym == var.sym) then scanLoop all n rest
      else match rest.find? (isTentOf var.sym) with
        | some var2 =>
          if var2.ty.unknownLen then
            scanLoop all n (updFirst (isTentOf var.sym) (fun o => { o with ty := var.ty }) rest)
          else scanLoop all n rest
        | none => var :: scanLoop all n rest

/-- the `Nat` argument only makes the recursion structural (the list passed on is `rest` with one node's type
    changed): one step per node, so `gs.length` steps process the whole list -/
def scanCore (gs : List Obj) : List Obj := scanLoop gs gs.length gs

/-- a data object that is an array of known length -/
def knownArr (s : Sym) (k : Obj) : Bool := !k.isFunction && k.ty.isArray && !k.ty.unknownLen && k.sym == s

/-- the repaired `scan_globals` starts with a pass that gives every array object of unknown length the length of the
    first (newest) declaration of the same identifier that states one: `var->ty = var2->ty` (`var->align` stays) -/
def completeOne (gs : List Obj) (o : Obj) : Obj :=
  if !o.isFunction && o.ty.isArray && o.ty.unknownLen then
    match gs.find? (knownArr o.sym) with
    | some k => { o with ty := { o.ty with size := k.ty.size, unknownLen := false } }
    | none => o
  else o

def preOne [Rules] (gs : List Obj) (o : Obj) : Obj := if Rules.compositeFromDecls then completeOne gs o else o

def preScan [Rules] (gs : List Obj) : List Obj := gs.map (preOne gs)

def scanGlobals [Rules] (gs : List Obj) : List Obj := scanCore (preScan gs)

/-- `parse` -/
def parseUnit [Rules] (ds : List Decl) : Except ParseErr (List Obj) := do
  let st ← declAll {} ds
  match markRoots st.globals with
  | none => throw .markLiveFuel
  | some gs => pure (scanGlobals gs)

/-! ### codegen.c emit_data / emit_text -/

inductive Binding where
  | global | «local»
  deriving DecidableEq, Repr, Inhabited

inductive Kind where
  | text | data | bss | tdata | tbss | common | undef
  deriving DecidableEq, Repr, Inhabited

/-- one defined label of the assembly output with the directives that precede it -/
structure SymEntry where
  sym : Sym
  binding : Binding
  kind : Kind
  size : Option Nat     -- operand of `.size` / second operand of `.comm`; `none` when no size is given
  align : Nat           -- operand of `.align` / third operand of `.comm`; 0 when there is none (functions)
  deriving DecidableEq, Repr, Inhabited

def bindingOf (o : Obj) : Binding := if o.isStatic then .local else .global

/-- `int align = (ty->kind == TY_ARRAY && ty->size >= 16) ? MAX(16, var->align) : var->align;` -/
def emitAlign (ty : ObjTy) : Nat :=
  if ty.isArray && decide (ty.size ≥ 16) then max 16 ty.align else ty.align

/-- `!var->owner || var->owner->is_live` (repaired emit_data); without the repair no object has an owner -/
def ownerLive (gs : List Obj) (o : Obj) : Bool :=
  match o.owner with
  | none => true
  | some f => match findFunc gs f with | some fo => fo.isLive | none => false

def emitDataVar (fcommon : Bool) (o : Obj) : Option SymEntry :=
  if o.isFunction || !o.isDefinition then none
  else if fcommon && o.isTentative && !o.isTls then
    some ⟨o.sym, bindingOf o, .common, some o.ty.size, emitAlign o.ty⟩
  else if o.hasInit then
    some ⟨o.sym, bindingOf o, if o.isTls then .tdata else .data, some o.ty.size, emitAlign o.ty⟩
  else
    some ⟨o.sym, bindingOf o, if o.isTls then .tbss else .bss, some o.ty.size, emitAlign o.ty⟩

def emitTextFn (o : Obj) : Option SymEntry :=
  if !o.isFunction || !o.isDefinition then none
  else if !o.isLive then none
  else some ⟨o.sym, bindingOf o, .text, none, 0⟩

/-- `emit_data`: the repaired loop first skips the data whose owner is not emitted -/
def emitData (fcommon : Bool) (gs : List Obj) : List SymEntry := (gs.filter (ownerLive gs)).filterMap (emitDataVar fcommon)
def emitText (gs : List Obj) : List SymEntry := gs.filterMap emitTextFn

/-- the defined labels in the order `codegen` prints them -/
def emit (fcommon : Bool) (gs : List Obj) : List SymEntry := emitData fcommon gs ++ emitText gs

/-- labels mentioned by what is printed: relocations of emitted data, operands in emitted function bodies -/
def emittedUses (gs : List Obj) : List Sym :=
  (gs.filter (fun o => if o.isFunction then o.isDefinition && o.isLive else o.isDefinition && ownerLive gs o)).flatMap (·.uses)

def dedup [DecidableEq α] : List α → List α
  | [] => []
  | a :: as => if a ∈ as then dedup as else a :: dedup as

/-- what `as` makes of mentioned but undefined labels: global undefined symbols -/
def undefs (fcommon : Bool) (gs : List Obj) : List Sym :=
  dedup ((emittedUses gs).filter (fun s => !(emit fcommon gs).any (·.sym == s)))

/-- what the assembler records for a defined label: `.local` + `.comm` allocates in .bss -/
def asmView (e : SymEntry) : SymEntry :=
  if e.kind == .common && e.binding == .local then { e with kind := .bss } else e

/-- the ELF symbol table of the object file (named symbols only; `.L` labels are not kept by `as`) -/
def objectSymbols (fcommon : Bool) (gs : List Obj) : List SymEntry :=
  ((emit fcommon gs).map asmView ++ (undefs fcommon gs).map (fun s => (⟨s, .global, .undef, none, 0⟩ : SymEntry))).filter
    (fun e => match e.sym with | .named _ => true | .anon _ => false)

/-! ### codegen.c gen_addr, ND_VAR arm: which address form is chosen

The ladder itself is `Gen.AddrForms.genAddrVar` (regenerated from codegen.c on every run); here the printed
instruction templates are given names. -/

inductive AddrForm where
  | rbpRel     -- `lea off(%rbp), %rax`                    address of an automatic object
  | rbpLoad    -- `mov off(%rbp), %rax`                    a VLA: the slot holds the pointer
  | ripRel     -- `lea sym(%rip), %rax`                    PC-relative, resolved at static link time
  | got        -- `mov sym@GOTPCREL(%rip), %rax`           through the global offset table
  | tlsGD      -- `data16 lea sym@tlsgd(%rip), %rdi; .value 0x6666; rex64; call __tls_get_addr@PLT`  general dynamic
  | tlsLE      -- `mov %fs:0, %rax; add $sym@tpoff, %rax`  local exec
  | tlsIE      -- `mov sym@gottpoff(%rip), %rax; add %fs:0, %rax`  initial exec (the repair of C15-extern-tls-local-exec)
  deriving DecidableEq, Repr, Inhabited

def classifyForm (ls : List String) : Option AddrForm :=
  if ls = ["  lea %d(%%rbp), %%rax"] then some .rbpRel
  else if ls = ["  mov %d(%%rbp), %%rax"] then some .rbpLoad
  else if ls = ["  lea %s(%%rip), %%rax"] then some .ripRel
  else if ls = ["  mov %s@GOTPCREL(%%rip), %%rax"] then some .got
  else if ls = ["  data16 lea %s@tlsgd(%%rip), %%rdi", "  .value 0x6666", "  rex64", "  call __tls_get_addr@PLT"] then some .tlsGD
  else if ls = ["  mov %%fs:0, %%rax", "  add $%s@tpoff, %%rax"] then some .tlsLE
  else if ls = ["  mov %s@gottpoff(%%rip), %%rax", "  add %%fs:0, %%rax"] then some .tlsIE
  else none

def addrForm (c : Gen.AddrForms.VarCtx) : Option AddrForm := classifyForm (Gen.AddrForms.genAddrVar c)

/-- The ladder as `tools/extract/addrforms.py` prints it for the REPAIRED gen_addr (candidate repair of
    C15-extern-tls-local-exec: in non-PIC code local exec only for a thread-local object the unit defines, initial exec
    otherwise).  Once the repair is in /repo, `Gen.AddrForms.genAddrVar` is this function and `externTlsRegion` is empty. -/
def genAddrVarFixed (c : Gen.AddrForms.VarCtx) : List String :=
  if c.isVla then
    ["  mov %d(%%rbp), %%rax"]
  else
    if c.isLocal then
      ["  lea %d(%%rbp), %%rax"]
    else
      if c.fpic then
        if c.isTls then
          ["  data16 lea %s@tlsgd(%%rip), %%rdi", "  .value 0x6666", "  rex64", "  call __tls_get_addr@PLT"]
        else
          ["  mov %s@GOTPCREL(%%rip), %%rax"]
      else
        if c.isTls then
          if c.isDefinition then
            ["  mov %%fs:0, %%rax", "  add $%s@tpoff, %%rax"]
          else
            ["  mov %s@gottpoff(%%rip), %%rax", "  add %%fs:0, %%rax"]
        else
          if c.isFunc then
            if c.isDefinition then
              ["  lea %s(%%rip), %%rax"]
            else
              ["  mov %s@GOTPCREL(%%rip), %%rax"]
          else
            ["  lea %s(%%rip), %%rax"]

def addrFormFixed (c : Gen.AddrForms.VarCtx) : Option AddrForm := classifyForm (genAddrVarFixed c)

end ChibiVerif.Linkage
