/-
The floating branch of tokenize.c `convert_pp_number` (C02): which type a floating constant gets and which value ends up in
`tok->fval`, as a function of what libc answers on the token text.  The suffix ladder — suffix bytes, type object, and the
libc function whose result is kept — is `Gen/FpLiteralGen` (regenerated from tokenize.c on every run).

Since the fix "a floating constant is rounded once, to its own type" the value of an unsuffixed constant is `strtod`'s
(a double, widened exactly to the `long double val`), of an `f`/`F` constant `strtof`'s, of an `l`/`L` constant `strtold`'s.
codegen.c `ND_NUM` then narrows `node->fval` back to the node's type by the union punning (Model/FpCodegen `numF32/64/80`).

libc is not modelled: `Parsed` carries the three results on the same text.  The trusted contract (stated where it is used,
Props/C02.lean `LibcRounds`): each function returns the datum of its own format nearest (ties to even) to the value of the
spelling (ISO C 7.22.1.3 with IEC 60559 "correct rounding", which glibc implements), and never a NaN for a pp-number.
-/
import ChibiVerif.Gen.FpLiteralGen
import ChibiVerif.Model.FpCodegen
import ChibiVerif.Spec.FpC11Spec

namespace ChibiVerif.FpLiteral
open ChibiVerif.Gen.FpLiteral ChibiVerif.Spec.Fpu ChibiVerif.Asm ChibiVerif.Spec.FpC11

/-- what libc answers on the text of one pp-number that is not an integer constant -/
structure Parsed where
  /-- `strtof(tok->loc, NULL)` -/
  f32 : BitVec 32
  /-- `strtod(tok->loc, NULL)` -/
  f64 : BitVec 64
  /-- `strtold(tok->loc, &end)` -/
  f80 : BitVec 80
  /-- the byte `*end` -/
  suffix : Nat
  /-- `tok->loc + tok->len - end`: bytes of the token the number part did not cover -/
  restLen : Nat

/-- the result of a libc function as the `long double val` it is assigned to (widening is the hardware's `fld`) -/
def parserVal (F : FpuSpec) (p : Parsed) : Parser → BitVec 80
  | .strtof => F.fld32 p.f32
  | .strtod => F.fld64 p.f64
  | .strtold => p.f80

/-- `if (*end == c1 || *end == c2) … else if …`: the first arm one of whose bytes is `*end` -/
def selectArm (sfx : Nat) : List (List Nat × FTy × Parser) → Option (FTy × Parser)
  | [] => none
  | (bs, t, q) :: rest => if bs.contains sfx then some (t, q) else selectArm sfx rest

inductive Outcome where
  | num (ty : FTy) (fval : BitVec 80)
  | invalid                                   -- error_tok "invalid numeric constant"
  deriving DecidableEq, Repr

/-- `convert_pp_number` after `convert_pp_int` has declined -/
def convertPpNumberFp (F : FpuSpec) (p : Parsed) : Outcome :=
  match selectArm p.suffix suffixArms with
  | some (t, q) => if p.restLen = 1 then .num t (parserVal F p q) else .invalid      -- `end++`, then `loc + len != end`
  | none => if p.restLen = 0 then .num defaultArm.1 (parserVal F p defaultArm.2) else .invalid

/-- the libc function of a type's own format -/
def ownParser : FTy → Parser
  | .ty_float => .strtof
  | .ty_double => .strtod
  | .ty_ldouble => .strtold

/-- codegen.c `ND_NUM` for a floating constant: the union punning narrows `node->fval` (a `long double` held by the
    compiler, whose x87 control word is `hostCw`) to the node's type; Model/FpCodegen renders the immediates -/
def numLines (F : FpuSpec) (hostCw : BitVec 16) (ty : FTy) (fval : BitVec 80) : List Line :=
  match ty with
  | .ty_float => FpCodegen.numF32 (F.fst32 hostCw fval)
  | .ty_double => FpCodegen.numF64 (F.fst64 hostCw fval)
  | .ty_ldouble => FpCodegen.numF80 fval

/-- the C type a type object stands for, its precision, and the datum libc's function *of that type* returned -/
def atyOf : FTy → ATy
  | .ty_float => .f32 | .ty_double => .f64 | .ty_ldouble => .f80

def precOf : FTy → Nat
  | .ty_float => 24 | .ty_double => 53 | .ty_ldouble => 64

def datumOf (p : Parsed) : FTy → AVal
  | .ty_float => .f32 p.f32 | .ty_double => .f64 p.f64 | .ty_ldouble => .f80 p.f80

/-- what a datum of a floating type denotes -/
def valOf (F : FpuSpec) : AVal → Option Val
  | .f32 b => some (F.val32 b) | .f64 b => some (F.val64 b) | .f80 b => some (F.val80 b) | .int _ => none

/-- **the libc contract** (trusted; validated against exact rational arithmetic and gcc by checklib/C02.py): on a spelling
    whose value is the natural number `n`, `strtof`/`strtod`/`strtold` return the datum of their own format that denotes `n`
    rounded to nearest, ties to even, to 24 / 53 / 64 significant bits -/
structure LibcRounds (F : FpuSpec) (n : Nat) (p : Parsed) : Prop where
  f32 : (F.val32 p.f32).toInt? = some (roundNat 24 n : Int)
  f64 : (F.val64 p.f64).toInt? = some (roundNat 53 n : Int)
  f80 : (F.val80 p.f80).toInt? = some (roundNat 64 n : Int)

end ChibiVerif.FpLiteral
