/-
C16, typing of the atomic primitives: type.c `add_type`, arms `ND_CAS` and `ND_EXCH` (as of /repo c3d94ea).

  case ND_CAS:
    if (cas_addr->ty->kind != TY_PTR)                      "pointer expected"
    if (cas_old->ty->kind != TY_PTR)                       "pointer expected"
    if (cas_addr->ty->base->size > 8)                      "atomic operations on objects larger than 8 bytes are not supported"
    if (!is_numeric(addr base) && addr base kind != TY_PTR) "atomic operations on aggregates are not supported"
    if (!is_numeric(old base) && old base kind != TY_PTR)   "atomic operations on aggregates are not supported"
    if (old base size != addr base size)                   "the expected value must have the size of the atomic object"
    cas_new = new_cast(cas_new, cas_addr->ty->base)
  case ND_EXCH:
    the first, third and fourth test on `lhs`; rhs = new_cast(rhs, lhs->ty->base)

The types are the flat records of the AST dump (`Ast.Ty`, `base` = id into the type table), so that the
same function runs on every `ND_CAS`/`ND_EXCH` node of every dumped program (which the real checker has
accepted) and on described operand types for the rejected ones.

`scalarSize` is the size type.c gives to each scalar kind; it is read from the *regenerated*
`Gen/DeclspecGen.lean` (type.c `Type` literals, `pointer_to`, `enum_type`), not written down here.
-/
import ChibiVerif.Model.Ast
import ChibiVerif.Model.Atomics
import ChibiVerif.Gen.DeclspecGen

namespace ChibiVerif.C16Typing
open ChibiVerif.Ast ChibiVerif.Atomics
open ChibiVerif.Gen

/-- type.c `is_integer` -/
def isInteger (t : Ty) : Bool :=
  match t.kind with
  | .bool | .char | .short | .int | .long | .enum => true
  | _ => false

/-- type.c `is_flonum` -/
def isFlonum (t : Ty) : Bool :=
  match t.kind with
  | .float | .double | .ldouble => true
  | _ => false

/-- type.c `is_numeric` -/
def isNumeric (t : Ty) : Bool := isInteger t || isFlonum t

/-- the diagnostics of the two arms (`error_tok`), plus the NULL dereference the C code would commit if a
    `TY_PTR` had no base (never: `pointer_to` always sets it; kept explicit) -/
inductive Diag where
  | pointerExpectedAddr      -- "pointer expected" at cas_addr / the first argument of the exchange
  | pointerExpectedOld       -- "pointer expected" at cas_old
  | tooLarge                 -- "atomic operations on objects larger than 8 bytes are not supported"
  | aggregateAddr            -- "atomic operations on aggregates are not supported" at cas_addr / lhs
  | aggregateOld             -- the same message at cas_old
  | sizeMismatch             -- "the expected value must have the size of the atomic object"
  | nullType                 -- `node->ty` or `ty->base` is NULL: the C code would crash
  deriving DecidableEq, Repr, Inhabited

def Diag.message : Diag → String
  | .pointerExpectedAddr | .pointerExpectedOld => "pointer expected"
  | .tooLarge => "atomic operations on objects larger than 8 bytes are not supported"
  | .aggregateAddr | .aggregateOld => "atomic operations on aggregates are not supported"
  | .sizeMismatch => "the expected value must have the size of the atomic object"
  | .nullType => "(NULL type)"

def Diag.tag : Diag → String
  | .pointerExpectedAddr => "ptr-addr" | .pointerExpectedOld => "ptr-old" | .tooLarge => "large"
  | .aggregateAddr => "aggr-addr" | .aggregateOld => "aggr-old" | .sizeMismatch => "size" | .nullType => "null"

/-- `ty->base` through the type table -/
def baseOf (types : List Ty) (t : Ty) : Option Ty :=
  if t.base < 0 then none else types[t.base.toNat]?

/-- the object test both arms apply to a pointee -/
def isAtomicOperand (b : Ty) : Bool := isNumeric b || b.kind == .ptr

/-- `ND_CAS`: the tests in the order of the C code; accepted → the two pointee types -/
def casCheck (types : List Ty) (addr old : Option Ty) : Except Diag (Ty × Ty) :=
  match addr, old with
  | some a, some o =>
    if a.kind != .ptr then .error .pointerExpectedAddr
    else if o.kind != .ptr then .error .pointerExpectedOld
    else
      match baseOf types a with
      | none => .error .nullType
      | some ab =>
        if ab.size > 8 then .error .tooLarge
        else if !isAtomicOperand ab then .error .aggregateAddr
        else
          match baseOf types o with
          | none => .error .nullType
          | some ob =>
            if !isAtomicOperand ob then .error .aggregateOld
            else if ob.size != ab.size then .error .sizeMismatch
            else .ok (ab, ob)
  | _, _ => .error .nullType

/-- `ND_EXCH`; accepted → the pointee type (which is also the type of the node) -/
def exchCheck (types : List Ty) (lhs : Option Ty) : Except Diag Ty :=
  match lhs with
  | some a =>
    if a.kind != .ptr then .error .pointerExpectedAddr
    else
      match baseOf types a with
      | none => .error .nullType
      | some ab =>
        if ab.size > 8 then .error .tooLarge
        else if !isAtomicOperand ab then .error .aggregateAddr
        else .ok ab
  | none => .error .nullType

/-! ### sizes of the scalar kinds (type.c, regenerated) -/

/-- the `TyName` literal of type.c that carries each numeric kind (signed variant; `scalarSize_unsigned`
    in the lemmas shows the unsigned literals have the same sizes) -/
def primOf : TyKind → Option Declspec.TyName
  | .bool => some .bool | .char => some .char | .short => some .short | .int => some .int
  | .long => some .long | .float => some .float | .double => some .double | .ldouble => some .ldouble
  | _ => none

/-- the size type.c gives every object of a scalar kind: the `Type` literals, `enum_type()`, `pointer_to()` -/
def scalarSize (k : TyKind) : Option Nat :=
  match k with
  | .enum => some Declspec.ENUM_SIZE
  | .ptr => some Declspec.PTR_SIZE
  | k => (primOf k).map fun n => (Declspec.primInfo n).1

/-- invariant of the type table: a type of a scalar kind has the size type.c gives that kind
    (checked on every type of every dump by `drv_c16 casnodes`) -/
def SizeWf (t : Ty) : Bool :=
  match scalarSize t.kind with
  | some s => t.size == (s : Int)
  | none => true

/-! ### from a checked pointee type to the parameters of the interleaving model -/

/-- how codegen.c `load`/`store`/ND_EXCH treat the type: `Kind.flo` for TY_FLOAT/TY_DOUBLE, otherwise by `is_unsigned` -/
def kindOf (t : Ty) : Kind :=
  if t.kind == .float || t.kind == .double then .flo
  else if t.isUnsigned then .unsigned else .signed

def widthOf (t : Ty) : Option Width :=
  if t.size < 0 then none else Width.ofBytes? t.size.toNat

end ChibiVerif.C16Typing
