/-
Model of chibicc's driver process (main.c `main`, `run_subprocess`, `run_cc1`, `assemble`,
`run_linker`, `create_tmpfile`, `cleanup`) as a small-step transition system (C14).

What is transcribed
* the per-input dispatch of the `for` loop in `main` (`plan`): `-l…` → `ld_args`; output name
  (`opt_o`, else `replace_extn(input, ".s"/".o")`, the two results are fields of `Input`);
  `get_file_type` (`-E` forces `FILE_C`; an unknown extension is `error()`); `.o/.a/.so` → `ld_args`;
  `.s`: nothing under `-S` and `-E`, `assemble(input, output)` under `-c`, otherwise
  `tmp = create_tmpfile(); assemble(input, tmp); push tmp`; `.c`: `-E` → `run_cc1(input, NULL)`
  (cc1 itself opens `opt_o`), `-S` → `run_cc1(input, output)`, `-c` → `tmp; run_cc1(input,tmp);
  assemble(tmp, output)`, link → `tmp1; tmp2; run_cc1(input,tmp1); assemble(tmp1,tmp2); push tmp2`;
  after the loop `if (ld_args.len > 0 && linking) run_linker(ld_args, opt_o ? opt_o : "a.out")`;
* `-o` with several inputs under `-c`, `-S` or `-E` is `error()`; no input is `error()`;
* `create_tmpfile`: `mkstemp` creates an empty file whose name the ENVIRONMENT chooses (`Env.fresh`,
  `none` = mkstemp failed → `error()`), the name is pushed to `tmpfiles`;
* `run_subprocess`: `fork/execvp` (step "spawn"), `wait` (step "wait"), `if (status != 0) exit(1)`;
  the wait status of every child is chosen by the ENVIRONMENT (`Env.sched prog k` = outcome of the
  k-th invocation of `prog`): exit code or death by signal; a failing `as`/`ld` may leave its output path
  untouched, leave junk in it, or remove it (`Outcome.leaves`);
* cc1 (main.c `cc1`): the assembly is produced into a memory buffer and the output file is opened only
  after `codegen` returned (`-E`: `print_tokens` opens it after `preprocess`), so a cc1 whose front end fails
  writes nothing to its output path; a succeeding one writes it completely; the dependency file of `-MD` is
  written last, so a cc1 that fails THERE has written its output completely (`Leaves.complete`);
* `exit()` / `return` from `main`: the `atexit` handler `cleanup` unlinks every entry of `tmpfiles`
  (one step per `unlink`), then the process is gone (`Phase.done code`).

`Phase.stuck` is a model-internal error (a temp register that was never filled); `doActs_not_stuck` with
`compile_WF` in Lemmas/DriverProcLemmas.lean shows it is unreachable (`C14_terminates`).

`-M` is `Cmd.depsOnly`; the argument parser that produces the `Cmd` from argv (all options, `-x`, `-Wl,`) is
Model/C14Args.lean + Model/C14Compose.lean, the dependency output of the cc1 children (`-M`, `-MD`, `-MF`) is
Model/C14Deps.lean.  Not modelled: a failing `fork`.  A cc1 whose WRITE fails after a successful `fopen`
(ENOSPC; main.c `close_file` turns it into `error()`) is a failing cc1 that has already truncated its
output: the model's cc1 fails only before opening; the harness exercises the write error on `/dev/full`,
where nothing is left behind.

File contents are abstract: a class (source / preprocessed / assembly / object / executable / junk) and
the list of origin tags of the source files that went into it, which is what the process harness can
observe on the real files (ELF type + marker symbols).
Core Lean only.
-/
namespace ChibiVerif.DriverProc

inductive Mode where | E | S | c | link deriving DecidableEq, Repr, Inhabited
inductive Kind where | C | asm | obj | lib | unknown deriving DecidableEq, Repr, Inhabited
inductive Prog where | cc1 | as | ld deriving DecidableEq, Repr, Inhabited
inductive Cls where | orig | empty | pp | asm | obj | exe | junk | deps deriving DecidableEq, Repr, Inhabited

structure Content where
  cls : Cls
  origins : List Nat
  deriving DecidableEq, Repr, Inhabited

/-- how a child process ended -/
inductive Status where
  | exit (k : Nat)        -- `_exit(k)`; only the low 8 bits reach the parent
  | signal (n : Nat)      -- killed by signal number `n % 127 + 1`
  deriving DecidableEq, Repr, Inhabited

/-- the `int status` that `wait(&status)` stores (POSIX encoding: exit code in bits 8–15, terminating
    signal in bits 0–6) -/
def Status.wait : Status → Nat
  | .exit k => (k % 256) * 256
  | .signal n => n % 127 + 1

/-- what a FAILING child does to its output path (GNU as and ld unlink it on error; a tool killed half-way
    leaves a partial file; or it never got as far as opening it; or it wrote the whole output and failed
    afterwards — `complete` — which for cc1 happens in exactly one way: under `-MD` the assembly was written and the
    write of the dependency file, which comes last, failed) -/
inductive Leaves where | untouched | junk | removed | complete deriving DecidableEq, Repr, Inhabited

structure Outcome where
  status : Status
  leaves : Leaves := .untouched
  deriving DecidableEq, Repr, Inhabited

def Outcome.ok : Outcome := ⟨.exit 0, .untouched⟩

/-! ### file system -/

abbrev FS (P : Type) := List (P × Content)

namespace FS
variable {P : Type} [DecidableEq P]

def get : FS P → P → Option Content
  | [], _ => none
  | (q, c) :: r, p => if q = p then some c else get r p

def erase (fs : FS P) (p : P) : FS P := fs.filter (fun e => !decide (e.1 = p))

def set (fs : FS P) (p : P) (c : Content) : FS P := (p, c) :: fs.erase p

/-- origin tags of what is stored at `p` (nothing if the file does not exist) -/
def origins (fs : FS P) (p : P) : List Nat :=
  match fs.get p with
  | some c => c.origins
  | none => []

end FS

/-! ### commands -/

structure Input (P : Type) where
  path : P            -- the argument as written
  kind : Kind         -- by extension (`-l…` is `lib`)
  sOut : P            -- replace_extn(path, ".s")
  oOut : P            -- replace_extn(path, ".o")
  deriving DecidableEq, Repr

structure Cmd (P : Type) where
  mode : Mode
  out : Option P      -- `-o`
  inputs : List (Input P)
  aout : P            -- "a.out"
  /-- `-M`: every C input is run through cc1 without an output (cc1 prints the dependencies and returns), `.s` inputs
      are skipped, nothing is assembled or linked — whatever `-E`/`-S`/`-c` say (`opt_E || opt_M`, `opt_S || opt_E || opt_M`,
      `!opt_c && !opt_S && !opt_E && !opt_M` in main.c) -/
  depsOnly : Bool := false
  /-- entries of `input_paths` that the loop skips without any effect (`-Wl,` with no non-empty token): they count for
      `input_paths.len` (the `no input files` and the `-o with multiple files` tests) and for nothing else -/
  nExtra : Nat := 0
  deriving DecidableEq, Repr

/-- `error()` / `usage()` of the driver itself; the last three are raised by `parse_args` -/
inductive DrvErr where | multiO | unknownExt | noInput | usage | unknownArg | unknownX
  deriving DecidableEq, Repr, Inhabited

/-- a path known when the command is read, or the i-th entry of `tmpfiles` (a local `char *tmp`) -/
inductive Ref (P : Type) where
  | path (p : P)
  | tmp (i : Nat)
  deriving DecidableEq, Repr

inductive Act (P : Type) where
  | mktemp                                                   -- create_tmpfile()
  | run (prog : Prog) (inp : Ref P) (out : Option (Ref P))   -- run_cc1 / assemble
  | pushLd (r : Ref P)                                       -- strarray_push(&ld_args, …)
  | link (out : P)                                           -- if (ld_args.len > 0) run_linker(&ld_args, out)
  | fail (why : DrvErr)                                      -- error(…)
  deriving DecidableEq, Repr

inductive Event (P : Type) where
  | mkstemp (p : P)
  | mkstempFailed
  | spawn (prog : Prog) (inp : List P) (out : Option P)
  | wait (prog : Prog) (st : Status)
  | error (why : DrvErr)
  | unlink (p : P)
  | exit (code : Nat)
  deriving DecidableEq, Repr

inductive Phase (P : Type) where
  | run                                                      -- executing `main`
  | waiting (prog : Prog) (inp : List P) (out : Option P)    -- child forked, parent in `wait`
  | exiting (code : Nat) (todo : List P)                     -- inside exit(): `cleanup` still has `todo` to unlink
  | done (code : Nat)                                        -- process gone, exit status `code`
  | stuck                                                    -- model-internal error (unreachable)
  deriving DecidableEq, Repr

structure DState (P : Type) where
  acts : List (Act P)          -- rest of `main` (program counter)
  tmpfiles : List P
  ldArgs : List P
  nTemp : Nat := 0             -- mkstemp calls so far
  nCc1 : Nat := 0              -- children of each kind waited for so far
  nAs : Nat := 0
  nLd : Nat := 0
  phase : Phase P := .run
  log : List (Event P) := []   -- oldest first
  deriving DecidableEq, Repr

/-- the environment: everything the driver does not control -/
structure Env (P : Type) where
  mode : Mode                          -- what `cc1` produces (`-E`: preprocessed text)
  sched : Prog → Nat → Outcome         -- fault schedule: outcome of the k-th invocation of each program
  fresh : Nat → Option P               -- k-th mkstemp result (`none`: mkstemp failed)

section
variable {P : Type} [DecidableEq P]

/-! ### main.c `main`: the loop body as a list of actions -/

/-- `get_file_type` after the `-l` test: `-E` sets `opt_x = FILE_C` -/
def effKind (m : Mode) (k : Kind) : Kind :=
  if k = .lib then .lib else if m = .E then .C else k

/-- `output` of the loop body -/
def unitOutput (cmd : Cmd P) (i : Input P) : P :=
  match cmd.out with
  | some o => o
  | none => if cmd.mode = .S then i.sOut else i.oOut

/-- number of `create_tmpfile` calls of one loop iteration -/
def planTemps (cmd : Cmd P) (i : Input P) : Nat :=
  if cmd.depsOnly then 0 else
  match effKind cmd.mode i.kind, cmd.mode with
  | .C, .c => 1
  | .C, .link => 2
  | .asm, .link => 1
  | _, _ => 0

/-- one iteration of the `for` loop; `n` = number of temporaries created by earlier iterations -/
def plan (cmd : Cmd P) (n : Nat) (i : Input P) : List (Act P) :=
  match effKind cmd.mode i.kind with
  | .lib => [.pushLd (.path i.path)]
  | .unknown => [.fail .unknownExt]
  | .obj => [.pushLd (.path i.path)]
  | .asm =>
    if cmd.depsOnly then [] else
    match cmd.mode with
    | .S => []
    | .E => []
    | .c => [.run .as (.path i.path) (some (.path (unitOutput cmd i)))]
    | .link => [.mktemp, .run .as (.path i.path) (some (.tmp n)), .pushLd (.tmp n)]
  | .C =>
    if cmd.depsOnly then [.run .cc1 (.path i.path) none] else
    match cmd.mode with
    | .E => [.run .cc1 (.path i.path) (cmd.out.map .path)]
    | .S => [.run .cc1 (.path i.path) (some (.path (unitOutput cmd i)))]
    | .c => [.mktemp, .run .cc1 (.path i.path) (some (.tmp n)),
             .run .as (.tmp n) (some (.path (unitOutput cmd i)))]
    | .link => [.mktemp, .mktemp, .run .cc1 (.path i.path) (some (.tmp n)),
                .run .as (.tmp n) (some (.tmp (n + 1))), .pushLd (.tmp (n + 1))]

/-- the loop, then `if (ld_args.len > 0 && !opt_c && !opt_S && !opt_E && !opt_M) run_linker(…)` -/
def compileLoop (cmd : Cmd P) : Nat → List (Input P) → List (Act P)
  | _, [] => if cmd.mode = .link ∧ cmd.depsOnly = false then [.link (cmd.out.getD cmd.aout)] else []
  | n, i :: r => plan cmd n i ++ compileLoop cmd (n + planTemps cmd i) r

def multiO (cmd : Cmd P) : Bool :=
  decide (cmd.inputs.length + cmd.nExtra > 1) && cmd.out.isSome && decide (cmd.mode ≠ .link)

/-- `main` after `parse_args` -/
def compile (cmd : Cmd P) : List (Act P) :=
  if cmd.inputs.isEmpty ∧ cmd.nExtra = 0 then [.fail .noInput]
  else if multiO cmd then [.fail .multiO]
  else compileLoop cmd 0 cmd.inputs

def init (cmd : Cmd P) : DState P :=
  { acts := compile cmd, tmpfiles := [], ldArgs := [] }

/-! ### children -/

/-- what a SUCCESSFUL child writes -/
def childOut (mode : Mode) (prog : Prog) (fs : FS P) (inp : List P) : Content :=
  let org := inp.flatMap (fun p => fs.origins p)
  match prog with
  | .cc1 => ⟨if mode = .E then .pp else .asm, org⟩
  | .as => ⟨.obj, org⟩
  | .ld => ⟨.exe, org⟩

/-- effect of a whole child run on the file system -/
def childEffect (mode : Mode) (prog : Prog) (oc : Outcome) (fs : FS P) (inp : List P)
    (out : Option P) : FS P :=
  match out with
  | none => fs                                    -- `-E` without `-o`: stdout
  | some o =>
    if oc.status.wait = 0 ∨ oc.leaves = .complete then fs.set o (childOut mode prog fs inp)
    else if prog = .cc1 then fs                   -- cc1 opens its output only after codegen succeeded
    else match oc.leaves with
      | .untouched => fs
      | .junk => fs.set o ⟨.junk, []⟩
      | .removed => fs.erase o
      | .complete => fs                           -- (handled above)

/-! ### the driver's steps -/

def resolve (tmpfiles : List P) : Ref P → Option P
  | .path p => some p
  | .tmp i => tmpfiles[i]?

def resolveOut (tmpfiles : List P) : Option (Ref P) → Option (Option P)
  | none => some none
  | some r => (resolve tmpfiles r).map some

def DState.count (s : DState P) : Prog → Nat
  | .cc1 => s.nCc1
  | .as => s.nAs
  | .ld => s.nLd

def DState.bump (s : DState P) : Prog → DState P
  | .cc1 => { s with nCc1 := s.nCc1 + 1 }
  | .as => { s with nAs := s.nAs + 1 }
  | .ld => { s with nLd := s.nLd + 1 }

/-- `exit(code)`: the atexit handler will walk `tmpfiles` -/
def DState.exitWith (s : DState P) (code : Nat) : DState P :=
  { s with phase := .exiting code s.tmpfiles }

def DState.emit (s : DState P) (e : Event P) : DState P := { s with log := s.log ++ [e] }

/-- one step of `main` proper (phase `run`) -/
def stepRun (env : Env P) (s : DState P) (fs : FS P) : DState P × FS P :=
  match s.acts with
  | [] => (s.exitWith 0, fs)                                  -- `return 0`
  | .mktemp :: r =>
    match env.fresh s.nTemp with
    | none => ((({ s with acts := r }).emit .mkstempFailed).exitWith 1, fs)
    | some t =>
      (({ s with acts := r, nTemp := s.nTemp + 1, tmpfiles := s.tmpfiles ++ [t] }).emit (.mkstemp t),
       fs.set t ⟨.empty, []⟩)
  | .run prog inp out :: r =>
    match resolve s.tmpfiles inp, resolveOut s.tmpfiles out with
    | some i, some o =>
      (({ s with acts := r, phase := .waiting prog [i] o }).emit (.spawn prog [i] o), fs)
    | _, _ => ({ s with acts := r, phase := .stuck }, fs)
  | .pushLd ref :: r =>
    match resolve s.tmpfiles ref with
    | some p => ({ s with acts := r, ldArgs := s.ldArgs ++ [p] }, fs)
    | none => ({ s with acts := r, phase := .stuck }, fs)
  | .link o :: r =>
    if s.ldArgs.isEmpty then ({ s with acts := r }, fs)
    else (({ s with acts := r, phase := .waiting .ld s.ldArgs (some o) }).emit
            (.spawn .ld s.ldArgs (some o)), fs)
  | .fail why :: r => ((({ s with acts := r }).emit (.error why)).exitWith 1, fs)

/-- `wait(&status); if (status != 0) exit(1);` — the child's whole effect becomes visible here -/
def stepWait (env : Env P) (s : DState P) (fs : FS P) (prog : Prog) (inp : List P)
    (out : Option P) : DState P × FS P :=
  let oc := env.sched prog (s.count prog)
  let s1 := (s.bump prog).emit (.wait prog oc.status)
  let fs1 := childEffect env.mode prog oc fs inp out
  if oc.status.wait = 0 then ({ s1 with phase := .run }, fs1) else (s1.exitWith 1, fs1)

/-- the transition function (deterministic once the environment is fixed) -/
def step (env : Env P) (s : DState P) (fs : FS P) : DState P × FS P :=
  match s.phase with
  | .done _ => (s, fs)
  | .stuck => (s, fs)
  | .exiting code [] => (({ s with phase := .done code }).emit (.exit code), fs)
  | .exiting code (t :: ts) => (({ s with phase := .exiting code ts }).emit (.unlink t), fs.erase t)
  | .waiting prog inp out => stepWait env s fs prog inp out
  | .run => stepRun env s fs

def Phase.terminal : Phase P → Bool
  | .done _ => true
  | .stuck => true
  | _ => false

def iter (env : Env P) : Nat → DState P × FS P → DState P × FS P
  | 0, x => x
  | n + 1, x => iter env n (step env x.1 x.2)

/-- `x` is a terminal configuration reachable from `x0` -/
def Reaches (env : Env P) (x0 x : DState P × FS P) : Prop :=
  ∃ n, iter env n x0 = x ∧ x.1.phase.terminal = true

def mkCount : List (Act P) → Nat
  | [] => 0
  | .mktemp :: r => mkCount r + 1
  | _ :: r => mkCount r

/-- enough fuel for every run from a configuration in phase `run` (Lemmas: `iter_eq_bigRun`):
    two steps per action, one per `unlink`, `return`, and the final `_exit` -/
def fuel (s : DState P) : Nat := 2 * s.acts.length + s.tmpfiles.length + mkCount s.acts + 2

/-- run a command to completion -/
def runCmd (env : Env P) (cmd : Cmd P) (fs : FS P) : DState P × FS P :=
  iter env (fuel (init cmd)) (init cmd, fs)

/-! ### big-step presentation (used by the proofs; `Lemmas` shows it equals the small-step runs) -/

/-- one action executed to its end; `.error x` = `exit()` was called (or `stuck`), `x` is the
    configuration at that moment -/
def doAct (env : Env P) (a : Act P) (x : DState P × FS P) : Except (DState P × FS P) (DState P × FS P) :=
  let s := x.1
  let fs := x.2
  match a with
  | .mktemp =>
    match env.fresh s.nTemp with
    | none => .error ((s.emit .mkstempFailed).exitWith 1, fs)
    | some t =>
      .ok (({ s with nTemp := s.nTemp + 1, tmpfiles := s.tmpfiles ++ [t] }).emit (.mkstemp t),
           fs.set t ⟨.empty, []⟩)
  | .run prog inp out =>
    match resolve s.tmpfiles inp, resolveOut s.tmpfiles out with
    | some i, some o =>
      let oc := env.sched prog (s.count prog)
      let s1 := (((s.emit (.spawn prog [i] o)).bump prog).emit (.wait prog oc.status))
      let fs1 := childEffect env.mode prog oc fs [i] o
      if oc.status.wait = 0 then .ok (s1, fs1) else .error (s1.exitWith 1, fs1)
    | _, _ => .error ({ s with phase := .stuck }, fs)
  | .pushLd ref =>
    match resolve s.tmpfiles ref with
    | some p => .ok ({ s with ldArgs := s.ldArgs ++ [p] }, fs)
    | none => .error ({ s with phase := .stuck }, fs)
  | .link o =>
    if s.ldArgs.isEmpty then .ok (s, fs)
    else
      let oc := env.sched .ld s.nLd
      let s1 := (((s.emit (.spawn .ld s.ldArgs (some o))).bump .ld).emit (.wait .ld oc.status))
      let fs1 := childEffect env.mode .ld oc fs s.ldArgs (some o)
      if oc.status.wait = 0 then .ok (s1, fs1) else .error (s1.exitWith 1, fs1)
  | .fail why => .error ((s.emit (.error why)).exitWith 1, fs)

def doActs (env : Env P) : List (Act P) → DState P × FS P → Except (DState P × FS P) (DState P × FS P)
  | [], x => .ok x
  | a :: r, x =>
    match doAct env a ({ x.1 with acts := r }, x.2) with
    | .ok y => doActs env r y
    | .error e => .error e

/-- the atexit handler run to its end -/
def cleanupAll (code : Nat) : List P → DState P × FS P → DState P × FS P
  | [], x => (({ x.1 with phase := .done code }).emit (.exit code), x.2)
  | t :: ts, x => cleanupAll code ts (({ x.1 with phase := .exiting code ts }).emit (.unlink t), x.2.erase t)

def finish (x : DState P × FS P) : DState P × FS P :=
  match x.1.phase with
  | .exiting code todo => cleanupAll code todo x
  | _ => x

/-- the whole run from a configuration in phase `run`, in one go -/
def bigRun (env : Env P) (x : DState P × FS P) : DState P × FS P :=
  match doActs env x.1.acts x with
  | .ok y => finish (y.1.exitWith 0, y.2)
  | .error e => finish e

/-! ### observations on logs and commands (vocabulary of the C14 theorems) -/

/-- an event that reports a failed step: a child with non-zero wait status, an `error()` of the driver
    itself, a failed `mkstemp` -/
def Event.bad : Event P → Bool
  | .wait _ st => decide (st.wait ≠ 0)
  | .error _ => true
  | .mkstempFailed => true
  | _ => false

/-- temporaries the driver created, in creation order -/
def created (log : List (Event P)) : List P :=
  log.filterMap (fun e => match e with | .mkstemp p => some p | _ => none)

/-- events of the atexit phase -/
def Event.isCleanup : Event P → Bool
  | .unlink _ => true
  | .exit _ => true
  | _ => false

/-- does input `i` produce an output file of its own in this mode (`-E -o f`, `-S`, `-c`)? -/
def isUnit (cmd : Cmd P) (i : Input P) : Bool :=
  if cmd.depsOnly then false else
  match cmd.mode, effKind cmd.mode i.kind with
  | .E, .C => cmd.out.isSome
  | .S, .C => true
  | .c, .C => true
  | .c, .asm => true
  | _, _ => false

/-- class of a per-unit output -/
def unitCls (cmd : Cmd P) : Cls :=
  match cmd.mode with
  | .E => .pp
  | .S => .asm
  | _ => .obj

/-- the outputs the command asks for (gcc's rules: `-o f`, else `<stem>.s` / `<stem>.o` per translation
    unit, else `a.out`; linker inputs are ignored when not linking) -/
def requested (cmd : Cmd P) : List P :=
  if cmd.depsOnly then []
  else if cmd.mode = .link then [cmd.out.getD cmd.aout]
  else (cmd.inputs.filter (isUnit cmd)).map (unitOutput cmd)

/-- total number of `create_tmpfile` calls of a command -/
def totalTemps (cmd : Cmd P) : List (Input P) → Nat
  | [] => 0
  | i :: r => planTemps cmd i + totalTemps cmd r

/-! ### two drivers sharing one file system -/

/-- `true`: the first driver moves, `false`: the second -/
def istep (envA envB : Env P) (b : Bool) (x : DState P × DState P × FS P) : DState P × DState P × FS P :=
  if b then
    let r := step envA x.1 x.2.2
    (r.1, x.2.1, r.2)
  else
    let r := step envB x.2.1 x.2.2
    (x.1, r.1, r.2)

def irun (envA envB : Env P) : List Bool → DState P × DState P × FS P → DState P × DState P × FS P
  | [], x => x
  | b :: r, x => irun envA envB r (istep envA envB b x)

end
end ChibiVerif.DriverProc
