/-
C01: lvalues other than variables — `s.m`, `a[i]`, `*p`, `p->m`, `p[i]` and their nestings (`a[i].m`, `p->a.b`, …) as the
object read, assigned (`=`) or compound-assigned (`op=`, prefix `++` `--`) at the root of an expression.  Core Lean only
(`drv_c01 lvalue` runs it).

* `LVal` — the lvalue forms of codegen.c `gen_addr`: ND_VAR, ND_MEMBER (`add $offset, %rax`, the offset is the one the
  layout model assigns to the member), ND_DEREF of `a + i` / `p + i` (parse.c `new_add`: the index scaled by a 64-bit
  multiplication, Model/C01Expr `scaleCode`) and of a pointer variable.  Index expressions are expressions of the full type
  `E` (compiled by `compileJ`: they may contain `&&` `||` `?:` and side effects).
* `addrCode` — what `gen_addr` prints; `lvAddr` — the address C11 6.5.2.1 / 6.5.2.3 / 6.5.3.2 / 6.5.6p8 give the lvalue
  (base address + member offsets + index × element size; for `*p` the value of `p`), with the store after the index
  expression has been evaluated.
* `loadCodeL`, `assignCodeL`, `opAssignCodeL` — ND_MEMBER / ND_DEREF reads, ND_ASSIGN, and the parse.c rewriting
  `A op= B` → `tmp = &A, *tmp = *tmp op B` resp. `A.x op= B` → `tmp = &A, (*tmp).x = (*tmp).x op B` (`to_assign`).

Tie: checklib/C01.py (leg b4) compares the rendered lines with `chibicc -S` on generated functions over struct / array /
pointer parameters and locals.
-/
import ChibiVerif.Model.C01ExprJ

namespace ChibiVerif.C01
open ChibiVerif.Asm ChibiVerif.Spec.IntSpec ChibiVerif.Gen.CommonType ChibiVerif.C01Codegen ChibiVerif.X86 ChibiVerif.X86J

/-- `add $d, %rax` (ND_MEMBER) -/
def iAddImm (d : Int) : Ins := ⟨"add", [.i d, .r "%rax"]⟩

inductive LVal where
  | var (i : Nat)                              -- `x`: variable `i`
  | member (l : LVal) (d : Int)                -- `l.m`, `m` at byte offset `d` of `l`
  | index (i0 : Nat) (esz : Int) (ie : E)      -- `a[ie]`: `a` an array at the place of variable `i0`, elements of `esz` bytes
  | deref (j : Nat)                            -- `*p`: `p` the pointer held in the 8-byte variable `j`
  | pindex (j : Nat) (esz : Int) (ie : E)      -- `p[ie]`
  deriving Repr, Inhabited

/-- `idx * sizeof *p` (`scaleCode` of Model/C01Expr with an index that may contain jumps) -/
def scaleCodeJ (ti : ITy) (size : Int) (cidx : List JI) : List JI :=
  J ([iMovImm size] ++ castSeq .i64 (usualArith ti .i64)) ++ (JI.ins iPush :: ((cidx ++ J (castSeq ti (usualArith ti .i64))) ++
    (JI.ins iPopRdi :: J (opSeq .ND_MUL (usualArith ti .i64)))))

/-- `p + i` (`ptrAddCode` of Model/C01Expr with operands that may contain jumps) -/
def ptrAddCodeJ (ti : ITy) (size : Int) (cidx cptr : List JI) : List JI :=
  scaleCodeJ ti size cidx ++ (JI.ins iPush :: (cptr ++ (JI.ins iPopRdi :: J (opSeq .ND_ADD .u64))))

/-- `gen_addr` -/
def addrCode (tys : List ITy) (off toff : Nat → Int) : Nat → Nat → LVal → Option (List JI × Nat × Nat)
  | k, c, .var i => some (J [iLea (off i)], k, c)
  | k, c, .member l d => (addrCode tys off toff k c l).map fun (cd, k1, c1) => (cd ++ J [iAddImm d], k1, c1)
  | k, c, .index i0 esz ie =>
      (compileJ tys off toff k c ie).map fun (ti, ci, k1, c1) => (ptrAddCodeJ ti esz ci (J [iLea (off i0)]), k1, c1)
  | k, c, .deref j => some (J (iLea (off j) :: loadSeq .u64), k, c)
  | k, c, .pindex j esz ie =>
      (compileJ tys off toff k c ie).map fun (ti, ci, k1, c1) => (ptrAddCodeJ ti esz ci (J (iLea (off j) :: loadSeq .u64)), k1, c1)

/-- `d(%rbp)` as an address -/
def frameAddr (bp : BitVec 64) (d : Int) : BitVec 64 := bp + BitVec.ofInt 64 d

/-- **the address of the object the lvalue designates** (modulo 2^64) in a frame at `%rbp = bp`, and the store after the index
    expression has been evaluated: C11 6.5.2.3 (member: the address of the aggregate plus the member's offset), 6.5.2.1 with
    6.5.6p8 (`a[i]` is `*(a + i)`: `i` elements on), 6.5.3.2 (`*p`: the object `p` points to).  `none`: the index expression is
    undefined, or `p` is not a pointer-sized variable. -/
def lvAddr (bp : BitVec 64) (off : Nat → Int) (σ : Env) : LVal → Option (BitVec 64 × Env)
  | .var i => some (frameAddr bp (off i), σ)
  | .member l d => (lvAddr bp off σ l).map fun (a, σ0) => (a + BitVec.ofInt 64 d, σ0)
  | .index i0 esz ie => (evalE σ ie).map fun (k, σ0) => (frameAddr bp (off i0) + BitVec.ofInt 64 (k * esz), σ0)
  | .deref j => if σ.tys[j]? = some .u64 then (σ.vals[j]?).map fun p => (BitVec.ofInt 64 p, σ) else none
  | .pindex j esz ie =>
      (evalE σ ie).bind fun (k, σ0) =>
        if σ0.tys[j]? = some .u64 then (σ0.vals[j]?).map fun p => (BitVec.ofInt 64 p + BitVec.ofInt 64 (k * esz), σ0) else none

/-- stack slots `addrCode` needs -/
def depthL : LVal → Nat
  | .var _ | .deref _ => 0
  | .member l _ => depthL l
  | .index _ _ ie | .pindex _ _ ie => depthJ ie + 1

/-- variables the address computation may modify / the C11 no-conflict condition of its index expression -/
def wrL : LVal → List Nat
  | .var _ | .deref _ => []
  | .member l _ => wrL l
  | .index _ _ ie | .pindex _ _ ie => wr ie

def noConflictL : LVal → Bool
  | .var _ | .deref _ => true
  | .member l _ => noConflictL l
  | .index _ _ ie | .pindex _ _ ie => noConflict ie

/-- the element sizes of subscripts fit a `long` (they are `sizeof` values) -/
def wfL : LVal → Bool
  | .var _ | .deref _ => true
  | .member l _ => wfL l
  | .index _ esz _ | .pindex _ esz _ => decide (ITy.i64.inRange esz)

/-- the value of the lvalue: `gen_addr; load` (ND_VAR, ND_MEMBER, ND_DEREF of `gen_expr`) -/
def loadCodeL (ca : List JI) (t : ITy) : List JI := ca ++ J (loadSeq t)

/-- `lv = e`: `gen_addr(lhs); push; gen_expr(rhs) converted; store` -/
def assignCodeL (ca : List JI) (t te : ITy) (ce : List JI) : List JI :=
  ca ++ (JI.ins iPush :: ((ce ++ J (castSeq te t)) ++ J (storeSeq t)))

/-- the access path through the hidden pointer temporary: `*tmp` resp. `(*tmp).x` -/
def viaTmp (tmp : Int) (dsuf : List Ins) : List Ins := iLea tmp :: loadSeq .u64 ++ dsuf

/-- `A op= B` → `tmp = &A, *tmp = *tmp op B`; for a member `A = P.x`: `tmp = &P, (*tmp).x = (*tmp).x op B` (`cp` = `gen_addr`
    of `A` resp. of `P`, `dsuf` = nothing resp. `add $offset(x), %rax`) -/
def opAssignCodeL (k : NK) (op : BinOp) (ti tb : ITy) (tmp : Int) (cp : List JI) (dsuf : List Ins) (cb : List JI) : List JI :=
  let t := binopOperandType op ti tb
  (J [iLea tmp, iPush] ++ (cp ++ J (storeSeq .u64))) ++ (J (viaTmp tmp dsuf) ++ (JI.ins iPush ::
    ((cb ++ J (if op.isShift then [] else castSeq tb t)) ++ (JI.ins iPush ::
      J (viaTmp tmp dsuf ++ (loadSeq ti ++ (castSeq ti t ++ (iPopRdi :: (opSeq k t ++
        (castSeq (binopType op ti tb) ti ++ storeSeq ti))))))))))

/-- the parent and the member offset of the parse.c member rewriting: `(P, [add $d])` for `P.x`, `(A, [])` otherwise -/
def splitMember : LVal → LVal × List Ins
  | .member l d => (l, [iAddImm d])
  | l => (l, [])

/-- expressions with a general lvalue at the root -/
inductive RootL where
  | load (l : LVal) (t : ITy)
  | assign (l : LVal) (t : ITy) (e : E)
  | opassign (op : BinOp) (l : LVal) (t : ITy) (e : E)
  deriving Repr, Inhabited

/-- `gen_expr` on a root form: (type, code, temporaries, label counter) -/
def compileL (tys : List ITy) (off toff : Nat → Int) (k c : Nat) : RootL → Option (ITy × List JI × Nat × Nat)
  | .load l t => (addrCode tys off toff k c l).map fun (ca, k1, c1) => (t, loadCodeL ca t, k1, c1)
  | .assign l t e =>
      -- `gen_addr(lhs)` first, then the right-hand side: the label numbers follow; the temporaries are numbered in the order
      -- parse.c creates them, which is the same here (the lvalue is parsed first)
      match addrCode tys off toff k c l with
      | some (ca, k1, c1) =>
        (compileJ tys off toff k1 c1 e).map fun (te, ce, k2, c2) => (t, assignCodeL ca t te ce, k2, c2)
      | none => none
  | .opassign op l t e =>
      if compoundable op then
        match addrCode tys off toff k c (splitMember l).1 with
        | some (cp, k1, c1) =>
          (compileJ tys off toff k1 c1 e).map fun (te, ce, k2, c2) =>
            (t, opAssignCodeL (nodeOf op).1 op t te (toff k2) cp (splitMember l).2 ce, k2 + 1, c2)
        | none => none
      else none

end ChibiVerif.C01
