/-
The grammar of C11 6.5.1–6.5.17 / 6.6 restricted to what a controlling expression of #if can contain once identifiers are gone
(6.10.1p4): integer constants, parentheses, the unary operators + - ~ !, the binary operators of 6.5.5–6.5.14, the conditional
operator 6.5.15 and the comma operator 6.5.17 – written as a derivation relation between a nonterminal, a token sequence and
the tree the sequence denotes.  It is written from the standard, not from parse.c; `Props/C10IfParse.lean` proves that every
tree chibicc's parser delivers is derived by it (`C10_ifparse_precedence`).

Nonterminals: `lvl 0` = primary / postfix / unary / cast-expression (one class here: no type names, no postfix operators),
`lvl 1` = multiplicative … `lvl 10` = logical-OR-expression, `cond` = conditional-expression (= constant-expression, 6.6p1; an
assignment-expression without assignment operator is one too), `expr` = expression.

Two conventions about trees (values are not affected):
* `a > b` / `a >= b` denote the tree of `b < a` / `b <= a` (6.5.8p6: the same value), `+ e` denotes the tree of `e` (6.5.3.3p2:
  the value of the promoted operand; at the ranks of 6.10.1p4 promotion changes nothing) – `binTree`, `unTree`;
* a comma list `e1 , e2 , e3` is the right-nested tree `comma e1 (comma e2 e3)` (6.5.17 nests it to the left; either way the
  value and type are those of the last operand).
Core Lean only.
-/
import ChibiVerif.Model.IfParse

namespace ChibiVerif.Spec.IfGrammar
open ChibiVerif.PPExpr ChibiVerif.IfParse

/-- 6.5.5 multiplicative … 6.5.14 logical OR: the operators of each level -/
def c11Ops : Nat → List (String × BinOp)
  | 1 => [("*", .mul), ("/", .div), ("%", .mod)]
  | 2 => [("+", .add), ("-", .sub)]
  | 3 => [("<<", .shl), (">>", .shr)]
  | 4 => [("<", .lt), (">", .gt), ("<=", .le), (">=", .ge)]
  | 5 => [("==", .eq), ("!=", .ne)]
  | 6 => [("&", .band)]
  | 7 => [("^", .bxor)]
  | 8 => [("|", .bor)]
  | 9 => [("&&", .land)]
  | 10 => [("||", .lor)]
  | _ => []

/-- 6.5.3 unary-operator, without `&` and `*` -/
def c11Unary : List (String × UnOp) := [("+", .plus), ("-", .neg), ("~", .bnot), ("!", .lnot)]

def binTree (op : BinOp) (a b : PT) : PT :=
  match op with
  | .gt => .bin .lt b a
  | .ge => .bin .le b a
  | op => .bin op a b

def unTree (op : UnOp) (e : PT) : PT :=
  match op with
  | .plus => e
  | op => .un op e

inductive NT where
  | lvl (d : Nat)
  | cond
  | expr

inductive Derives : NT → List PTok → PT → Prop where
  /-- 6.5.1 primary-expression: constant -/
  | num (v : Nat) (u : Bool) : Derives (.lvl 0) [.num v u] (.num v u)
  /-- 6.5.1 primary-expression: ( expression ) -/
  | paren {ts : List PTok} {t : PT} : Derives .expr ts t → Derives (.lvl 0) (.punct "(" :: ts ++ [.punct ")"]) t
  /-- 6.5.3 unary-expression: unary-operator cast-expression -/
  | unop {s : String} {op : UnOp} {ts : List PTok} {t : PT} :
      (s, op) ∈ c11Unary → Derives (.lvl 0) ts t → Derives (.lvl 0) (.punct s :: ts) (unTree op t)
  /-- 6.5.5 … 6.5.14, first alternative: an expression of the next-higher precedence -/
  | up {d : Nat} {ts : List PTok} {t : PT} : Derives (.lvl d) ts t → Derives (.lvl (d+1)) ts t
  /-- 6.5.5 … 6.5.14: left operand of the same level, right operand of the next-higher precedence (left-associative) -/
  | binop {d : Nat} {s : String} {op : BinOp} {as bs : List PTok} {a b : PT} :
      (s, op) ∈ c11Ops (d+1) → Derives (.lvl (d+1)) as a → Derives (.lvl d) bs b →
      Derives (.lvl (d+1)) (as ++ .punct s :: bs) (binTree op a b)
  /-- 6.5.15 conditional-expression: logical-OR-expression -/
  | condUp {ts : List PTok} {t : PT} : Derives (.lvl 10) ts t → Derives .cond ts t
  /-- 6.5.15: logical-OR-expression ? expression : conditional-expression -/
  | cond {cs as bs : List PTok} {c a b : PT} :
      Derives (.lvl 10) cs c → Derives .expr as a → Derives .cond bs b →
      Derives .cond (cs ++ .punct "?" :: (as ++ .punct ":" :: bs)) (.cond c a b)
  /-- 6.5.17 / 6.5.16: an expression that is a conditional-expression -/
  | exprUp {ts : List PTok} {t : PT} : Derives .cond ts t → Derives .expr ts t
  /-- 6.5.17 comma operator (right-nested, see the header) -/
  | comma {as bs : List PTok} {a b : PT} :
      Derives .cond as a → Derives .expr bs b → Derives .expr (as ++ .punct "," :: bs) (.comma a b)

end ChibiVerif.Spec.IfGrammar
