/-
C16, specification side of `_Atomic` propagation: the C type of a declared identifier and of an lvalue expression,
written after the standard, independently of chibicc's `Type` objects.

Sources: C11 (N1570) 6.2.5p20 (derived types), 6.3.2.1p2-4 (lvalue conversion drops qualifiers; arrays and functions
decay to pointers), 6.5.2.1 (`a[i]` is `*(a + i)`), 6.5.2.3 (`.`/`->`; p5: accessing a member of an atomic structure
is undefined), 6.5.3.2 (`&`, `*`), 6.5.4 (a cast yields the unqualified version of the named type), 6.5.6p8
(pointer + integer has the type of the pointer operand), 6.7.2.1p5 (a bit-field of atomic type is
implementation-defined: here a constraint violation, as in gcc and clang and now in chibicc), 6.7.2.4p3 (`_Atomic(T)`:
T not an array, function, atomic or qualified type), 6.7.3p3 (the `_Atomic` qualifier shall not modify an array or
function type), 6.7.6 (declarators: `T D` where D is `* type-qualifier-list D1`, `D1[n]`, `D1(...)`, `(D1)`), 6.7.6.1p1
(for each type qualifier in the list after `*`, the identifier is a so-qualified POINTER: `int *_Atomic p` declares an
atomic pointer to a plain `int`; 6.7.3p5: a qualifier that appears more than once counts once), 6.7.8 (a typedef name
denotes the type), 6.9.1/6.7.6.3p7-8 (parameters of array / function type are adjusted to pointers);
C23 6.7.2.5 for `typeof` (type-name operand: that type; expression operand: the type of the expression, no lvalue
conversion, so an `_Atomic` lvalue keeps its qualifier).

`none` = the program violates a constraint, has undefined behaviour, or lies outside what is specified here
(numeric `+`; `&` applied to an array, where chibicc deviates from the standard: it gives `&a` the type
pointer-to-element).  The property theorem quantifies over the programs for which this is `some`.
-/
import ChibiVerif.Model.C16Qual

namespace ChibiVerif.C16QualSpec
open ChibiVerif.C16Qual (Prim PQual Declr TSpec Expr Decl MemberDecl UpdOp)

/-- a C type; `atomic` = `_Atomic`-qualified (or specified with `_Atomic( )`) at this level.  Array and function
    types have no such flag: the standard forbids it (6.7.3p3, 6.7.2.4p3). -/
inductive CType where
  | num (p : Prim) (atomic : Bool)
  | enum (atomic : Bool)
  | void
  | ptr (to : CType) (atomic : Bool)
  | arr (elem : CType) (n : Nat)
  | fn (ret : CType)
  | agg (isUnion : Bool) (tag : String) (atomic : Bool)
  deriving DecidableEq, Repr, Inhabited

/-- is an lvalue of this type an atomic object? -/
def CType.isAtomic : CType → Bool
  | .num _ a | .enum a | .ptr _ a | .agg _ _ a => a
  | _ => false

/-- the `_Atomic` type qualifier applied to a type (6.7.3p3) -/
def CType.qualify : CType → Option CType
  | .num p _ => some (.num p true)
  | .enum _ => some (.enum true)
  | .ptr t _ => some (.ptr t true)
  | .agg u t _ => some (.agg u t true)
  | .void => none            -- an atomic `void` object cannot exist; not specified here
  | .arr _ _ => none
  | .fn _ => none

/-- the unqualified version of a type -/
def CType.unqual : CType → CType
  | .num p _ => .num p false
  | .enum _ => .enum false
  | .ptr t _ => .ptr t false
  | .agg u t _ => .agg u t false
  | t => t

structure SMember where
  name : String
  ty : CType
  bitfield : Bool
  deriving DecidableEq, Repr, Inhabited

structure SEnv where
  typedefs : List (String × CType) := []
  vars : List (String × CType) := []
  tags : List (String × Bool × List SMember) := []
  deriving Inhabited

/-- 6.7.6: the type `T D` gives the identifier.  `* type-qualifier-list D1` (6.7.6.1p1): "type-qualifier-list pointer to
    T" - the pointer is `_Atomic`-qualified iff `_Atomic` occurs in the list (anywhere, any number of times; `const`,
    `volatile` and the `restrict` spellings do not bear on atomicity.  Their own constraints - `restrict` needs a pointer
    to an object type, 6.7.3p2 - are not specified here). -/
def declType : Declr → CType → CType
  | .name, t => t
  | .paren d, t => declType d t
  | .ptr d qs, t => declType d (.ptr t (qs.contains .atomic))
  | .arr d n, t => declType d (.arr t n)
  | .fn d, t => declType d (.fn t)

/-- value of an expression used where a value is needed: lvalue conversion, array and function decay -/
def rvalue : CType → CType
  | .arr e _ => .ptr e false
  | .fn r => .ptr (.fn r) false
  | t => t.unqual

def memberType (env : SEnv) (t : CType) (m : String) : Option SMember :=
  match t with
  | .agg _ tag false =>                           -- a member of an atomic structure must not be accessed (6.5.2.3p5)
    match env.tags.lookup tag with
    | some (_, ms) => ms.find? (·.name == m)
    | none => none
  | _ => none

def pointee : CType → Option CType
  | .ptr .void _ => none
  | .ptr t _ => some t
  | _ => none

/-- [`_Atomic`] applied to the type the specifiers name -/
def qualified (t : CType) (kw : Bool) : Option CType := if kw then t.qualify else some t

/-- type of an expression, whether it is an lvalue, whether it designates a bit-field -/
structure STy where
  ty : CType
  lv : Bool
  bf : Bool := false
  deriving DecidableEq, Repr, Inhabited

def isObjectLv : CType → Bool
  | .fn _ => false
  | _ => true

mutual
/-- the type a type specifier names -/
def specType (env : SEnv) : TSpec → Option CType
  | .prim p => some (.num p false)
  | .void => some .void
  | .enum => some (.enum false)
  | .tdef n => env.typedefs.lookup n
  | .agg u tag =>
    match env.tags.lookup tag with
    | some _ => some (.agg u tag false)
    | none => none
  | .typeofT s kw d => do
    let t ← specType env s
    let q ← qualified t kw
    pure (declType d q)
  | .typeofE e => do
    let r ← typeOf env e
    if r.bf then none                              -- C23 6.7.2.5p2: not applied to a bit-field member
    pure r.ty
  | .atomicOf s kw d => do
    -- 6.7.2.4p3: the type name shall not refer to an array, function, atomic or qualified type
    let t ← specType env s
    let q ← qualified t kw
    let tn := declType d q
    if tn.isAtomic then none
    tn.qualify

/-- the type of an expression, whether it is an lvalue, whether it designates a bit-field -/
def typeOf (env : SEnv) : Expr → Option STy
  | .var x => do
    let t ← env.vars.lookup x
    pure ⟨t, isObjectLv t, false⟩
  | .par e => typeOf env e
  | .deref e => do
    let r ← typeOf env e
    let p ← pointee (rvalue r.ty)
    pure ⟨p, isObjectLv p, false⟩
  | .addr e => do
    let r ← typeOf env e
    match r.ty with
    | .arr _ _ => none                           -- `&array`: pointer to the array in C; chibicc deviates, not specified here
    | t =>                                       -- an lvalue that is not a bit-field, or a function designator (6.5.3.2p1)
      if (r.lv || !isObjectLv t) && !r.bf then pure ⟨.ptr t false, false, false⟩ else none
  | .mem e m => do
    let r ← typeOf env e
    let mem ← memberType env r.ty m
    pure ⟨mem.ty, r.lv, mem.bitfield⟩
  | .arrow e m => do
    let r ← typeOf env e
    let s ← pointee (rvalue r.ty)
    let mem ← memberType env s m
    pure ⟨mem.ty, true, mem.bitfield⟩
  | .idx e _ => do
    let r ← typeOf env e
    match rvalue r.ty with
    | .ptr (.fn _) _ => none
    | p => do
      let el ← pointee p
      pure ⟨el, true, false⟩
  | .add e _ => do
    let r ← typeOf env e
    match rvalue r.ty with
    | .ptr (.fn _) _ => none
    | .ptr to _ => pure ⟨.ptr to false, false, false⟩
    | _ => none                                   -- numeric `+`: not specified here
  | .cast s kw d e => do
    let t ← specType env s
    let q ← qualified t kw
    let _ ← typeOf env e
    pure ⟨(declType d q).unqual, false, false⟩
  | .call e => do
    let r ← typeOf env e
    match r.ty with                                -- a function designator or a pointer to function (6.5.2.2p1)
    | .fn ret => pure ⟨ret.unqual, false, false⟩
    | .ptr (.fn ret) _ => pure ⟨ret.unqual, false, false⟩
    | _ => none
end

/-- the declared type `[_Atomic] s D` gives the identifier -/
def declaredType (env : SEnv) (s : TSpec) (kw : Bool) (d : Declr) : Option CType := do
  let t ← specType env s
  let q ← qualified t kw
  pure (declType d q)

def isInteger : CType → Bool
  | .num p _ => !p.isFlonum
  | .enum _ => true
  | _ => false

def specMember (env : SEnv) (md : MemberDecl) : Option SMember := do
  let t ← declaredType env md.spec md.kw md.d
  if md.bitfield && (!isInteger t || t.isAtomic) then none
  pure { name := md.name, ty := t, bitfield := md.bitfield }

def specMembers (env : SEnv) : List MemberDecl → Option (List SMember)
  | [] => some []
  | md :: rest => do
    let m ← specMember env md
    let ms ← specMembers env rest
    pure (m :: ms)

/-- 6.7.6.3p7-8: a parameter of array type is adjusted to pointer to the element type, one of function type to
    pointer to function -/
def adjustParam : CType → CType
  | .arr e _ => .ptr e false
  | .fn r => .ptr (.fn r) false
  | t => t

def specDecl (env : SEnv) : Decl → Option SEnv
  | .typedef_ n s kw d => do
    let t ← declaredType env s kw d
    pure { env with typedefs := (n, t) :: env.typedefs }
  | .var n s kw d => do
    let t ← declaredType env s kw d
    match t with
    | .void => none
    | _ => pure { env with vars := (n, t) :: env.vars }
  | .param n s kw d => do
    let t ← declaredType env s kw d
    pure { env with vars := (n, adjustParam t) :: env.vars }
  | .aggDef u tag mds => do
    let env' : SEnv := { env with tags := (tag, u, []) :: env.tags }
    let ms ← specMembers env' mds
    pure { env with tags := (tag, u, ms) :: env.tags }

def specDecls (env : SEnv) : List Decl → Option SEnv
  | [] => some env
  | d :: rest => do
    let env' ← specDecl env d
    specDecls env' rest

/-- the updated expression is a modifiable lvalue designating an atomic object (of type `t`) -/
def atomicLvalue (env : SEnv) (e : Expr) : Option CType :=
  match typeOf env e with
  | some r => if r.lv && r.ty.isAtomic then some r.ty else none
  | none => none

/-- the atomic objects on which a read-modify-write is one `lock cmpxchg`: scalars of at most 8 bytes (their size) -/
def CType.rmwSize? : CType → Option Nat
  | .num p _ => if p.size ≤ 8 then some p.size else none
  | .enum _ => some 4
  | .ptr _ _ => some 8
  | _ => none

/-- no member of the declaration is a bit-field -/
def noBitfield : Decl → Bool
  | .aggDef _ _ mds => mds.all fun md => !md.bitfield
  | _ => true

end ChibiVerif.C16QualSpec
