/-
C11 semantics of the floating-point part of the language on x86-64 (FLT_EVAL_METHOD 0), relative to an `FpuSpec`:
the specification side of C02.  Written from the standard:

  6.2.5p10, Annex F.2   float = IEC 60559 single, double = double, long double = x87 double extended
  6.3.1.2               conversion to _Bool: 0 if the value compares equal to 0, else 1 (a NaN does not compare equal)
  6.3.1.4               floating → integer: the fractional part is discarded; undefined if the integral part is not
                        representable (here: `none`); integer → floating: exact if representable, else the nearest
                        (F.3: per IEC 60559 convertFromInt, i.e. the rounding-direction mode, nearest-even)
  6.3.1.5               floating → floating: exact when widening; rounded (IEC 60559) when narrowing
  6.3.1.8               usual arithmetic conversions: long double > double > float > the integer rules
  6.5.8, 6.5.9, F.3     relational / equality operators are the IEC 60559 comparisons: every comparison with a NaN
                        operand is false except `!=`
  6.5.3.3, 6.5.13-15, 6.8.4.1, 6.8.5   `!e`, `&&`, `||`, `?:`, `if`, loops test `e` against 0 (`e != 0`): NaN is true, −0.0 false
  6.5.3.3p3, F.3        unary minus: IEC 60559 negate (sign bit complemented, also of zeros, infinities and NaNs)

Everything whose *value* is the FPU's business is one application of a field of `F`.
-/
import ChibiVerif.Spec.FpuSpec
import ChibiVerif.Spec.IntSpec

namespace ChibiVerif.Spec.FpC11
open ChibiVerif.Spec.Fpu ChibiVerif.Spec.IntSpec

/-- the twelve arithmetic types -/
inductive ATy where
  | int (t : ITy)
  | f32 | f64 | f80
  deriving DecidableEq, Repr, Inhabited

def ATy.all : List ATy := ITy.all.map .int ++ [.f32, .f64, .f80]

def ATy.isFp : ATy → Bool
  | .int _ => false
  | _ => true

/-- 6.3.1.8: the common real type of two arithmetic operands -/
def usualArith (a b : ATy) : ATy :=
  match a, b with
  | .f80, _ | _, .f80 => .f80
  | .f64, _ | _, .f64 => .f64
  | .f32, _ | _, .f32 => .f32
  | .int t1, .int t2 => .int (IntSpec.usualArith t1 t2)

/-- 6.3.1.1 / 6.5.3.3: the promoted type (operand of unary `-`, `+`) -/
def promote : ATy → ATy
  | .int t => .int (IntSpec.promote t)
  | t => t

/-- a value of an arithmetic type: a mathematical integer, or the datum (bit pattern) of a floating type -/
inductive AVal where
  | int (v : Int)
  | f32 (b : BitVec 32)
  | f64 (b : BitVec 64)
  | f80 (b : BitVec 80)
  deriving DecidableEq, Repr, Inhabited

/-- floating → integer type `t` (6.3.1.4p1; `_Bool`: 6.3.1.2) -/
def fpToInt (t : ITy) (v : Val) : Option Int :=
  match t with
  | .bool => some (if v.isZero then 0 else 1)
  | t => match v.trunc? with
    | some i => if t.inRange i then some i else none
    | none => none

/-- conversion of `x` (of the type its constructor shows) to type `to`, under the x87 control word `cw`
    (rounding of a long double when it is narrowed); `none` = undefined behaviour -/
def convert (F : FpuSpec) (cw : BitVec 16) (to : ATy) (x : AVal) : Option AVal :=
  match x, to with
  | .int v, .int t => some (.int (IntSpec.convert t v))
  | .int v, .f32 => some (.f32 (F.ofInt32 v))
  | .int v, .f64 => some (.f64 (F.ofInt64 v))
  | .int v, .f80 => some (.f80 (F.ofInt80 v))
  | .f32 b, .int t => (fpToInt t (F.val32 b)).map .int
  | .f64 b, .int t => (fpToInt t (F.val64 b)).map .int
  | .f80 b, .int t => (fpToInt t (F.val80 b)).map .int
  | .f32 b, .f32 => some (.f32 b)
  | .f32 b, .f64 => some (.f64 (F.cvtss2sd b))
  | .f32 b, .f80 => some (.f80 (F.fld32 b))
  | .f64 b, .f32 => some (.f32 (F.cvtsd2ss b))
  | .f64 b, .f64 => some (.f64 b)
  | .f64 b, .f80 => some (.f80 (F.fld64 b))
  | .f80 b, .f32 => some (.f32 (F.fst32 cw b))
  | .f80 b, .f64 => some (.f64 (F.fst64 cw b))
  | .f80 b, .f80 => some (.f80 b)

/-- does the value have the type? (integers: in range) -/
def AVal.hasType : AVal → ATy → Prop
  | .int v, .int t => t.inRange v
  | .f32 _, .f32 => True
  | .f64 _, .f64 => True
  | .f80 _, .f80 => True
  | _, _ => False

/-! ### comparison and truth -/

inductive CmpOp where
  | eq | ne | lt | le | gt | ge
  deriving DecidableEq, Repr, Inhabited

def CmpOp.all : List CmpOp := [.eq, .ne, .lt, .le, .gt, .ge]

/-- C11 / IEC 60559: the value of `a OP b` given the relation of `a` to `b` -/
def CmpOp.holds : CmpOp → Rel → Bool
  | .eq, r => r == .eq
  | .ne, r => r != .eq
  | .lt, r => r == .lt
  | .le, r => r == .lt || r == .eq
  | .gt, r => r == .gt
  | .ge, r => r == .gt || r == .eq

/-- `e` is true (`e != 0`) given the relation of `e` to zero: NaN (unordered) is true -/
def truth (r : Rel) : Bool := r != .eq

end ChibiVerif.Spec.FpC11
