/-
Specification side of C08, written from the standards and not from parse.c:

(a) C11 6.7.2p2: the multisets of type specifiers that name a type ("the type specifiers may occur in any order"),
    each with the x86-64 psABI representation class it has (figure 3.1: `long` and `long long` are the same 8-byte
    class, plain `char` is signed), `_Complex` omitted (not in the supported language).
(b) psABI figure 3.1: size and alignment of the scalar types.
(c) psABI 3.1.2 "Aggregates and Unions" + "Bit-Fields", as an allocation rule over a running *bit* cursor:
      * a member that is not a bit-field goes to the least offset ≥ the current end that is a multiple of its alignment;
      * a bit-field of width w > 0 and declared type of size s goes to the next free bit, unless it would then not be
        contained in one naturally aligned s-byte storage unit — then it starts at the next unit boundary;
      * a zero-width bit-field moves the cursor up to the next unit boundary of its declared type;
      * the aggregate's alignment is the maximum alignment of its members, where *unnamed bit-fields do not count*;
      * its size is the end of the last member rounded up to a multiple of its alignment;
      * a union puts every member at offset 0; its size is the largest member extent rounded up to its alignment.
    GNU attributes as implemented by gcc 12 (the psABI does not define them):
      * `aligned(n)` on the aggregate: alignment is at least n (with `packed`: exactly the max of n and explicit member alignments);
        `aligned(0)` is ignored (with a warning); n must otherwise be a positive power of two ≤ 2^28;
      * a bit-field must have an integer type (`_Bool`, the char/short/int/long family, an enumerated type);
      * `packed`: members that are not bit-fields get alignment 1 unless they carry an explicit `_Alignas`; bit-fields of
        non-zero width are allocated at the next free bit with no containment rule; zero-width bit-fields still round up
        to the unit; only explicit member `_Alignas` contributes to the aggregate's alignment;
      * `_Alignas(n)` on a member (n = 0 has no effect; n ≥ natural alignment required by C11 6.7.5p4).

All arithmetic in `Nat`; `roundUp` is *defined* by case distinction on the remainder (not by chibicc's align_to formula)
and proved to be the least multiple ≥ n in Lemmas/LayoutLemmas.lean.

(d) which of the declarations over these constructs are constraint violations (`specAccepted`): an `aligned(n)` or
    `_Alignas(n)` other than 0 / a power of two ≤ 2^28, a bit-field whose declared type is not an integer type.

Core Lean only; executable (validated against gcc 12 through `drv_c08 speclayout`).
-/
import ChibiVerif.Model.Layout

namespace ChibiVerif.Spec.Layout
open ChibiVerif.Gen.Declspec (Kw TyName)

/-! ### (a) C11 6.7.2p2 -/

def c11Table : List (List Kw × TyName) := [
  ([.void], .void),
  ([.char], .char),
  ([.signed, .char], .char),
  ([.unsigned, .char], .uchar),
  ([.short], .short), ([.signed, .short], .short), ([.short, .int], .short), ([.signed, .short, .int], .short),
  ([.unsigned, .short], .ushort), ([.unsigned, .short, .int], .ushort),
  ([.int], .int), ([.signed], .int), ([.signed, .int], .int),
  ([.unsigned], .uint), ([.unsigned, .int], .uint),
  ([.long], .long), ([.signed, .long], .long), ([.long, .int], .long), ([.signed, .long, .int], .long),
  ([.unsigned, .long], .ulong), ([.unsigned, .long, .int], .ulong),
  ([.long, .long], .long), ([.signed, .long, .long], .long), ([.long, .long, .int], .long),
  ([.signed, .long, .long, .int], .long),
  ([.unsigned, .long, .long], .ulong), ([.unsigned, .long, .long, .int], .ulong),
  ([.float], .float),
  ([.double], .double),
  ([.long, .double], .ldouble),
  ([.bool], .bool)]

/-- the type named by a multiset of specifiers (given in any order), `none` if 6.7.2p2 does not list it -/
def c11Type (ks : List Kw) : Option TyName :=
  (c11Table.find? fun e => e.1.isPerm ks).map (·.2)

/-! ### (b) psABI figure 3.1 (sizeof, alignment) -/

def psabiScalar : TyName → Nat × Nat
  | .void => (1, 1)          -- GNU C: sizeof(void) = 1 (not psABI; listed because type.c has the literal)
  | .bool => (1, 1)
  | .char | .uchar => (1, 1)
  | .short | .ushort => (2, 2)
  | .int | .uint => (4, 4)
  | .long | .ulong => (8, 8)
  | .float => (4, 4)
  | .double => (8, 8)
  | .ldouble => (16, 16)

def psabiPointer : Nat × Nat := (8, 8)
def psabiEnum : Nat × Nat := (4, 4)

/-! ### (c) aggregates -/

/-- least multiple of `a` that is ≥ `n` (for `a > 0`) -/
def roundUp (n a : Nat) : Nat := if n % a = 0 then n else n + (a - n % a)

structure SMem where
  size : Nat                 -- sizeof the member's (declared) type
  tyAlign : Nat              -- its natural alignment
  alignas : Nat              -- explicit `_Alignas(n)`, 0 = none
  bitWidth : Option Nat
  named : Bool
  deriving DecidableEq, Repr

/-- alignment requirement of a member that is not a bit-field -/
def SMem.reqAlign (packed : Bool) (m : SMem) : Nat :=
  if m.alignas ≠ 0 then m.alignas else if packed then 1 else m.tyAlign

/-- what the member contributes to the aggregate's alignment -/
def SMem.contrib (packed : Bool) (m : SMem) : Nat :=
  match m.bitWidth with
  | some _ => if m.named && !packed then m.tyAlign else 1
  | none => m.reqAlign packed

structure SPlaced where
  firstBit : Nat             -- position of the member's first bit, counted from the start of the aggregate
  unitOffset : Nat           -- byte offset of the member (bit-field: of the storage unit of its declared type that contains it)
  bitInUnit : Nat            -- bit-field: position inside that unit (little-endian: bit 0 is least significant); else 0
  deriving DecidableEq, Repr

structure SLayout where
  size : Nat
  align : Nat
  placed : List SPlaced
  deriving DecidableEq, Repr

/-- where the member starts (in bits) and where the cursor is afterwards -/
def allocate (packed : Bool) (cur : Nat) (m : SMem) : Nat × Nat :=
  match m.bitWidth with
  | none =>
    let start := roundUp cur (8 * m.reqAlign packed)
    (start, start + 8 * m.size)
  | some w =>
    let unit := 8 * m.size
    if w = 0 then (roundUp cur unit, roundUp cur unit)
    else if packed then (cur, cur + w)
    else if cur % unit + w ≤ unit then (cur, cur + w)        -- fits into the unit that contains the next free bit
    else (roundUp cur unit, roundUp cur unit + w)

def placedAt (m : SMem) (start : Nat) : SPlaced :=
  match m.bitWidth with
  | none => { firstBit := start, unitOffset := start / 8, bitInUnit := 0 }
  | some w =>
    if w = 0 then { firstBit := start, unitOffset := 0, bitInUnit := 0 }   -- occupies nothing; position not observable
    else { firstBit := start, unitOffset := start / (8 * m.size) * m.size, bitInUnit := start % (8 * m.size) }

/-- members in declaration order: end cursor and placements -/
def allocateAll (packed : Bool) : Nat → List SMem → Nat × List SPlaced
  | cur, [] => (cur, [])
  | cur, m :: ms =>
    let (start, next) := allocate packed cur m
    let (e, ps) := allocateAll packed next ms
    (e, placedAt m start :: ps)

/-- max over the contributing members, at least `a0` -/
def aggAlign (packed : Bool) (a0 : Nat) (ms : List SMem) : Nat :=
  ms.foldl (fun a m => max a (m.contrib packed)) a0

def specStruct (packed : Bool) (aligned : Option Nat) (ms : List SMem) : SLayout :=
  let al := aggAlign packed (aligned.getD 1) ms
  let (e, ps) := allocateAll packed 0 ms
  { size := roundUp e (8 * al) / 8, align := al, placed := ps }

/-- bytes a union member occupies -/
def SMem.extent (m : SMem) : Nat :=
  match m.bitWidth with
  | some w => (w + 7) / 8
  | none => m.size

def specUnion (packed : Bool) (aligned : Option Nat) (ms : List SMem) : SLayout :=
  let al := aggAlign packed (aligned.getD 1) ms
  let e := ms.foldl (fun s m => max s m.extent) 0
  { size := roundUp e al, align := al,
    placed := ms.map fun _ => { firstBit := 0, unitOffset := 0, bitInUnit := 0 } }

/-! ### types -/

open ChibiVerif.Layout (Ty Members MemDecl Aligns)

/-- `__attribute__((aligned(n)))` on an aggregate as gcc 12 implements it: `aligned(0)` requests nothing (gcc warns
    "requested alignment '0' is not a positive power of 2" and ignores the attribute); other values (positive powers of two
    up to 2^28 — everything else is an error in gcc) request alignment at least n -/
def specAligned : Option Int → Option Nat
  | none => none
  | some n => if n = 0 then none else some n.toNat

mutual
  def specSizeAlign : Ty → Nat × Nat
    | .prim t => psabiScalar t
    | .enum => psabiEnum
    | .ptr => psabiPointer
    | .arr e n => let (s, a) := specSizeAlign e; (s * n.toNat, a)
    | .flex e => let (_, a) := specSizeAlign e; (0, a)
    | .struct p al ms => let l := specStruct p (specAligned al) (specMembers ms); (l.size, l.align)
    | .union p al ms => let l := specUnion p (specAligned al) (specMembers ms); (l.size, l.align)
  /-- C11 6.7.5p6: `_Alignas(type-name)` is `_Alignas(_Alignof(type-name))`, `_Alignas(0)` has no effect, and of several
      specifiers the strictest one takes effect: the maximum (0 = no specifier) -/
  def specAligns : Aligns → Nat
    | .nil => 0
    | .const n rest => max n.toNat (specAligns rest)
    | .type t rest => max (specSizeAlign t).2 (specAligns rest)
  def specMembers : Members → List SMem
    | .nil => []
    | .cons d as ty rest =>
      let (s, a) := specSizeAlign ty
      { size := s, tyAlign := a, alignas := specAligns as, bitWidth := d.bitWidth.map Int.toNat, named := d.named }
        :: specMembers rest
end

/-- alignment of an object declared with specifiers `as` and type `ty` (C11 6.7.5p6, 6.2.8) -/
def specVarAlign (as : Aligns) (ty : Ty) : Nat :=
  if specAligns as ≠ 0 then specAligns as else (specSizeAlign ty).2

/-- size, alignment and member placements of a whole type -/
def specTy : Ty → SLayout
  | .struct p al ms => specStruct p (specAligned al) (specMembers ms)
  | .union p al ms => specUnion p (specAligned al) (specMembers ms)
  | t => { size := (specSizeAlign t).1, align := (specSizeAlign t).2, placed := [] }

/-! ### which declarations are accepted (gcc 12's constraints on the constructs of this property) -/

/-- a requested alignment must be a positive power of two no larger than 2^28 (gcc: "requested alignment 'n' is not a
    positive power of 2" / "exceeds maximum 268435456") -/
def isPow2le28 (n : Int) : Bool := (List.range 29).any fun k => n == (2 : Int) ^ k

/-- `aligned(n)` requests gcc accepts: none, 0 (warning only, no effect), 2^0 … 2^28 -/
def alignedOk : Option Int → Bool
  | none => true
  | some n => n == 0 || isPow2le28 n

/-- declared types a bit-field may have (C11 6.7.2.1p5 + what gcc accepts: every integer type and enumerated types;
    "bit-field 'x' has invalid type" otherwise) -/
def isBitfieldBase : Ty → Bool
  | .prim t => t == .bool || t == .char || t == .uchar || t == .short || t == .ushort || t == .int || t == .uint ||
               t == .long || t == .ulong
  | .enum => true
  | _ => false

mutual
  /-- the declaration violates neither constraint, at any depth (operands of `_Alignas(type-name)` included) -/
  def specAccepted : Ty → Bool
    | .prim _ => true
    | .enum => true
    | .ptr => true
    | .arr e _ => specAccepted e
    | .flex e => specAccepted e
    | .struct _ al ms => alignedOk al && specAcceptedMs ms
    | .union _ al ms => alignedOk al && specAcceptedMs ms
  def specAcceptedAs : Aligns → Bool
    | .nil => true
    | .const n rest => (n == 0 || isPow2le28 n) && specAcceptedAs rest     -- C11 6.7.5p3: a valid alignment or zero
    | .type t rest => specAccepted t && specAcceptedAs rest
  def specAcceptedMs : Members → Bool
    | .nil => true
    | .cons d as ty rest =>
      specAcceptedAs as && specAccepted ty && (d.bitWidth.isNone || isBitfieldBase ty) && specAcceptedMs rest
end

end ChibiVerif.Spec.Layout
