/- C11 arithmetic constant expressions (6.6p8) on x86-64 with FLT_EVAL_METHOD 0: integer and floating operands mixed, every
   operation carried out in the format of its C11 type.  The floating half of property C07's right-hand side ("the value the
   same expression yields when compiled code evaluates it at run time"): each floating operation is ONE application of the
   instruction the generated code executes for it (`addss` for `float + float`, `cvtsd2ss` for `(float)double`, `fst32` for
   `(float)long double`, …) — what Props/C02.lean proves about chibicc's code generator relative to the same operations.

   Written from the standard:
     6.3.1.4   floating → integer discards the fraction, undefined (`none`) if the integral part is not representable;
               integer → floating: the nearest representable value
     6.3.1.2   conversion to _Bool: 0 iff the value compares equal to 0 (a NaN does not)
     6.3.1.5   floating → floating: exact when widening, rounded when narrowing
     6.3.1.8   usual arithmetic conversions: long double > double > float > the integer rules
     6.4.4.2   a floating constant has the value of its spelling rounded once to its type (here: `fval`, the long double the
               tokenizer holds — exactly the float / double value for unsuffixed and `f` constants —, converted to the type)
     6.5.3.3   unary `-` (IEC 60559 negate: the sign bit), `!e` is `e == 0`
     6.5.8/9   comparisons are the IEC 60559 comparisons: false with a NaN operand except `!=`
     6.5.13-15 `&&`, `||`, `?:` test `e != 0`
   The integer half is Spec/ConstSpec.lean (its `binop`, `unop`, `ITy.convert`, `ITy.common` are used here unchanged).
   `%`, `& | ^ ~ << >>` with a floating operand violate a constraint: `none`.  Core Lean only. -/
import ChibiVerif.Spec.ConstSpec
import ChibiVerif.Spec.FpOps

namespace ChibiVerif.Spec.ConstF
open ChibiVerif.Spec.Const ChibiVerif.Spec.Fpu

inductive FTy where
  | f32 | f64 | f80
  deriving DecidableEq, Repr

/-- arithmetic types -/
inductive ATy where
  | int (t : ITy)
  | flt (t : FTy)
  deriving DecidableEq, Repr

/-- a value of an arithmetic type: a mathematical integer or the datum of a floating type -/
inductive AVal where
  | int (v : Int)
  | f32 (b : BitVec 32)
  | f64 (b : BitVec 64)
  | f80 (b : BitVec 80)
  deriving DecidableEq, Repr

/-- 6.3.1.8 -/
def usual (a b : ATy) : ATy :=
  match a, b with
  | .flt .f80, _ | _, .flt .f80 => .flt .f80
  | .flt .f64, _ | _, .flt .f64 => .flt .f64
  | .flt .f32, _ | _, .flt .f32 => .flt .f32
  | .int t1, .int t2 => .int (ITy.common t1 t2)

/-- 6.3.1.1: the promoted type -/
def promote : ATy → ATy
  | .int t => .int t.promote
  | t => t

inductive AExpr where
  | ilit (t : ITy) (v : Int)
  /-- floating constant of type `t`; `fval` is the `long double` the tokenizer holds for its spelling -/
  | flit (t : FTy) (fval : BitVec 80)
  | un (op : UnOp) (e : AExpr)
  | bin (op : BinOp) (a b : AExpr)
  | land (a b : AExpr)
  | lor (a b : AExpr)
  | cond (c a b : AExpr)
  | cast (t : ATy) (e : AExpr)
  deriving Repr

/-- the C11 type of an expression (for an expression that violates a constraint: the type `add_type` gives it) -/
def typeOf : AExpr → ATy
  | .ilit t _ => .int t
  | .flit t _ => .flt t
  | .un .lognot _ => .int .i32
  | .un _ e => promote (typeOf e)
  | .bin op a b =>
    match op with
    | .shl | .shr => promote (typeOf a)
    | .eq | .ne | .lt | .le | .gt | .ge => .int .i32
    | _ => usual (typeOf a) (typeOf b)
  | .land _ _ => .int .i32
  | .lor _ _ => .int .i32
  | .cond _ a b => usual (typeOf a) (typeOf b)
  | .cast t _ => t

/-- what a floating value denotes -/
def AVal.val (O : FpOps) : AVal → Val
  | .int v => .fin (decide (v < 0)) v.natAbs 0
  | .f32 b => O.val32 b
  | .f64 b => O.val64 b
  | .f80 b => O.val80 b

/-- floating → integer type `t` (6.3.1.4p1; `_Bool`: 6.3.1.2) -/
def fpToInt (t : ITy) (v : Val) : Option Int :=
  match t with
  | .bool => some (if v.isZero then 0 else 1)
  | t => match v.trunc? with
    | some i => if t.inRange i then some i else none
    | none => none

/-- conversion of `x` to type `to`; `none` = undefined behaviour -/
def convert (O : FpOps) (to : ATy) (x : AVal) : Option AVal :=
  match x, to with
  | .int v, .int t => some (.int (t.convert v))
  | .int v, .flt .f32 => some (.f32 (O.ofInt32 v))
  | .int v, .flt .f64 => some (.f64 (O.ofInt64 v))
  | .int v, .flt .f80 => some (.f80 (O.ofInt80 v))
  | .f32 b, .int t => (fpToInt t (O.val32 b)).map .int
  | .f64 b, .int t => (fpToInt t (O.val64 b)).map .int
  | .f80 b, .int t => (fpToInt t (O.val80 b)).map .int
  | .f32 b, .flt .f32 => some (.f32 b)
  | .f32 b, .flt .f64 => some (.f64 (O.cvtss2sd b))
  | .f32 b, .flt .f80 => some (.f80 (O.fld32 b))
  | .f64 b, .flt .f32 => some (.f32 (O.cvtsd2ss b))
  | .f64 b, .flt .f64 => some (.f64 b)
  | .f64 b, .flt .f80 => some (.f80 (O.fld64 b))
  | .f80 b, .flt .f32 => some (.f32 (O.fst32 b))
  | .f80 b, .flt .f64 => some (.f64 (O.fst64 b))
  | .f80 b, .flt .f80 => some (.f80 b)

/-- `x != 0`: an integer is compared with 0, a floating value with +0 (a NaN is unordered, hence true; −0 is false) -/
def truth (O : FpOps) : AVal → Bool
  | .int v => v != 0
  | x => Val.cmp (x.val O) (.fin false 0 0) != .eq

inductive FOp where | add | sub | mul | div
  deriving DecidableEq, Repr

/-- arithmetic on two values of the floating type shown by their constructor -/
def farith (O : FpOps) (op : FOp) : AVal → AVal → Option AVal
  | .f32 a, .f32 b => some (.f32 (match op with | .add => O.addss a b | .sub => O.subss a b | .mul => O.mulss a b | .div => O.divss a b))
  | .f64 a, .f64 b => some (.f64 (match op with | .add => O.addsd a b | .sub => O.subsd a b | .mul => O.mulsd a b | .div => O.divsd a b))
  | .f80 a, .f80 b => some (.f80 (match op with | .add => O.fadd a b | .sub => O.fsub a b | .mul => O.fmul a b | .div => O.fdiv a b))
  | _, _ => none

/-- the value of `a OP b` given the relation of `a` to `b` (a comparison with a NaN operand is false, except `!=`) -/
def cmpHolds : BinOp → Rel → Option Bool
  | .eq, r => some (r == .eq)
  | .ne, r => some (r != .eq)
  | .lt, r => some (r == .lt)
  | .le, r => some (r == .lt || r == .eq)
  | .gt, r => some (r == .gt)
  | .ge, r => some (r == .gt || r == .eq)
  | _, _ => none

def fop? : BinOp → Option FOp
  | .add => some .add | .sub => some .sub | .mul => some .mul | .div => some .div | _ => none

/-- unary minus: the sign bit is complemented (also of zeros, infinities and NaNs) -/
def fneg : AVal → Option AVal
  | .f32 b => some (.f32 (b ^^^ (1#32 <<< 31)))
  | .f64 b => some (.f64 (b ^^^ (1#64 <<< 63)))
  | .f80 b => some (.f80 (b ^^^ (1#80 <<< 79)))
  | .int _ => none

def intOf : AVal → Option Int
  | .int v => some v
  | _ => none

/-- the C11 value; `none` = no value (undefined behaviour / constraint violation) -/
def eval (O : FpOps) : AExpr → Option AVal
  | .ilit t v => if t.inRange v then some (.int v) else none
  | .flit t fval => convert O (.flt t) (.f80 fval)
  | .un op e =>
    match eval O e with
    | none => none
    | some x =>
      match typeOf e, x with
      | .int t, .int v => (unop op t.promote v).map .int
      | .flt _, x =>
        match op with
        | .neg => fneg x
        | .plus => some x
        | .lognot => some (.int (b2z (!(truth O x))))
        | .bitnot => none
      | _, _ => none
  | .bin op a b =>
    match eval O a, eval O b with
    | some x, some y =>
      if op.isShift then
        match typeOf a, x, y with
        | .int ta, .int vx, .int vy => (binop op ta.promote vx vy).map .int
        | _, _, _ => none
      else
        let t := usual (typeOf a) (typeOf b)
        match convert O t x, convert O t y with
        | some xc, some yc =>
          match t, xc, yc with
          | .int ti, .int vx, .int vy => (binop op ti vx vy).map .int
          | .flt _, xc, yc =>
            match fop? op with
            | some f => farith O f xc yc
            | none => (cmpHolds op (Val.cmp (xc.val O) (yc.val O))).map (fun r => .int (b2z r))
          | _, _, _ => none
        | _, _ => none
    | _, _ => none
  | .land a b =>
    match eval O a with
    | none => none
    | some x => if !(truth O x) then some (.int 0) else
      match eval O b with
      | none => none
      | some y => some (.int (b2z (truth O y)))
  | .lor a b =>
    match eval O a with
    | none => none
    | some x => if truth O x then some (.int 1) else
      match eval O b with
      | none => none
      | some y => some (.int (b2z (truth O y)))
  | .cond c a b =>
    match eval O c with
    | none => none
    | some x =>
      let t := usual (typeOf a) (typeOf b)
      if truth O x then (eval O a).bind (convert O t) else (eval O b).bind (convert O t)
  | .cast t e => (eval O e).bind (convert O t)

/-- an integer constant expression of Spec/ConstSpec.lean as an arithmetic constant expression -/
def ofC : CExpr → AExpr
  | .lit t v => .ilit t v
  | .un op e => .un op (ofC e)
  | .bin op a b => .bin op (ofC a) (ofC b)
  | .land a b => .land (ofC a) (ofC b)
  | .lor a b => .lor (ofC a) (ofC b)
  | .cond c a b => .cond (ofC c) (ofC a) (ofC b)
  | .cast t e => .cast (.int t) (ofC e)

end ChibiVerif.Spec.ConstF
