/-
Specification side of the pp-number theorem of C11 (`C11_ppnumber_maximal`): the grammar of ISO/IEC 9899:2011 6.4.8

    pp-number:  digit  |  . digit  |  pp-number digit  |  pp-number identifier-nondigit
             |  pp-number e sign  |  pp-number E sign  |  pp-number p sign  |  pp-number P sign  |  pp-number .

over bytes, written exactly in this (left-recursive) form.  `identifier-nondigit` (6.4.2.1: nondigit, universal character
names, other implementation-defined characters) is a parameter: chibicc's scan continues a pp-number only with the 52 Latin
letters (`isLetter`); `_`, `$` and bytes >= 0x80 end it.  That latitude is stated by instantiating the parameter, and
Findings/C11.lean has the kernel-checked witness (`1_0`) that with the full C11 class the scan is not maximal.
Independent of the code; core Lean only.
-/
namespace ChibiVerif.Spec.PpNumber

/-- 6.4.2.1 digit: `0` … `9` -/
def isDigit (b : BitVec 8) : Bool := 48 ≤ b.toNat && b.toNat ≤ 57

/-- the 52 Latin letters of 6.4.2.1 nondigit (the class without `_`) -/
def isLetter (b : BitVec 8) : Bool := (97 ≤ b.toNat && b.toNat ≤ 122) || (65 ≤ b.toNat && b.toNat ≤ 90)

/-- 6.4.2.1 nondigit: `_`, `a` … `z`, `A` … `Z` -/
def isNondigitC11 (b : BitVec 8) : Bool := isLetter b || b == 95#8

/-- the letters of `e sign`, `E sign`, `p sign`, `P sign` -/
def isExp (b : BitVec 8) : Bool := b == 101#8 || b == 69#8 || b == 112#8 || b == 80#8

/-- 6.4.4.2 sign: `+` `-` -/
def isSign (b : BitVec 8) : Bool := b == 43#8 || b == 45#8

def dot : BitVec 8 := 46#8

/-- 6.4.8 pp-number, production by production; `nd` is the class of identifier-nondigit -/
inductive PPNumber (nd : BitVec 8 → Bool) : List (BitVec 8) → Prop
  | digit (d : BitVec 8) : isDigit d = true → PPNumber nd [d]
  | dotDigit (d : BitVec 8) : isDigit d = true → PPNumber nd [dot, d]
  | appDigit (s : List (BitVec 8)) (d : BitVec 8) : PPNumber nd s → isDigit d = true → PPNumber nd (s ++ [d])
  | appNondigit (s : List (BitVec 8)) (c : BitVec 8) : PPNumber nd s → nd c = true → PPNumber nd (s ++ [c])
  | appExp (s : List (BitVec 8)) (c g : BitVec 8) : PPNumber nd s → isExp c = true → isSign g = true → PPNumber nd (s ++ [c, g])
  | appDot (s : List (BitVec 8)) : PPNumber nd s → PPNumber nd (s ++ [dot])

end ChibiVerif.Spec.PpNumber
