/-
C11 6.7.9 "Initialization" as an executable specification (property C05), written after the text of the standard and
independently of the structure of parse.c.  It shares only the *data* with the model (`Ty`, `ITok`, and `Init` as the
representation of an object value: a leaf holds the expression that initialises it or nothing = zero, p10/p21).

The standard's vocabulary:
* **current object** (p17): the object associated with the closest enclosing brace pair.  `initList ty …` processes the
  initializer list of one brace pair; `ty` is the type of its current object and every path below is relative to it.
* **cursor**: a path (list of member/element indices) to "the next subobject of the current object in order" (p17).
  `next` computes the successor: the following element/named member of the innermost enclosing aggregate; when that aggregate
  is exhausted, the successor of the aggregate itself in *its* parent (this is the resumption p20 describes: "any remaining
  initializers are left to initialize the next element or member of the aggregate of which the current subaggregate … is a
  part"); a union holds one member, so its successor is the successor of the union (footnote 149 to p17).
  Unnamed bit-fields are not members for this purpose (p9).
* **designation** (p17, p18): sets the cursor to the designated subobject of the current object.
  `[a ... b]` (GNU range, named by the property) designates every element `a..b` with the same initializer; initialization
  continues after element `b`.
* an initializer **without braces** for an aggregate or union subobject (p20, brace elision) "only takes enough initializers to
  account for the elements or members of the subaggregate": the cursor *descends* to the first scalar (or to a character
  array if the initializer is a string literal p14/p15, or to a struct if the expression has struct type p13).
* an initializer **with braces** initialises the whole subobject at the cursor: everything it does not mention is zero (p19, p21),
  and it overrides whatever an earlier initializer stored in that subobject (p19).  The same holds for a string literal (p14),
  which may itself be enclosed in braces (p14, p15: "optionally enclosed in braces"): `bracedLit`.
* **union**: the first named member unless designated (p10, p17 fn.); changing the initialised member discards the old one.
* **unknown bound**: the size is the largest indexed element + 1 (p22); the object of a flexible array member (GNU) likewise.
* excess initializers (a constraint violation, p2) are consumed and ignored, as gcc and chibicc both do.
-/
import ChibiVerif.Model.Init

namespace ChibiVerif.InitSpec
open ChibiVerif.Init

/-- unnamed bit-field: does not take part in initialization (p9) -/
def unnamedBf (mi : MemInfo) : Bool := mi.bf.isSome && mi.name.isNone

def childTy (ty : Ty) (k : Nat) : Option Ty :=
  match ty with
  | .array e _ => some e
  | .inc e => some e
  | .struct ms _ _ => (ms[k]?).map (·.2)
  | .union ms _ _ => (ms[k]?).map (·.2)
  | _ => none

/-- type of the subobject at `path` (outermost index first) -/
def subTy : Ty → List Nat → Option Ty
  | t, [] => some t
  | t, k :: p => match childTy t k with
    | some c => subTy c p
    | none => none

/-- may the array at `path` of the current object grow?  (object of unknown bound; flexible array member of the
    outermost object) -/
def growable (root : Ty) (top : Bool) (path : List Nat) : Bool :=
  match root, path with
  | .inc _, [] => true
  | .struct ms _ true, [k] => top && k + 1 = ms.length
  | .union ms _ true, [k] => top && k + 1 = ms.length
  | _, _ => false

/-- index of the first member at or after `j` that takes part in initialization -/
def nextNamed (ms : Members) : Nat → Nat → Option Nat
  | 0, _ => none
  | n+1, j => match ms[j]? with
    | some (mi, _) => if unnamedBf mi then nextNamed ms n (j+1) else some j
    | none => none

/-- first subobject of an aggregate/union of type `t` located at `path` -/
def firstSub (root : Ty) (top : Bool) (path : List Nat) (t : Ty) : Option Nat :=
  match t with
  | .array _ len => if len > 0 || growable root top path then some 0 else none
  | .inc _ => some 0
  | .struct ms _ _ => nextNamed ms ms.length 0
  | .union ms _ _ => nextNamed ms ms.length 0
  | .scalar .. => none

/-- "the next subobject of the current object in order" after the subobject at `rp` (path reversed: innermost first) -/
def next (root : Ty) (top : Bool) : List Nat → Option (List Nat)
  | [] => none
  | i :: pr =>
    let parent := pr.reverse
    match subTy root parent with
    | some (.array _ len) =>
      if i + 1 < len || growable root top parent then some (parent ++ [i+1]) else next root top pr
    | some (.inc _) => some (parent ++ [i+1])
    | some (.struct ms _ _) =>
      match nextNamed ms ms.length (i+1) with
      | some j => some (parent ++ [j])
      | none => next root top pr
    | some (.union _ _ _) => next root top pr
    | _ => none

/-- the value "zero" of a subobject (p10): no explicit initializer anywhere -/
def zeroOf (t : Ty) : Init := newInit t false

/-- replace the subobject at `path` by `f old`; on the way mark every union member passed through as the initialised one
    (a different member than before starts from zero), and let growable arrays grow -/
def modifyAt (root : Ty) (top : Bool) (f : Ty → Init → Except Fail Init) :
    Ty → List Nat → List Nat → Init → Except Fail Init
  | t, _, [], obj => f t obj
  | t, done, k :: p, obj =>
    match t with
    | .array e len =>
      let cs := match obj with | .arr cs => cs | _ => []
      let cs := if k < cs.length then cs else
        if growable root top done then cs ++ List.replicate (k + 1 - cs.length) (zeroOf e) else cs
      if k < cs.length ∧ (k < len ∨ growable root top done) then do
        let c ← modifyAt root top f e (done ++ [k]) p (cs.getD k (zeroOf e))
        pure (.arr (cs.set k c))
      else .error (.diag "array index out of bounds")
    | .inc e =>
      let cs := match obj with | .arr cs => cs | _ => []
      let cs := if k < cs.length then cs else cs ++ List.replicate (k + 1 - cs.length) (zeroOf e)
      do
        let c ← modifyAt root top f e (done ++ [k]) p (cs.getD k (zeroOf e))
        pure (.arr (cs.set k c))
    | .struct ms _ _ =>
      match ms[k]?, obj with
      | some (_, mt), .struct _ cs => do
        let c ← modifyAt root top f mt (done ++ [k]) p (cs.getD k (zeroOf mt))
        pure (.struct none (cs.set k c))
      | _, _ => .error (.crash "spec: path does not match the type")
    | .union ms _ _ =>
      match ms[k]?, obj with
      | some (_, mt), .union _ m cs => do
        let old := if m = some k then cs.getD k (zeroOf mt) else zeroOf mt
        let c ← modifyAt root top f mt (done ++ [k]) p old
        pure (.union none (some k) (cs.set k c))
      | _, _ => .error (.crash "spec: path does not match the type")
    | .scalar .. => .error (.crash "spec: path through a scalar")

/-- the value at `path`, if materialised -/
def getAt : Init → List Nat → Option Init
  | obj, [] => some obj
  | obj, k :: p => match obj.children[k]? with
    | some c => getAt c p
    | none => none

mutual
  /-- path (through anonymous struct/union members) to the member called `n` -/
  def findMember : Ty → String → Option (List Nat)
    | .struct ms _ _, n => findMemberMs ms n 0
    | .union ms _ _, n => findMemberMs ms n 0
    | _, _ => none
  def findMemberMs : Members → String → Nat → Option (List Nat)
    | [], _, _ => none
    | (mi, t) :: r, n, i =>
      if t.isAgg && mi.name.isNone then
        match findMember t n with
        | some p => some (i :: p)
        | none => findMemberMs r n (i+1)
      else if mi.name = some n then some [i] else findMemberMs r n (i+1)
end

/-- type of the subobjects designated so far (they all have the same type) -/
def headTy (root : Ty) : List (List Nat) → Option Ty
  | p :: _ => subTy root p
  | [] => none

/-- may the designated arrays grow? -/
def growableAt (root : Ty) (top : Bool) : List (List Nat) → Bool
  | p :: _ => growable root top p
  | [] => false

/-- p6/p7 + the GNU range: the designator list, as the set of designated paths (in order) -/
def desigPaths (root : Ty) (top : Bool) : Nat → List (List Nat) → List ITok → Except Fail (List (List Nat) × List ITok)
  | 0, _, _ => .error .fuel
  | f+1, ps, toks =>
    match toks with
    | .dot n :: r =>
      match headTy root ps with
      | some t => match findMember t n with
        | some mp => if t.isAgg then desigPaths root top f (ps.map (· ++ mp)) r
                     else .error (.diag "field name not in struct or union initializer")
        | none => if t.isAgg then .error (.diag "struct has no such member")
                  else .error (.diag "field name not in struct or union initializer")
      | none => .error (.crash "spec: bad path")
    | .idx a :: r =>
      match headTy root ps with
      | some (.array _ len) =>
        if a < 0 ∨ (¬ growableAt root top ps ∧ a ≥ len) then .error (.diag "array designator index exceeds array bounds")
        else desigPaths root top f (ps.map (· ++ [a.toNat])) r
      | some (.inc _) =>
        if a < 0 then .error (.diag "array designator index exceeds array bounds")
        else desigPaths root top f (ps.map (· ++ [a.toNat])) r
      | _ => .error (.diag "array index in non-array initializer")
    | .range a b :: r =>
      match headTy root ps with
      | some (.array _ len) =>
        if a < 0 ∨ b < a ∨ (¬ growableAt root top ps ∧ b ≥ len) then .error (.diag "array designator index exceeds array bounds")
        else desigPaths root top f
          (ps.flatMap (fun p => (List.range' a.toNat (b.toNat + 1 - a.toNat)).map (fun k => p ++ [k]))) r
      | some (.inc _) =>
        if a < 0 ∨ b < a then .error (.diag "array designator index exceeds array bounds")
        else desigPaths root top f
          (ps.flatMap (fun p => (List.range' a.toNat (b.toNat + 1 - a.toNat)).map (fun k => p ++ [k]))) r
      | _ => .error (.diag "array index in non-array initializer")
    | .eq :: r => .ok (ps, r)
    | _ => .ok (ps, toks)

/-- may a string literal with elements of `esz` bytes initialise an array of `elem`? (p14, p15) -/
def strFits (elem : Ty) (esz : Nat) : Bool := elem.isInteger && elem.size == (esz : Int)

/-- does an initializer `tok` without braces initialise a subobject of type `t` as a whole?  a scalar always (p11); a character
    array by a string literal (p14, p15); a struct/union by an expression of that type (p13) -/
def stopsAt (t : Ty) (tok : ITok) : Bool :=
  match t, tok with
  | .scalar .., _ => true
  | .array e _, .str _ _ esz => strFits e esz
  | .inc e, .str _ _ esz => strFits e esz
  | .struct .., .expr e => e.isStruct
  | .union .., .expr e => e.isUnion
  | _, _ => false

/-- p20: where an initializer without braces lands when the cursor is at `path` -/
def descend (root : Ty) (top : Bool) (tok : ITok) : Nat → List Nat → Except Fail (List Nat)
  | 0, _ => .error .fuel
  | f+1, path =>
    match subTy root path with
    | none => .error (.crash "spec: bad path")
    | some t =>
      if stopsAt t tok then .ok path
      else match firstSub root top path t with
        | some k => descend root top tok f (path ++ [k])
        | none => .error (.diag "empty aggregate cannot take an initializer")

/-- element `i` of a string literal as the initializer of one array element -/
def strLeaf (bytes : List Nat) (esz i : Nat) : Except Fail Init :=
  match strElem bytes esz i with
  | some v => .ok (.leaf (some (strNum esz v)))
  | none => .error (.crash "spec: string element")

/-- p14: successive characters initialise the elements (the terminator only if there is room or the size is unknown);
    p21: the remainder of the array is zero -/
def stringValue (elem : Ty) (len? : Option Nat) (bytes : List Nat) (esz : Nat) : Except Fail Init := do
  let n := bytes.length / esz
  let len := match len? with | some l => l | none => n
  let k := min len n
  let vals ← (List.range' 0 k).mapM (strLeaf bytes esz)
  pure (.arr (vals ++ List.replicate (len - k) (zeroOf elem)))

/-- regions in which the run of the specification lies (each is monotone: once set it stays set) -/
structure Flags where
  over : Bool     -- a whole-subobject initializer (braces or string literal) replaced an already initialised subobject,
                  -- or an initializer switched a union to another member after one had been initialised
                  -- (region of known finding C05-brace-override-keeps-old)
  xover : Bool    -- an initializer for a subobject that lies inside a struct/union which an earlier initializer of the same
                  -- list initialised with an expression of struct/union type (6.7.9p13 followed by p19)
  wide : Bool     -- a GNU range designator `[a ... b]` with a < b whose initializer does not initialise each designated element
                  -- as a whole: a further designator follows the range, or brace elision descends into the element (no C11
                  -- semantics; chibicc parses the initializer once per designated element, so a continuation lands in every
                  -- element, the specification - gcc - stores one initializer in every element and continues after the last)
  reinit : Bool   -- the flexible array member of the declared object (GNU: static initialization of a flexible array member,
                  -- no C11 semantics) is initialised AGAIN after an earlier initializer of the same list initialised it: through a
                  -- designator that names it, or because the cursor comes back to it from the member before it.  gcc (the
                  -- specification) lets the array grow with every initializer; chibicc fixes its length at the first one
                  -- (count_array_init_elements on first contact) and drops what lies beyond.
  deriving DecidableEq, Repr, Inhabited

def Flags.none : Flags := ⟨false, false, false, false⟩
def Flags.join (a b : Flags) : Flags := ⟨a.over || b.over, a.xover || b.xover, a.wide || b.wide, a.reinit || b.reinit⟩
def Flags.clean (a : Flags) : Bool := !a.over && !a.xover && !a.wide && !a.reinit

structure Result where
  obj : Init
  rest : List ITok
  fl : Flags
  deriving Inhabited

def Result.over (r : Result) : Bool := r.fl.over

/-- is the subobject at `path` (or a union it lies in, through another member) already initialised? -/
def touched (obj : Init) : List Nat → Bool
  | [] => hasExpr obj
  | k :: p =>
    match obj with
    | .union _ (some m) cs => if m = k then (match cs[k]? with | some c => touched c p | none => false) else true
    | _ => match obj.children[k]? with
      | some c => touched c p
      | none => false

/-- does initialising the subobject at `path` change the initialised member of a union that already has one? -/
def switchesUnion : Init → List Nat → Bool
  | _, [] => false
  | obj, k :: p =>
    match obj with
    | .union _ (some m) cs => if m = k then (match cs[k]? with | some c => switchesUnion c p | none => false) else true
    | _ => match obj.children[k]? with
      | some c => switchesUnion c p
      | none => false

/-- the node carries an expression of struct/union type (p13) -/
def hasAggExpr : Init → Bool
  | .struct (some _) _ => true
  | .union (some _) _ _ => true
  | _ => false

/-- does a proper ancestor of the subobject at `path` carry an expression of struct/union type? -/
def exprAbove : Init → List Nat → Bool
  | _, [] => false
  | obj, k :: p =>
    hasAggExpr obj ||
    (match obj.children[k]? with
      | some c => exprAbove c p
      | none => false)

/-- the cursor at the start of a brace-enclosed list: the first subobject; a scalar in braces is its own first subobject -/
def firstCursor : Ty → Option (List Nat)
  | .scalar .. => some []
  | .array _ len => if len > 0 then some [0] else none
  | .inc _ => some [0]
  | .struct ms _ _ => (nextNamed ms ms.length 0).map ([·])
  | .union ms _ _ => (nextNamed ms ms.length 0).map ([·])

/-- the value a brace-enclosed list starts from: zero (p19, p21).  For a union "the first named member is initialized" (p10)
    if the list stays empty - the same all-zero value; the member a union holds is recorded by the first initializer that
    reaches it (`modifyAt`), so that a *later* initializer for another member is recognised as a switch -/
def braceStart (t : Ty) : Init := zeroOf t

/-- the expression a token stands for when it is used as a scalar initializer -/
def tokExpr : ITok → Option Expr
  | .expr e => some e
  | .str id _ _ => some { ival := 0, nz := true, f32 := 0, f64 := 0, f80 := 0, label := some (strLabel id) }
  | _ => none

/-- p11/p13/p14: store the initializer `tok` into the subobject of type `t` at (already descended) `path` -/
def storeTok (root : Ty) (top : Bool) (tok : ITok) (path : List Nat) (t : Ty) (old : Init) : Except Fail Init :=
  match t, tok with
  | .array el len, .str _ bytes esz => stringValue el (if growable root top path then none else some len) bytes esz
  | .inc el, .str _ bytes esz => stringValue el none bytes esz
  | .scalar .., _ => match tokExpr tok with
    | some e => pure (.leaf (some e))
    | none => .error (.diag "expected an expression")
  | .struct .., .expr e => pure (old.setExpr (some e))
  | .union .., .expr e => pure (old.setExpr (some e))
  | _, _ => .error (.diag "invalid initializer")

/-- an array of unknown bound that never received an initializer has no elements -/
def unflex : Init → Init
  | .flex => .arr []
  | o => o

/-- p10: a union whose brace-enclosed list reached no member has its first named member initialised (to zero) -/
def defaultMember (t : Ty) (o : Init) : Init :=
  match t, o with
  | .union ms _ _, .union e none cs =>
    match nextNamed ms ms.length 0 with
    | some k => .union e (some k) cs
    | none => o
  | _, _ => o

/-- the designated subobjects are the elements `[a] … [b]` of one array (the range designator is the last designator) -/
def siblings (paths : List (List Nat)) : Bool :=
  match paths with
  | p0 :: _ => paths.all (fun q => q.dropLast == p0.dropLast)
  | [] => true

/-- the designation of one initializer of a list (p17): a designator list sets the cursor, otherwise the cursor stands -/
def pathsOf (ty : Ty) (top : Bool) (cur : Option (List Nat)) (toks : List ITok) : Except Fail (List (List Nat) × List ITok) :=
  if isDesg toks then desigPaths ty top (toks.length + 1) [[]] toks
  else pure ((match cur with | some p => [p] | none => []), toks)

/-- an array of *character type* (p14: char, signed char, unsigned char; p15: wchar_t, char16_t, char32_t are integer types) whose
    elements are as wide as those of the literal.  `_Bool` is not a character type (6.2.5p15): `{ "abc" }` for an array of
    `_Bool` is an ordinary list whose first initializer is the address of the literal -/
def chrFits (elem : Ty) (esz : Nat) : Bool :=
  strFits elem esz && (match elem with | .scalar _ .bool => false | _ => true)

/-- p14, p15: "… may be initialized by a character string literal, OPTIONALLY ENCLOSED IN BRACES": the tokens after `{` are one
    string literal that may initialise the array of type `t`, then `}` or `, }`.  Result: the literal and what follows the `}` -/
def bracedLit (t : Ty) (inner : List ITok) : Option (ITok × List ITok) :=
  match t, inner with
  | .array e _, .str id bytes esz :: .rbrace :: r => if chrFits e esz then some (.str id bytes esz, r) else none
  | .array e _, .str id bytes esz :: .comma :: .rbrace :: r => if chrFits e esz then some (.str id bytes esz, r) else none
  | .inc e, .str id bytes esz :: .rbrace :: r => if chrFits e esz then some (.str id bytes esz, r) else none
  | .inc e, .str id bytes esz :: .comma :: .rbrace :: r => if chrFits e esz then some (.str id bytes esz, r) else none
  | _, _ => none

/-- one initializer `tok` WITHOUT braces for the designated subobjects `paths`; `r`: what follows it -/
def initTokWith (rec : Ty → Bool → Init → Option (List Nat) → List ITok → Bool → Flags → Except Fail Result)
    (ty : Ty) (top : Bool) (obj : Init) (paths : List (List Nat)) (tok : ITok) (r : List ITok) (fl : Flags) : Except Fail Result := do
  -- no braces: descend to the subobject this initializer can initialise (p13, p14, p20)
  let targets ← paths.mapM (fun p => descend ty top tok (p.length + ty.nodes + 2) p)
  let isStr := match tok with | .str .. => true | _ => false
  let fl := fl.join ⟨(isStr && targets.any (fun p =>
        match subTy ty p with | some (.scalar ..) => false | _ => touched obj p))
      || targets.any (switchesUnion obj), targets.any (exprAbove obj),
      decide (paths.length > 1) && !(siblings paths && targets == paths), false⟩
  let obj ← targets.foldlM (fun o p => modifyAt ty top (storeTok ty top tok p) ty [] p o) obj
  rec ty top obj (next ty top (targets.getLast!.reverse)) r false fl

/-- one initializer of a list whose designated subobjects are `paths` (`rec`: the rest of the same list) -/
def initItemWith (rec : Ty → Bool → Init → Option (List Nat) → List ITok → Bool → Flags → Except Fail Result)
    (ty : Ty) (top : Bool) (obj : Init) (paths : List (List Nat)) (toks : List ITok) (fl : Flags) : Except Fail Result :=
  match paths with
  | [] => do
    -- excess initializer: consumed, ignored
    let r ← skipExcess (toks.length + 1) toks
    rec ty top obj none r false fl
  | p0 :: _ =>
    match toks with
    | .lbrace :: inner => do
      let t ← (match subTy ty p0 with | some t => pure t | none => .error (.crash "spec: bad path") : Except Fail Ty)
      let t := if growable ty top p0 then (match t with | .array e _ => Ty.inc e | t => t) else t
      match bracedLit t inner with
      | some (tok, r) =>
        -- p14/p15: a string literal in braces for a character array is that string literal: the braces are optional
        initTokWith rec ty top obj paths tok r fl
      | none => do
        -- braces: the whole subobject at the cursor (p19: overrides; p21: the rest is zero)
        let sub ← rec t false (braceStart t) (firstCursor t) inner true Flags.none
        let subObj := defaultMember t (unflex sub.obj)
        let fl := (fl.join ⟨paths.any (touched obj), paths.any (exprAbove obj), decide (paths.length > 1) && !siblings paths, false⟩).join sub.fl
        let obj ← paths.foldlM (fun o p => modifyAt ty top (fun _ _ => pure subObj) ty [] p o) obj
        rec ty top obj (next ty top (paths.getLast!.reverse)) sub.rest false fl
    | tok :: r => initTokWith rec ty top obj paths tok r fl
    | [] => .error (.diag "expected an expression")

/-- index of the flexible array member of the declared object (the last member of a struct type with `is_flexible`) -/
def flexIdx (ty : Ty) (top : Bool) : Option Nat :=
  match ty with
  | .struct ms _ true => if top && !ms.isEmpty then some (ms.length - 1) else none
  | _ => none

/-- region `FlexReinit`: the initializer whose designated subobjects are `paths` (`desg`: it has a designator list) initialises
    the flexible array member of the declared object - it designates it, or the cursor stands at the member itself - although
    an earlier initializer of the list has initialised that member (its value is no longer "no elements") -/
def reinitAt (ty : Ty) (top : Bool) (obj : Init) (desg : Bool) (paths : List (List Nat)) : Bool :=
  match flexIdx ty top, paths with
  | some k, (j :: rest) :: _ =>
    j == k && (desg || rest.isEmpty) && (match obj.children[k]? with | some .flex => false | _ => true)
  | _, _ => false

/-- one brace-enclosed initializer list for a current object of type `ty` whose value so far is `obj`;
    `toks` starts after the `{`; `cur` is the cursor (`none`: no subobject left); `top`: the current object is the
    declared object itself; `fl`: the regions entered so far -/
def initList : Nat → Ty → Bool → Init → Option (List Nat) → List ITok → Bool → Flags → Except Fail Result
  | 0, _, _, _, _, _, _, _ => .error .fuel
  | f+1, ty, top, obj, cur, toks, first, fl =>
    match toks with
    | .rbrace :: r => .ok ⟨obj, r, fl⟩
    | .comma :: .rbrace :: r => .ok ⟨obj, r, fl⟩
    | _ => do
      let toks ← if first then pure toks else skipTok .comma "," toks
      let (paths, toks') ← pathsOf ty top cur toks
      initItemWith (initList f) ty top obj paths toks' (fl.join ⟨false, false, false, reinitAt ty top obj (isDesg toks) paths⟩)

/-- 6.7.9 for a declared object of type `ty` with initializer `toks`: the object value, what follows the initializer, and
    the regions the initializer lies in -/
def initFull (ty : Ty) (toks : List ITok) : Except Fail Result :=
  match toks with
  | .lbrace :: r =>
    match bracedLit ty r with
    | some (tok, rest) => do
      -- p14/p15: a character array initialised by a string literal enclosed in braces
      pure ⟨← storeTok ty true tok [] ty .flex, rest, Flags.none⟩
    | none => do
      -- the object starts as zero (an array of unknown bound: without elements)
      let res ← initList (toks.length + 2) ty true (unflex (newInit ty true)) (firstCursor ty) r true Flags.none
      pure { res with obj := defaultMember ty (unflex res.obj) }
  | tok :: r =>
    -- p11 scalar, p13 struct-typed expression, p14/p15 string literal for a character array; anything else needs braces (p16)
    match ty, tok with
    | .scalar .., _ => do pure ⟨← storeTok ty true tok [] ty (.leaf none), r, Flags.none⟩
    | .array el _, .str _ _ esz => if strFits el esz then do pure ⟨← storeTok ty true tok [] ty .flex, r, Flags.none⟩
                                   else .error (.diag "invalid initializer")
    | .inc el, .str _ _ esz => if strFits el esz then do pure ⟨← storeTok ty true tok [] ty .flex, r, Flags.none⟩
                               else .error (.diag "invalid initializer")
    | .struct .., .expr e => if e.isStruct then pure ⟨(newInit ty true).setExpr (some e), r, Flags.none⟩
                             else .error (.diag "invalid initializer")
    | .union .., .expr e => if e.isUnion then pure ⟨(newInit ty true).setExpr (some e), r, Flags.none⟩
                            else .error (.diag "invalid initializer")
    | _, _ => .error (.diag "invalid initializer")
  | [] => .error (.diag "expected an expression")

def init (ty : Ty) (toks : List ITok) : Except Fail (Init × List ITok) :=
  (initFull ty toks).map (fun r => (r.obj, r.rest))

/-- region of known finding C05-brace-override-keeps-old -/
def BraceOverride (ty : Ty) (toks : List ITok) : Bool :=
  match initFull ty toks with
  | .ok r => r.over
  | .error _ => false

/-- region: an initializer for a subobject inside a struct/union that was initialised by an expression of struct/union type -/
def AggExprOverride (ty : Ty) (toks : List ITok) : Bool :=
  match initFull ty toks with
  | .ok r => r.fl.xover
  | .error _ => false

/-- region: a GNU range designator over more than one element that is followed by a further designator or by an initializer
    with elided braces -/
def WideRange (ty : Ty) (toks : List ITok) : Bool :=
  match initFull ty toks with
  | .ok r => r.fl.wide
  | .error _ => false

/-- region: the flexible array member of the declared object is initialised again after an earlier initializer of the list
    initialised it (by a designator naming it, or by the cursor coming back to it) - GNU extension, gcc grows the array,
    chibicc keeps the length of the first initializer -/
def FlexReinit (ty : Ty) (toks : List ITok) : Bool :=
  match initFull ty toks with
  | .ok r => r.fl.reinit
  | .error _ => false

/-! ### the declared types for which parser = specification is proved (Props/C05.lean, `C05_parse_spec_partial`) -/

mutual
  def subOk : Ty → Bool
    | .scalar _ _ => true
    | .array e _ => subOk e
    | .inc _ => false
    | .struct ms _ fl => !fl && subOkMs ms
    | .union ms _ fl => !fl && subOkMs ms && (nextNamed ms ms.length 0).isSome
  def subOkMs : Members → Bool
    | [] => true
    | (_, t) :: r => subOk t && subOkMs r
end

/-- the members of a struct with a flexible array member: every member but the last is covered, the last one is `elem[]`
    (`array_of(elem, 0)` after struct_members) with a covered element type -/
def flexOkMs : Members → Bool
  | [] => false
  | [(_, .array e _)] => subOk e
  | [_] => false
  | (_, t) :: m :: r => subOk t && flexOkMs (m :: r)

/-- the declared types covered: an array of unknown bound only outermost, a flexible array member only as the last member of the
    declared struct itself (as in C), unions have a named member -/
def tyOk : Ty → Bool
  | .inc e => subOk e
  | .struct ms _ true => flexOkMs ms
  | t => subOk t

end ChibiVerif.InitSpec
