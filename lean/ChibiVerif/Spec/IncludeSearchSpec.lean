/-
Specification side of C10, #include resolution (C11 6.10.2 leaves the places searched to the
implementation; this is the order chibicc's users are told and gcc documents and implements):

  #include "name"   the directory of the including file, then as for <name>
  #include <name>   the -I directories in command-line order, then the system directories,
                    then the -idirafter directories in command-line order
  #include_next     the same chain, continued after the directory in which the current file was
                    found (the whole chain if it was not found through the chain)

An absolute name is not searched.  The first directory in which the name exists wins.
Independent of Model/IncludeSearch.lean except for `Config`, `joinPath`, `isAbs`.
-/
import ChibiVerif.Model.IncludeSearch

namespace ChibiVerif.Spec.IncludeSearch
open ChibiVerif.IncludeSearch

/-- the chain for `<name>` -/
def chain (c : Config) : List String := c.iDirs ++ c.sysDirs ++ c.idirafter

/-- first directory of `dirs` that has `name` -/
def firstIn (fsx : String → Bool) : List String → String → Option String
  | [], _ => none
  | d :: ds, name => if fsx (joinPath d name) then some (joinPath d name) else firstIn fsx ds name

/-- file named by `#include "name"` (`quoted`) / `#include <name>` appearing in a file whose
    directory is `curDir` -/
def search (fsx : String → Bool) (c : Config) (curDir : String) (quoted : Bool) (name : String) : Option String :=
  if isAbs name then some name
  else firstIn fsx ((if quoted then [curDir] else []) ++ chain c) name

/-- file named by `#include_next`, the current file having been found in directory number `found`
    of the chain (`none`: not found through the chain) -/
def searchNext (fsx : String → Bool) (c : Config) (found : Option Nat) (name : String) : Option String :=
  firstIn fsx ((chain c).drop (match found with | some i => i + 1 | none => 0)) name

end ChibiVerif.Spec.IncludeSearch
