/-
Specification side of C10, conditional inclusion: ISO/IEC 9899:2011 6.10 (grammar) and 6.10.1.

    group-part:   if-section | control-line | text-line
    if-section:   if-group elif-groups_opt else-group_opt endif-line
    if-group:     # if constant-expression new-line group_opt   |  # ifdef identifier … | # ifndef identifier …
    elif-group:   # elif constant-expression new-line group_opt
    else-group:   # else new-line group_opt
    endif-line:   # endif new-line

The line list is parsed into this tree (`parse`), and the tree is evaluated (`evalItems`):
6.10.1p6 – "Each directive's condition is checked in order.  If it evaluates to false (zero), the
group that it controls is skipped: directives are processed only through the name that determines
the directive in order to keep track of the level of nested conditionals; the rest of the
directives' preprocessing tokens are ignored, as are the other preprocessing tokens in the group.
Only the first group whose control condition evaluates to true (nonzero) is processed.  If none
of the conditions evaluates to true, and there is a #else directive, the group controlled by the
#else is processed; lacking a #else directive, all the groups until the #endif are skipped."

Because skipped groups are looked at "only through the name … to keep track of the level of nested
conditionals", the tree is lenient about the order of #elif/#else inside a section
(`Parts` is any sequence of them); the constraint "no #elif/#else after #else" is diagnosed when the
section is *evaluated* (not when it lies in a skipped group), like every diagnostic in translation
phase 4 it is raised at the point the directive is reached.  Conditions after the first true one are
not evaluated.  A #elif/#else/#endif outside any section is diagnosed when reached.  A section still
open at the end of the input is diagnosed at the end of the input, everything before it having been
processed as if the missing #endif lines stood there (`Top.done _ n`, n = number supplied).

Independent of the machine in Model/CondIncl.lean: shares only the line type, the macro table,
`procPlain` (the meaning of text/#define/#undef/#error lines) and `evalHead`.
-/
import ChibiVerif.Model.CondIncl

namespace ChibiVerif.Spec.CondIncl
open ChibiVerif.CondIncl

variable {ε β : Type}

mutual
/-- group-part -/
inductive Item (ε β : Type) where
  | plain (p : Plain β)                                            -- text-line / control-line
  | sec (h : IfHead ε) (body : Items ε β) (rest : Parts ε β)       -- if-section
/-- group -/
inductive Items (ε β : Type) where
  | nil
  | cons (i : Item ε β) (is : Items ε β)
/-- elif-groups / else-group / endif-line -/
inductive Parts (ε β : Type) where
  | endif (extra : Bool)
  | part (h : PartHead ε) (body : Items ε β) (rest : Parts ε β)
end

/-- a whole preprocessing file -/
inductive Top (ε β : Type) where
  /-- a group; `unclosed` = number of #endif lines supplied at the end of the input -/
  | done (is : Items ε β) (unclosed : Nat)
  /-- a group followed by a #elif/#else/#endif that belongs to no section; nothing after it matters -/
  | stray (is : Items ε β) (l : Line ε β) (rest : List (Line ε β))

-- ------------------------------------------------------------------ tree → lines

mutual
def Item.flatten : Item ε β → List (Line ε β)
  | .plain p => [.plain p]
  | .sec h body rest => .opens h :: (body.flatten ++ rest.flatten)
def Items.flatten : Items ε β → List (Line ε β)
  | .nil => []
  | .cons i is => i.flatten ++ is.flatten
def Parts.flatten : Parts ε β → List (Line ε β)
  | .endif x => [.endif x]
  | .part h body rest => .part h :: (body.flatten ++ rest.flatten)
end

def Items.append : Items ε β → Items ε β → Items ε β
  | .nil, t => t
  | .cons i is, t => .cons i (is.append t)

def Items.snoc (is : Items ε β) (i : Item ε β) : Items ε β := is.append (.cons i .nil)

-- ------------------------------------------------------------------ lines → tree

/-- a section under construction: its head, the groups already completed (each with the
    #elif/#else line that ended it), and the group being read -/
structure PFrame (ε β : Type) where
  head : IfHead ε
  groups : List (Items ε β × PartHead ε)
  cur : Items ε β

/-- `part h₁ b₁ (part h₂ b₂ … (part hₙ cur fin))` for the remaining groups -/
def mkParts (h : PartHead ε) : List (Items ε β × PartHead ε) → Items ε β → Parts ε β → Parts ε β
  | [], cur, fin => .part h cur fin
  | (b, h') :: gs, cur, fin => .part h b (mkParts h' gs cur fin)

/-- close a section under construction with the given endif-line -/
def PFrame.close (f : PFrame ε β) (fin : Parts ε β) : Item ε β :=
  match f.groups with
  | [] => .sec f.head f.cur fin
  | (b0, h1) :: gs => .sec f.head b0 (mkParts h1 gs f.cur fin)

/-- add a finished group-part to the innermost open group -/
def addItem (i : Item ε β) : List (PFrame ε β) → Items ε β → List (PFrame ε β) × Items ε β
  | [], top => ([], top.snoc i)
  | f :: fs, top => ({ f with cur := f.cur.snoc i } :: fs, top)

/-- `i` is a finished group-part of the innermost section of `fs`; supply the #endif lines
    missing at the end of the input for all of `fs` -/
def closeWith (i : Item ε β) : List (PFrame ε β) → Items ε β → Items ε β
  | [], top => top.snoc i
  | g :: fs, top => closeWith (PFrame.close { g with cur := g.cur.snoc i } (.endif false)) fs top

/-- supply the missing #endif lines at the end of the input -/
def closeAll : List (PFrame ε β) → Items ε β → Items ε β
  | [], top => top
  | f :: fs, top => closeWith (f.close (.endif false)) fs top

/-- shift-reduce parser: `fs` = sections under construction (innermost first), `top` = the
    outermost group read so far -/
def parseGo : List (Line ε β) → List (PFrame ε β) → Items ε β → Top ε β
  | [], fs, top => .done (closeAll fs top) fs.length
  | l :: ls, fs, top =>
    match l with
    | .plain p => let r := addItem (.plain p) fs top; parseGo ls r.1 r.2
    | .opens h => parseGo ls (⟨h, [], .nil⟩ :: fs) top
    | .part h =>
      match fs with
      | [] => .stray top l ls
      | f :: fs' => parseGo ls ({ f with groups := f.groups ++ [(f.cur, h)], cur := .nil } :: fs') top
    | .endif x =>
      match fs with
      | [] => .stray top l ls
      | f :: fs' => let r := addItem (f.close (.endif x)) fs' top; parseGo ls r.1 r.2

/-- the grammar tree of a line list -/
def parse (ls : List (Line ε β)) : Top ε β := parseGo ls [] .nil

-- ------------------------------------------------------------------ evaluation (6.10.1)

mutual
def Item.eval (ev : ε → Defs β → Except Diag Bool) : Item ε β → Obs β → Except Diag (Obs β)
  | .plain p, o => procPlain p o
  | .sec h body rest, o =>
    match evalHead ev h o.defs with
    | .error e => .error e
    | .ok true =>                                   -- the if-group is the first true group
      match body.eval ev o with
      | .error e => .error e
      | .ok o' => rest.eval ev true false o'
    | .ok false => rest.eval ev false false o       -- skipped: contributes nothing
def Items.eval (ev : ε → Defs β → Except Diag Bool) : Items ε β → Obs β → Except Diag (Obs β)
  | .nil, o => .ok o
  | .cons i is, o =>
    match i.eval ev o with
    | .error e => .error e
    | .ok o' => is.eval ev o'
/-- the remaining groups of a section; `taken` = an earlier group of this section was processed,
    `seenElse` = the #else of this section has been passed -/
def Parts.eval (ev : ε → Defs β → Except Diag Bool) : Parts ε β → Bool → Bool → Obs β → Except Diag (Obs β)
  | .endif _, _, _, o => .ok o
  | .part (.elif c) body rest, taken, seenElse, o =>
    if seenElse then .error .strayElif               -- #elif after #else
    else if taken then rest.eval ev true false o     -- condition NOT evaluated, group skipped
    else
      match ev c o.defs with
      | .error e => .error e
      | .ok true =>
        match body.eval ev o with
        | .error e => .error e
        | .ok o' => rest.eval ev true false o'
      | .ok false => rest.eval ev false false o
  | .part (.els _) body rest, taken, seenElse, o =>
    if seenElse then .error .strayElse               -- second #else
    else if taken then rest.eval ev true true o
    else
      match body.eval ev o with
      | .error e => .error e
      | .ok o' => rest.eval ev true true o'
end

def strayDiag : Line ε β → Diag
  | .part (.elif _) => .strayElif
  | .part (.els _) => .strayElse
  | _ => .strayEndif

def Top.eval (ev : ε → Defs β → Except Diag Bool) : Top ε β → Obs β → Except Diag (Obs β)
  | .done is n, o =>
    match is.eval ev o with
    | .error e => .error e
    | .ok o' => if n = 0 then .ok o' else .error .unterminated
  | .stray is l _, o =>
    match is.eval ev o with
    | .error e => .error e
    | .ok _ => .error (strayDiag l)

/-- **the specification**: the text lines selected by 6.10.1 and the final macro table, or the
    diagnostic, for a translation unit `ls` started with macro table `d` -/
def groups (ev : ε → Defs β → Except Diag Bool) (ls : List (Line ε β)) (d : Defs β) : Except Diag (Obs β) :=
  (parse ls).eval ev ⟨d, []⟩

end ChibiVerif.Spec.CondIncl
