/-
C03 — specification side, all statements: a small-step C abstract machine for `SStmt` with
continuations (C11 6.8; in the style of CompCert Clight's `step`/`find_label`).  It gives a
meaning to what `Spec.Ctl.exec` (ControlSpec.lean) leaves out:

  * `goto L` (6.8.6.1): control continues at the statement labelled `L` of the enclosing
    function, with the continuation that statement has there;
  * `goto *&&L` (GNU labels as values): `&&L` is the address of that labelled statement, the
    jump goes to it;
  * `switch` (6.8.4.2p5,p7): control jumps to the statement following the matching `case`
    label — wherever it is nested in the switch body, except inside a nested `switch` —
    else to the one following `default`, else past the switch (Duff's device included).

Independent of parse.c / codegen.c: no unique labels, no counters, no code.

A state is a statement, a continuation and the observable state (oracle position, trace).
`find` is the one search the three transfers share: it walks a statement in source order,
building the continuation of the place it arrives at.
-/
import ChibiVerif.Spec.ControlSpec

namespace ChibiVerif.Spec.Ctl

/-- what remains to be done after the current statement -/
inductive Cont where
  | stop                                              -- end of the function body
  | seq (s : SStmt) (k : Cont)                        -- then `s`, then `k`
  | forK (c inc : Option Nat) (body : SStmt) (k : Cont)   -- end of the body of `for (; c; inc) body`
  | doK (body : SStmt) (c : Nat) (k : Cont)           -- end of the body of `do body while (c)`
  | swK (k : Cont)                                    -- end of the body of a `switch`
  deriving Repr, DecidableEq, Inhabited

/-- what a control transfer looks for -/
inductive Target where
  | lbl (l : Nat)                        -- the statement labelled `l`
  | case_ (w64 uns : Bool) (v : Val)     -- a `case` selecting `v` in the controlling type
  | dflt                                 -- `default:`
  deriving Repr, DecidableEq

def Target.hitLabel : Target → Nat → Bool
  | .lbl l, l' => l == l'
  | _, _ => false

def Target.hitCase : Target → Val → Val → Bool
  | .case_ w u v, lo, hi => caseMatches w u lo hi v
  | _, _, _ => false

def Target.hitDflt : Target → Bool
  | .dflt => true
  | _ => false

/-- `case`/`default` labels belong to the innermost enclosing `switch` (6.8.4.2p2): the search
    for them does not enter a nested `switch`; a named label is visible in the whole function -/
def Target.enters : Target → Bool
  | .lbl _ => true
  | _ => false

/-- the statement that follows the first label in `s` (source order) the target designates,
    with its continuation; `k` is the continuation of `s` -/
def find (t : Target) : SStmt → Cont → Option (SStmt × Cont)
  | .seq a b, k =>
    match find t a (.seq b k) with
    | some r => some r
    | none => find t b k
  | .block s, k => find t s k
  | .ifte _ a b, k =>
    match find t a k with
    | some r => some r
    | none => find t b k
  | .for_ _ c inc body, k => find t body (.forK c inc body k)
  | .doWhile body c, k => find t body (.doK body c k)
  | .switch_ _ _ _ body, k => if t.enters then find t body (.swK k) else none
  | .case_ lo hi s, k => if t.hitCase lo hi then some (s, k) else find t s k
  | .default_ s, k => if t.hitDflt then some (s, k) else find t s k
  | .label l s, k => if t.hitLabel l then some (s, k) else find t s k
  | _, _ => none

/-- `break`: the continuation of the innermost enclosing loop or switch -/
def breakK : Cont → Option Cont
  | .stop => none
  | .seq _ k => breakK k
  | .forK _ _ _ k => some k
  | .doK _ _ k => some k
  | .swK k => some k

/-- `continue`: the end of the body of the innermost enclosing loop (switches are transparent) -/
def contK : Cont → Option Cont
  | .stop => none
  | .seq _ k => contK k
  | .forK c i b k => some (.forK c i b k)
  | .doK b c k => some (.doK b c k)
  | .swK k => contK k

/-! ### constraints a function body must satisfy for its jumps to have a meaning -/

/-- names of the labelled statements of a function body -/
def labelNames : SStmt → List Nat
  | .seq a b => labelNames a ++ labelNames b
  | .block s => labelNames s
  | .ifte _ t e => labelNames t ++ labelNames e
  | .for_ _ _ _ b => labelNames b
  | .doWhile b _ => labelNames b
  | .switch_ _ _ _ b => labelNames b
  | .case_ _ _ s => labelNames s
  | .default_ s => labelNames s
  | .label l s => l :: labelNames s
  | _ => []

/-- the `case` ranges of a switch body, nested ones included, those of nested switches excluded -/
def freeCases : SStmt → List (Val × Val)
  | .seq a b => freeCases a ++ freeCases b
  | .block s => freeCases s
  | .ifte _ t e => freeCases t ++ freeCases e
  | .for_ _ _ _ b => freeCases b
  | .doWhile b _ => freeCases b
  | .case_ lo hi s => (lo, hi) :: freeCases s
  | .default_ s => freeCases s
  | .label _ s => freeCases s
  | _ => []

def freeDefaults : SStmt → Nat
  | .seq a b => freeDefaults a + freeDefaults b
  | .block s => freeDefaults s
  | .ifte _ t e => freeDefaults t + freeDefaults e
  | .for_ _ _ _ b => freeDefaults b
  | .doWhile b _ => freeDefaults b
  | .case_ _ _ s => freeDefaults s
  | .default_ s => freeDefaults s + 1
  | .label _ s => freeDefaults s
  | _ => 0

/-- 6.8.4.2p3 (+ GNU ranges): every range non-empty in the controlling type, no value selected by
    two `case`s, at most one `default` -/
def switchOKG (w64 uns : Bool) (body : SStmt) : Bool :=
  (freeCases body).all (fun c => decide (toT w64 uns c.1 ≤ toT w64 uns c.2)) &&
  pairwiseDisjoint w64 uns (freeCases body) &&
  decide (freeDefaults body ≤ 1)

/-- 6.8.6.1p1 / 6.8.1p3: the label named by a jump is defined exactly once in the function -/
def labelOK (fb : SStmt) (l : Nat) : Bool := (labelNames fb).count l == 1

/-- the constraints, checked statically for a whole function body `fb` (`validG fb = okStmt fb fb`) -/
def okStmt (fb : SStmt) : SStmt → Bool
  | .seq a b => okStmt fb a && okStmt fb b
  | .block s => okStmt fb s
  | .ifte _ t e => okStmt fb t && okStmt fb e
  | .for_ _ _ _ b => okStmt fb b
  | .doWhile b _ => okStmt fb b
  | .switch_ w u _ b => switchOKG w u b && okStmt fb b
  | .case_ _ _ s => okStmt fb s
  | .default_ s => okStmt fb s
  | .label _ s => okStmt fb s
  | .goto_ l => labelOK fb l
  | .gotoVal l => labelOK fb l
  | _ => true

def validG (fb : SStmt) : Bool := okStmt fb fb

def hasGotoVal : SStmt → Bool
  | .seq a b => hasGotoVal a || hasGotoVal b
  | .block s => hasGotoVal s
  | .ifte _ t e => hasGotoVal t || hasGotoVal e
  | .for_ _ _ _ b => hasGotoVal b
  | .doWhile b _ => hasGotoVal b
  | .switch_ _ _ _ b => hasGotoVal b
  | .case_ _ _ s => hasGotoVal s
  | .default_ s => hasGotoVal s
  | .label _ s => hasGotoVal s
  | .gotoVal _ => true
  | _ => false

/-! ### one step -/

inductive StepRes where
  | next (s : SStmt) (k : Cont) (σ : SState)
  | fin (o : Outcome) (σ : SState)        -- the function body is left: fell off its end / `return` / stray `break`, `continue`
  | stuck                                 -- a jump whose constraint is violated: no meaning
  deriving Repr, DecidableEq

/-- one step of the statement `s` with continuation `k` in the function body `fb` -/
def step (ω : Nat → Val) (fb : SStmt) (s : SStmt) (k : Cont) (σ : SState) : StepRes :=
  match s with
  | .skip =>
    match k with
    | .stop => .fin .normal σ
    | .seq s' k' => .next s' k' σ
    | .forK c inc body k' => .next (.for_ none c inc body) k' (σ.emitOpt inc)
    | .doK body c k' =>
      if truth (σ.call ω (.c c)).1 then .next (.doWhile body c) k' (σ.call ω (.c c)).2
      else .next .skip k' (σ.call ω (.c c)).2
    | .swK k' => .next .skip k' σ
  | .marker m => .next .skip k (σ.emit (.m m))
  | .seq a b => .next a (.seq b k) σ
  | .block s' => .next s' k σ
  | .ifte c t e =>
    if truth (σ.call ω (.c c)).1 then .next t k (σ.call ω (.c c)).2 else .next e k (σ.call ω (.c c)).2
  | .for_ (some i) c inc body => .next (.for_ none c inc body) k (σ.emit (.m i))
  | .for_ none none inc body => .next body (.forK none inc body k) σ
  | .for_ none (some c) inc body =>
    if truth (σ.call ω (.c c)).1 then .next body (.forK (some c) inc body k) (σ.call ω (.c c)).2
    else .next .skip k (σ.call ω (.c c)).2
  | .doWhile body c => .next body (.doK body c k) σ
  | .switch_ w u key body =>
    if switchOKG w u body then
      match find (.case_ w u (σ.call ω (.inp key)).1) body (.swK k) with
      | some r => .next r.1 r.2 (σ.call ω (.inp key)).2
      | none =>
        match find .dflt body (.swK k) with
        | some r => .next r.1 r.2 (σ.call ω (.inp key)).2
        | none => .next .skip k (σ.call ω (.inp key)).2
    else .stuck
  | .case_ _ _ s' => .next s' k σ
  | .default_ s' => .next s' k σ
  | .label _ s' => .next s' k σ
  | .break_ =>
    match breakK k with
    | some k' => .next .skip k' σ
    | none => .fin .brk σ
  | .continue_ =>
    match contK k with
    | some k' => .next .skip k' σ
    | none => .fin .cont σ
  | .goto_ l =>
    if labelOK fb l then
      match find (.lbl l) fb .stop with
      | some r => .next r.1 r.2 σ
      | none => .stuck
    else .stuck
  | .gotoVal l =>
    if labelOK fb l then
      match find (.lbl l) fb .stop with
      | some r => .next r.1 r.2 σ
      | none => .stuck
    else .stuck
  | .ret => .fin .ret σ

/-- `n` steps; `timeout σ`: after `n` steps the machine is still running, `σ` is a prefix of the behaviour -/
def run (ω : Nat → Val) (fb : SStmt) : Nat → SStmt → Cont → SState → Res
  | 0, _, _, σ => .timeout σ
  | n + 1, s, k, σ =>
    match step ω fb s k σ with
    | .next s' k' σ' => run ω fb n s' k' σ'
    | .fin o σ' => .done o σ'
    | .stuck => .unsupported

/-- the abstract machine for a function body `fb` -/
def execG (ω : Nat → Val) (n : Nat) (fb : SStmt) (σ : SState) : Res := run ω fb n fb .stop σ

end ChibiVerif.Spec.Ctl
