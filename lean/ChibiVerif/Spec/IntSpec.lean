/-
C11 integer semantics on the LP64 / x86-64 data model (the specification side of C01).

Written from the standard, not from chibicc:
  6.2.5, 5.2.4.2.1   the integer types and their ranges (LP64: char 8, short 16, int 32, long 64; plain char signed)
  6.3.1.1            integer conversion rank, integer promotions
  6.3.1.2, 6.3.1.3   conversion to _Bool / to an integer type (out-of-range signed result: implementation-defined,
                     here two's-complement wrap, which is what gcc documents)
  6.3.1.8            usual arithmetic conversions
  6.5.3.3, 6.5.5 – 6.5.14, 6.5.16   the operators; `none` exactly where the behaviour is undefined
                     (6.5p5 signed overflow, 6.5.5p5 division by zero, 6.5.5p6 INT_MIN / -1 and INT_MIN % -1,
                     6.5.7p3 shift count negative or >= width, 6.5.7p4 `E1 << E2` with E1 signed and negative
                     or E1 * 2^E2 not representable)
Implementation-defined choices fixed as gcc on x86-64 fixes them: signed `>>` is arithmetic, bitwise operators
act on the two's-complement representation.

Values are mathematical integers (`Int`); a value of type `ty` always lies in `[ty.min, ty.max]`.
The driver `drv_c01 eval` runs `evalE`; the check compares it with gcc on every generated well-defined
expression (spec validation) and with chibicc (the property).
-/
namespace ChibiVerif.Spec.IntSpec

inductive ITy where
  | bool | i8 | i16 | i32 | i64 | u8 | u16 | u32 | u64
  deriving DecidableEq, Repr, Inhabited

namespace ITy

def all : List ITy := [bool, i8, i16, i32, i64, u8, u16, u32, u64]

/-- width in bits of the value representation (`_Bool`: 1 value bit) -/
def bits : ITy → Nat
  | bool => 1 | i8 | u8 => 8 | i16 | u16 => 16 | i32 | u32 => 32 | i64 | u64 => 64

/-- `sizeof` -/
def size : ITy → Nat
  | bool | i8 | u8 => 1 | i16 | u16 => 2 | i32 | u32 => 4 | i64 | u64 => 8

def signed : ITy → Bool
  | i8 | i16 | i32 | i64 => true
  | _ => false

def min (t : ITy) : Int := if t.signed then -(2 ^ (t.bits - 1)) else 0
def max (t : ITy) : Int := if t.signed then 2 ^ (t.bits - 1) - 1 else 2 ^ t.bits - 1

def inRange (t : ITy) (v : Int) : Prop := t.min ≤ v ∧ v ≤ t.max
instance (t : ITy) (v : Int) : Decidable (t.inRange v) := by unfold inRange; exact inferInstance

/-- 6.3.1.1p1 conversion rank -/
def rank : ITy → Nat
  | bool => 0 | i8 | u8 => 1 | i16 | u16 => 2 | i32 | u32 => 3 | i64 | u64 => 4

def toString : ITy → String
  | bool => "bool" | i8 => "i8" | i16 => "i16" | i32 => "i32" | i64 => "i64"
  | u8 => "u8" | u16 => "u16" | u32 => "u32" | u64 => "u64"

def ofString? : String → Option ITy
  | "bool" => some bool | "i8" => some i8 | "i16" => some i16 | "i32" => some i32 | "i64" => some i64
  | "u8" => some u8 | "u16" => some u16 | "u32" => some u32 | "u64" => some u64
  | _ => none

/-- the unsigned type of the same rank (6.3.1.8 last rule) -/
def toUnsigned : ITy → ITy
  | i8 => u8 | i16 => u16 | i32 => u32 | i64 => u64 | t => t

end ITy
open ITy

/-- 6.3.1.1p2: a type of rank below `int` is promoted to `int` if `int` can represent all its values
    (it always can on LP64), otherwise to `unsigned int`; other types are unchanged. -/
def promote (t : ITy) : ITy :=
  if t.rank < ITy.i32.rank then
    (if ITy.i32.min ≤ t.min ∧ t.max ≤ ITy.i32.max then .i32 else .u32)
  else t

/-- 6.3.1.8 for two integer operands -/
def usualArith (t1 t2 : ITy) : ITy :=
  let a := promote t1
  let b := promote t2
  if a = b then a
  else if a.signed = b.signed then (if a.rank < b.rank then b else a)
  else
    let (s, u) := if a.signed then (a, b) else (b, a)
    if u.rank ≥ s.rank then u
    else if s.min ≤ u.min ∧ u.max ≤ s.max then s
    else s.toUnsigned

/-- reduce modulo 2^bits into the range of `t` (two's complement for signed types) -/
def wrap (t : ITy) (v : Int) : Int :=
  if t.signed then Int.bmod v (2 ^ t.bits) else v % (2 ^ t.bits : Nat)

/-- 6.3.1.2 / 6.3.1.3: conversion of the integer value `v` to type `t` -/
def convert (t : ITy) (v : Int) : Int :=
  match t with
  | .bool => if v = 0 then 0 else 1
  | t => wrap t v

/-- the object representation as an unsigned number (two's complement) -/
def toBits (t : ITy) (v : Int) : Nat := (v % (2 ^ t.bits : Nat)).toNat
def ofBits (t : ITy) (n : Nat) : Int := wrap t n

inductive BinOp where
  | add | sub | mul | div | mod | band | bor | bxor | shl | shr | eq | ne | lt | le | gt | ge
  deriving DecidableEq, Repr, Inhabited

inductive UnOp where
  | neg | bitnot | lognot | plus
  deriving DecidableEq, Repr, Inhabited

def BinOp.isShift : BinOp → Bool | .shl | .shr => true | _ => false
def BinOp.isRel : BinOp → Bool | .eq | .ne | .lt | .le | .gt | .ge => true | _ => false

def BinOp.all : List BinOp := [.add, .sub, .mul, .div, .mod, .band, .bor, .bxor, .shl, .shr, .eq, .ne, .lt, .le, .gt, .ge]
def UnOp.all : List UnOp := [.neg, .bitnot, .lognot, .plus]

/-- type in which the operation is carried out: the common type (6.3.1.8), for shifts the promoted left operand -/
def binopOperandType (op : BinOp) (t1 t2 : ITy) : ITy :=
  if op.isShift then promote t1 else usualArith t1 t2

/-- type of the result (6.5.5 – 6.5.12): relational and equality operators give `int` -/
def binopType (op : BinOp) (t1 t2 : ITy) : ITy :=
  if op.isRel then .i32 else binopOperandType op t1 t2

def unopType (op : UnOp) (t : ITy) : ITy :=
  match op with
  | .lognot => .i32
  | _ => promote t

/-- result of arithmetic in type `t` on the mathematical result `r`:
    unsigned: reduced modulo 2^N (6.2.5p9); signed: undefined if not representable (6.5p5) -/
def fit (t : ITy) (r : Int) : Option Int :=
  if t.signed then (if t.inRange r then some r else none) else some (wrap t r)

def b2i (b : Bool) : Int := if b then 1 else 0

/-- `a op b` with both operands already of type `t` (`t` = int, unsigned, long or unsigned long after the
    conversions).  For shifts `a` has the promoted left type `t` and `b` is the value of the (promoted) right operand. -/
def arith (op : BinOp) (t : ITy) (a b : Int) : Option Int :=
  match op with
  | .add => fit t (a + b)
  | .sub => fit t (a - b)
  | .mul => fit t (a * b)
  | .div => if b = 0 then none else fit t (Int.tdiv a b)
  | .mod => if b = 0 then none
            else if t.signed ∧ ¬ t.inRange (Int.tdiv a b) then none     -- 6.5.5p6: a/b not representable
            else some (Int.tmod a b)
  | .band => some (ofBits t (toBits t a &&& toBits t b))
  | .bor => some (ofBits t (toBits t a ||| toBits t b))
  | .bxor => some (ofBits t (toBits t a ^^^ toBits t b))
  | .shl => if b < 0 ∨ b ≥ t.bits then none
            else if t.signed then
              (if a < 0 then none else if a * 2 ^ b.toNat ≤ t.max then some (a * 2 ^ b.toNat) else none)
            else some (wrap t (a * 2 ^ b.toNat))
  | .shr => if b < 0 ∨ b ≥ t.bits then none
            else some (a >>> b.toNat)          -- floor (a / 2^b): arithmetic shift for negative a (gcc)
  | .eq => some (b2i (a = b))
  | .ne => some (b2i (a ≠ b))
  | .lt => some (b2i (a < b))
  | .le => some (b2i (a ≤ b))
  | .gt => some (b2i (a > b))
  | .ge => some (b2i (a ≥ b))

/-- `a op b` for operands of types `t1`, `t2`: conversions, then `arith` -/
def binop (op : BinOp) (t1 t2 : ITy) (a b : Int) : Option Int :=
  let t := binopOperandType op t1 t2
  if op.isShift then arith op t (convert t a) (convert (promote t2) b)
  else arith op t (convert t a) (convert t b)

def unop (op : UnOp) (t : ITy) (a : Int) : Option Int :=
  let p := promote t
  match op with
  | .neg => fit p (-(convert p a))
  | .bitnot => some (ofBits p (2 ^ p.bits - 1 - toBits p (convert p a)))
  | .lognot => some (b2i (a = 0))
  | .plus => some (convert p a)

/-! ### expressions with side effects (what the end-to-end oracle evaluates) -/

inductive E where
  | lit (t : ITy) (v : Int)
  | var (i : Nat)
  | un (op : UnOp) (e : E)
  | bin (op : BinOp) (a b : E)
  | land (a b : E)
  | lor (a b : E)
  | cond (c a b : E)
  | comma (a b : E)
  | cast (t : ITy) (e : E)
  | assign (i : Nat) (e : E)
  | opassign (op : BinOp) (i : Nat) (e : E)
  | preinc (i : Nat) | predec (i : Nat) | postinc (i : Nat) | postdec (i : Nat)
  deriving Repr, Inhabited

structure Env where
  tys : List ITy
  vals : List Int
  deriving Repr

def Env.ty? (σ : Env) (i : Nat) : Option ITy := σ.tys[i]?
def Env.val? (σ : Env) (i : Nat) : Option Int := σ.vals[i]?
def Env.set (σ : Env) (i : Nat) (v : Int) : Env := { σ with vals := σ.vals.set i v }

/-- `x op= e` / `++x` / `--x` (6.5.16.2, 6.5.3.1): `x = x op e`, the lvalue evaluated once;
    returns (new value of x, which is the value of the expression) -/
def compound (op : BinOp) (tx te : ITy) (x e : Int) : Option Int :=
  (binop op tx te x e).map (convert tx)

/-- type of an expression (6.5.*); `none` for a variable that does not exist.
    `c ? a : b` with arithmetic operands has the usual-arithmetic-conversion type (6.5.15p5). -/
def typeOf (σ : Env) : E → Option ITy
  | .lit t _ => some t
  | .var i => σ.ty? i
  | .un op e => (typeOf σ e).map (unopType op)
  | .bin op a b => do some (binopType op (← typeOf σ a) (← typeOf σ b))
  | .land _ _ | .lor _ _ => some .i32
  | .cond _ a b => do some (usualArith (← typeOf σ a) (← typeOf σ b))
  | .comma _ b => typeOf σ b
  | .cast t _ => some t
  | .assign i _ | .opassign _ i _ | .preinc i | .predec i | .postinc i | .postdec i => σ.ty? i

/-- value and store after evaluating an expression, operands left to right.  `none` = undefined behaviour
    (or an ill-formed expression).  The generator never produces unsequenced conflicting accesses
    (a modified variable occurs once in its full expression), so the order chosen here is immaterial. -/
def evalE (σ : Env) : E → Option (Int × Env)
  | .lit t v => if t.inRange v then some (v, σ) else none
  | .var i => (σ.val? i).map (·, σ)
  | .un op e => do
      let t ← typeOf σ e
      let (v, σ1) ← evalE σ e
      some (← unop op t v, σ1)
  | .bin op a b => do
      let ta ← typeOf σ a
      let tb ← typeOf σ b
      let (va, σ1) ← evalE σ a
      let (vb, σ2) ← evalE σ1 b
      some (← binop op ta tb va vb, σ2)
  | .land a b => do
      let (va, σ1) ← evalE σ a
      if va = 0 then some (0, σ1) else
      let (vb, σ2) ← evalE σ1 b
      some (b2i (vb ≠ 0), σ2)
  | .lor a b => do
      let (va, σ1) ← evalE σ a
      if va ≠ 0 then some (1, σ1) else
      let (vb, σ2) ← evalE σ1 b
      some (b2i (vb ≠ 0), σ2)
  | .cond c a b => do
      let t ← typeOf σ (.cond c a b)
      let (vc, σ1) ← evalE σ c
      if vc ≠ 0 then
        let (v, σ2) ← evalE σ1 a
        some (convert t v, σ2)
      else
        let (v, σ2) ← evalE σ1 b
        some (convert t v, σ2)
  | .comma a b => do
      let (_, σ1) ← evalE σ a
      evalE σ1 b
  | .cast t e => do
      let (v, σ1) ← evalE σ e
      some (convert t v, σ1)
  | .assign i e => do
      let t ← σ.ty? i
      let (v, σ1) ← evalE σ e
      let v' := convert t v
      some (v', σ1.set i v')
  | .opassign op i e => do
      let tx ← σ.ty? i
      let te ← typeOf σ e
      let (v, σ1) ← evalE σ e
      let x ← σ1.val? i
      let r ← compound op tx te x v
      some (r, σ1.set i r)
  | .preinc i => do
      let tx ← σ.ty? i
      let x ← σ.val? i
      let r ← compound .add tx .i32 x 1
      some (r, σ.set i r)
  | .predec i => do
      let tx ← σ.ty? i
      let x ← σ.val? i
      let r ← compound .sub tx .i32 x 1
      some (r, σ.set i r)
  | .postinc i => do          -- 6.5.2.4: the result is the value of the operand; then 1 is added as by `+=`
      let tx ← σ.ty? i
      let x ← σ.val? i
      let r ← compound .add tx .i32 x 1
      some (x, σ.set i r)
  | .postdec i => do
      let tx ← σ.ty? i
      let x ← σ.val? i
      let r ← compound .sub tx .i32 x 1
      some (x, σ.set i r)

end ChibiVerif.Spec.IntSpec
