/-
Decidable regions of signatures used by the C06 theorems and by the check's `known_id` tagging.

Each region is the set of signatures on which a *known finding* of known_findings.json can show; outside all of them
(`Supported`) chibicc's placement of arguments and return values is proved equal to the psABI's (Props/C06.lean).
-/
import ChibiVerif.Model.CallConv
import ChibiVerif.Spec.PsABI

namespace ChibiVerif.Spec.CallRegions
open ChibiVerif.CallConv
open ChibiVerif.Spec.PsABI (leaves eightbytes roundUp classify inMemory)

def isLdbl : ATy → Bool
  | .ldbl => true
  | _ => false

/-- an aggregate of at most 16 bytes with a long double somewhere inside  (C06-struct-with-ldouble) -/
def ldblInSmallAgg (ty : ATy) : Bool :=
  ty.isAgg && decide (ty.size ≤ 16) && (leaves ty 0).any (fun ot => isLdbl ot.2)

/-- an aggregate of at most 16 bytes some scalar of which does not sit at a multiple of its alignment (packed)
    (C06-packed-unaligned-param).  (The GNU empty struct used to be part of this region: repaired in /repo b298aee.) -/
def packedUnaligned (ty : ATy) : Bool :=
  ty.isAgg && decide (ty.size ≤ 16) && PsABI.hasUnaligned ty

/-- no scalar starts in eightbyte `k` -/
def eightbyteEmpty (ty : ATy) (k : Nat) : Bool :=
  (leaves ty 0).all (fun ot => ot.1 / 8 != k)

/-- an aggregate of at most 16 bytes one of whose eightbytes holds only padding  (C06-padding-eightbyte) -/
def paddingEightbyte (ty : ATy) : Bool :=
  ty.isAgg && decide (0 < ty.size) && decide (ty.size ≤ 16) &&
    (eightbyteEmpty ty 0 || (decide (ty.size > 8) && eightbyteEmpty ty 1))

/-- a type on which chibicc's classification is the psABI's -/
def tyOk : ATy → Bool
  | .arr .. => false                    -- not an argument type (arrays decay)
  | t => !(ldblInSmallAgg t) && !(packedUnaligned t) && !(paddingEightbyte t)

/-- walking the stack arguments as the psABI places them: does one with 16-byte alignment need padding before it? -/
def stackPadLoop : (Nat × Nat × Nat) → List ATy → Bool
  | _, [] => false
  | st, t :: ts =>
    let r := PsABI.assignStep st t
    (match r.2 with
     | .stack off => decide (off ≠ st.2.2)
     | _ => false) || stackPadLoop r.1 ts

/-- a long double (or 16-byte aligned aggregate) stack argument preceded by an odd number of 8-byte stack slots
    (C06-ldouble-stack-align) -/
def stackAlignPad (s : Sig) : Bool :=
  stackPadLoop ((if PsABI.retInMemory s.ret then 1 else 0), 0, 0) s.params

/-- a variadic argument that is an aggregate passed in registers: `va_arg` reads the overflow area for it
    (C06-va-arg-small-struct) -/
def vaSmallStruct (s : Sig) : Bool :=
  s.variadic && (((PsABI.assign s).zip s.params).drop s.nNamed).any (fun lt =>
    lt.2.isAgg && (match lt.1 with | .regs _ => true | _ => false))

def retOk : Option ATy → Bool
  | some t => tyOk t
  | none => true

/-- outside every known-finding region -/
def supported (s : Sig) : Bool :=
  s.params.all tyOk && retOk s.ret && !(stackAlignPad s)

def regionTags (s : Sig) : List String :=
  let tys := s.params ++ (match s.ret with | some t => [t] | none => [])
  (if tys.any ldblInSmallAgg then ["C06-struct-with-ldouble"] else [])
  ++ (if tys.any packedUnaligned then ["C06-packed-unaligned-param"] else [])
  ++ (if tys.any paddingEightbyte then ["C06-padding-eightbyte"] else [])
  ++ (if stackAlignPad s then ["C06-ldouble-stack-align"] else [])
  ++ (if vaSmallStruct s then ["C06-va-arg-small-struct"] else [])
  ++ (if tys.any (fun t => match t with | .arr .. => true | _ => false) then ["not-an-argument-type"] else [])

end ChibiVerif.Spec.CallRegions
