/-
C03 — specification side: source-level statements and the C abstract machine for them
(C11 6.8: 6.8.2 compound, 6.8.4.1 if, 6.8.4.2 switch, 6.8.5 iteration, 6.8.6 jumps; GNU
case ranges).  Independent of parse.c / codegen.c: no labels, no counters.

Observable behaviour = the sequence of calls to the external functions
  `void m(int)`   (marker: "this statement was executed"),
  `int  c(int)`   (a controlling expression of `if`/`for`/`while`/`do`),
  `long in(int)`  (the controlling expression of a `switch`, converted to its type),
each with its constant argument.  The values `c` and `in` return are not known to the
compiler; they are drawn from an oracle stream `ω : Nat → BitVec 64` in call order.
-/
namespace ChibiVerif.Spec.Ctl

abbrev Val := BitVec 64

inductive Event where
  | m (k : Nat)
  | c (k : Nat)
  | inp (k : Nat)
  deriving Repr, DecidableEq, Inhabited

/-- Source statements.  `seq`/`skip` spell the item list of a compound statement
    (`{ a b c }` = `block (seq a (seq b (seq c skip)))`); `block` is the pair of braces.
    `for_ init cond inc body`: `init`/`inc` are marker calls `m(k)`, `cond` a call `c(k)`, each
    optional; `while (c(k)) body` is `for_ none (some k) none body`.
    `switch_ w64 uns k body`: `switch ((T)in(k)) body` where `T` is the promoted controlling
    type: 32 or 64 bits wide, signed or unsigned.  `case_ lo hi s`: `case lo ... hi: s`
    (`lo = hi` for an ordinary `case`), the constants as parsed into a C `long`. -/
inductive SStmt where
  | skip
  | marker (k : Nat)
  | seq (a b : SStmt)
  | block (s : SStmt)
  | ifte (c : Nat) (t e : SStmt)
  | for_ (init cond inc : Option Nat) (body : SStmt)
  | doWhile (body : SStmt) (c : Nat)
  | switch_ (w64 uns : Bool) (k : Nat) (body : SStmt)
  | case_ (lo hi : Val) (s : SStmt)
  | default_ (s : SStmt)
  | break_
  | continue_
  | goto_ (l : Nat)
  | gotoVal (l : Nat)            -- `goto *&&L;`
  | label (l : Nat) (s : SStmt)
  | ret
  deriving Repr, DecidableEq, Inhabited

/-- spec state: position in the oracle stream and the trace so far -/
structure SState where
  oi : Nat
  tr : List Event
  deriving Repr, DecidableEq

def SState.emit (σ : SState) (e : Event) : SState := { σ with tr := σ.tr ++ [e] }

def SState.emitOpt (σ : SState) : Option Nat → SState
  | none => σ
  | some k => σ.emit (.m k)

/-- a call of `c`/`in`: logs the event, consumes one oracle value -/
def SState.call (σ : SState) (ω : Nat → Val) (e : Event) : Val × SState :=
  (ω σ.oi, { oi := σ.oi + 1, tr := σ.tr ++ [e] })

/-- truth of an `int` result -/
def truth (v : Val) : Bool := v.setWidth 32 != 0#32

/-- value of the 64-bit pattern `x` converted to the controlling type, as an integer -/
def toT (w64 uns : Bool) (x : Val) : Int :=
  match w64, uns with
  | true, false => x.toInt
  | true, true => x.toNat
  | false, false => (x.setWidth 32).toInt
  | false, true => (x.setWidth 32).toNat

/-- `case lo ... hi` selects `v` (all three converted to the controlling type) -/
def caseMatches (w64 uns : Bool) (lo hi v : Val) : Bool :=
  decide (toT w64 uns lo ≤ toT w64 uns v) && decide (toT w64 uns v ≤ toT w64 uns hi)

inductive Outcome where
  | normal | brk | cont | ret
  deriving Repr, DecidableEq

inductive Res where
  | done (o : Outcome) (σ : SState)
  | timeout (σ : SState)          -- fuel exhausted: `σ` is a prefix of the behaviour
  | unsupported                   -- outside the fragment this machine gives meaning to
  deriving Repr, DecidableEq

/-! ### the body of a `switch` as a list of labelled items -/

/-- the statements of a compound statement in order (braces and `seq` are transparent) -/
def items : SStmt → List SStmt
  | .skip => []
  | .seq a b => items a ++ items b
  | .block s => items s
  | s => [s]

def seqOf : List SStmt → SStmt
  | [] => .skip
  | a :: r => .seq a (seqOf r)

/-- does the label prefix of an item contain a `case` selecting `v` / a `default` -/
def hasCase (w64 uns : Bool) (v : Val) : SStmt → Bool
  | .case_ lo hi s => caseMatches w64 uns lo hi v || hasCase w64 uns v s
  | .default_ s => hasCase w64 uns v s
  | _ => false

def hasDefault : SStmt → Bool
  | .case_ _ _ s => hasDefault s
  | .default_ _ => true
  | _ => false

/-- the items from the first one satisfying `p` on -/
def dropUntil (p : SStmt → Bool) : List SStmt → Option (List SStmt)
  | [] => none
  | a :: r => if p a then some (a :: r) else dropUntil p r

/-- 6.8.4.2p5: jump to the statement following the matching `case`, else to `default`, else
    past the body -/
def select (w64 uns : Bool) (v : Val) (its : List SStmt) : Option (List SStmt) :=
  match dropUntil (hasCase w64 uns v) its with
  | some r => some r
  | none => dropUntil hasDefault its

/-! ### the fragment: `switch` bodies whose `case`/`default` labels prefix top-level items -/

/-- no `case`/`default` outside a nested `switch` -/
def noFreeCase : SStmt → Bool
  | .seq a b => noFreeCase a && noFreeCase b
  | .block s => noFreeCase s
  | .ifte _ t e => noFreeCase t && noFreeCase e
  | .for_ _ _ _ b => noFreeCase b
  | .doWhile b _ => noFreeCase b
  | .case_ _ _ _ => false
  | .default_ _ => false
  | .label _ s => noFreeCase s
  | _ => true

/-- an item of a `switch` body without its `case`/`default` prefix -/
def core : SStmt → SStmt
  | .case_ _ _ s => core s
  | .default_ s => core s
  | s => s

def prefixCases : SStmt → List (Val × Val)
  | .case_ lo hi s => (lo, hi) :: prefixCases s
  | .default_ s => prefixCases s
  | _ => []

def prefixDefaults : SStmt → Nat
  | .case_ _ _ s => prefixDefaults s
  | .default_ s => prefixDefaults s + 1
  | _ => 0

/-- two case ranges have no value in common (6.8.4.2p3), in the controlling type -/
def disjoint (w64 uns : Bool) (a b : Val × Val) : Bool :=
  decide (toT w64 uns a.2 < toT w64 uns b.1) || decide (toT w64 uns b.2 < toT w64 uns a.1)

def pairwiseDisjoint (w64 uns : Bool) : List (Val × Val) → Bool
  | [] => true
  | a :: r => r.all (disjoint w64 uns a) && pairwiseDisjoint w64 uns r

/-- what this machine requires of a `switch` body: every `case`/`default` of the switch
    prefixes a top-level item; ranges are non-empty in the controlling type; no two
    `case`s overlap; at most one `default` -/
def switchOK (w64 uns : Bool) (its : List SStmt) : Bool :=
  its.all (fun it => noFreeCase (core it)) &&
  (its.flatMap prefixCases).all (fun c => decide (toT w64 uns c.1 ≤ toT w64 uns c.2)) &&
  pairwiseDisjoint w64 uns (its.flatMap prefixCases) &&
  decide ((its.map prefixDefaults).sum ≤ 1)

/-- the statically checkable fragment (the restriction of `C03_preserve_partial`) -/
def structured : SStmt → Bool
  | .seq a b => structured a && structured b
  | .block s => structured s
  | .ifte _ t e => structured t && structured e
  | .for_ _ _ _ b => structured b
  | .doWhile b _ => structured b
  | .switch_ w64 uns _ b => switchOK w64 uns (items b) && structured b
  | .case_ _ _ s => structured s
  | .default_ s => structured s
  | .label _ s => structured s
  | .goto_ _ => false
  | .gotoVal _ => false
  | _ => true

/-! ### big-step execution with fuel

Every recursive call decrements the fuel; a loop iteration re-executes the loop statement
(without its `init`).  `case`/`default`/ordinary labels are transparent when control flows
through them. -/

def exec (ω : Nat → Val) : Nat → SStmt → SState → Res
  | 0, _, σ => .timeout σ
  | n + 1, s, σ =>
    match s with
    | .skip => .done .normal σ
    | .marker k => .done .normal (σ.emit (.m k))
    | .seq a b =>
      match exec ω n a σ with
      | .done .normal σ1 => exec ω n b σ1
      | r => r
    | .block s => exec ω n s σ
    | .ifte c t e =>
      let (v, σ1) := σ.call ω (.c c)
      if truth v then exec ω n t σ1 else exec ω n e σ1
    | .for_ (some i) c inc body => exec ω n (.for_ none c inc body) (σ.emit (.m i))
    | .for_ none c inc body =>
      let go (σ1 : SState) : Res :=
        match exec ω n body σ1 with
        | .done .normal σ2 => exec ω n (.for_ none c inc body) (σ2.emitOpt inc)
        | .done .cont σ2 => exec ω n (.for_ none c inc body) (σ2.emitOpt inc)
        | .done .brk σ2 => .done .normal σ2
        | r => r
      match c with
      | none => go σ
      | some k =>
        let (v, σ1) := σ.call ω (.c k)
        if truth v then go σ1 else .done .normal σ1
    | .doWhile body c =>
      let test (σ2 : SState) : Res :=
        let (v, σ3) := σ2.call ω (.c c)
        if truth v then exec ω n (.doWhile body c) σ3 else .done .normal σ3
      match exec ω n body σ with
      | .done .normal σ2 => test σ2
      | .done .cont σ2 => test σ2
      | .done .brk σ2 => .done .normal σ2
      | r => r
    | .switch_ w64 uns k body =>
      if switchOK w64 uns (items body) then
        let (v, σ1) := σ.call ω (.inp k)
        match select w64 uns v (items body) with
        | none => .done .normal σ1
        | some rest =>
          match exec ω n (seqOf rest) σ1 with
          | .done .brk σ2 => .done .normal σ2
          | r => r
      else .unsupported
    | .case_ _ _ s => exec ω n s σ
    | .default_ s => exec ω n s σ
    | .break_ => .done .brk σ
    | .continue_ => .done .cont σ
    | .goto_ _ => .unsupported
    | .gotoVal _ => .unsupported
    | .label _ s => exec ω n s σ
    | .ret => .done .ret σ

end ChibiVerif.Spec.Ctl
