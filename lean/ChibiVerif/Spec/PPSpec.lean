/-
C11 6.10.3 – 6.10.3.4 (macro replacement) as an executable specification, written in the phases of the standard:

  6.10.3p10-12  argument identification (matching parentheses, top-level commas, variable arguments)
  6.10.3.1      a parameter that is not an operand of `#`/`##` is replaced by the *completely macro-replaced*
                argument (as if it were the rest of the file)
  6.10.3.2      `#` parameter  ->  one string literal: white space between the argument's tokens becomes one space,
                leading/trailing white space is deleted, `"` and `\` *inside string literals and character constants*
                are escaped
  6.10.3.3      a parameter that is an operand of `##` is replaced by the unexpanded argument, or by a
                PLACEMARKER if the argument is empty; then every `##` of the replacement list is applied left to
                right (placemarker ## x = x, x ## placemarker = x, placemarker ## placemarker = placemarker);
                finally placemarkers are removed
  6.10.3.4      the result is rescanned together with the rest of the file; the name of the macro being replaced
                is not replaced again ("painted blue": the token is never available for replacement again)

plus the extensions the property names: `__VA_OPT__` (C2x 6.10.3.1) and GNU `, ## __VA_ARGS__`
(the comma is deleted when the variable argument is absent; otherwise `##` does nothing).

This file does not use hide sets.  "Painted blue" is recorded on the token itself (`hide := [own name]`, all other
hide sets are empty); nesting is a stack of end markers in the rescan buffer, the way the standard words it
("nested replacements").  Where 6.10.3.4p4 leaves the result unspecified (an invocation that starts inside one
replacement list and takes its arguments from beyond its end) the run is flagged `crossed`.

Definition parsing (`#define` lines) is shared with Model/PP.lean: it is not the part under test here.
-/
import ChibiVerif.Model.PP

namespace ChibiVerif.Spec.PPSpec
open ChibiVerif.PP

/-! ## 6.10.3.2  the `#` operator -/

def escapeLit (s : String) : String :=
  String.ofList (s.toList.flatMap fun c => if c == '\\' || c == '"' then ['\\', c] else [c])

/-- spelling of one token inside a stringized argument: string literals and character constants are escaped -/
def strPiece (t : Tok) : String :=
  if t.kind == .str || t.kind == .other then escapeLit t.text else t.text

/-- white space before a token: a space or a new-line (6.10.3p10: inside an invocation new-line is white space) -/
def spaced (t : Tok) : Bool := t.hasSpace || t.atBol

def stringizeText : List Tok → String
  | [] => ""
  | t :: ts => ts.foldl (fun acc u => acc ++ (if spaced u then " " else "") ++ strPiece u) (strPiece t)

def stringizeSpec (hash : Tok) (arg : List Tok) : Tok :=
  { kind := .str, text := "\"" ++ stringizeText arg ++ "\"", hasSpace := hash.hasSpace, atBol := hash.atBol }

/-! ## the replacement list, parsed -/

inductive Item where
  | lit (t : Tok)
  | op                                   -- `##`
  | par (t : Tok) (a : String)           -- an occurrence of parameter `a` (`t` is the parameter token)
  | strz (h : Tok) (a : String)          -- `# a`
  | gnuComma (c : Tok) (a : String)      -- `, ## __VA_ARGS__`   [GNU]
  | vaopt (content : List Tok)           -- `__VA_OPT__ ( content )`   [C2x]
  deriving Repr

/-- the tokens of a balanced `( ... )` group after the `(`: content and what follows the matching `)` -/
def matchParen : Nat → List Tok → Option (List Tok × List Tok)
  | _, [] => none
  | level, t :: rest =>
    if level == 0 && t.text == ")" then some ([], rest)
    else
      let level' := if t.text == "(" then level + 1 else if t.text == ")" then level - 1 else level
      (matchParen level' rest).map fun (c, r) => (t :: c, r)

def isParam (args : List MacroArg) (t : Tok) : Bool := args.any (fun a => a.name == t.text)
def isVaParam (args : List MacroArg) (t : Tok) : Bool :=
  match args.find? (fun a => a.name == t.text) with
  | some a => a.isVa
  | none => false

/-- parse a replacement list (`isFn`: `#` is an operator only in function-like macros) -/
def parseBody (isFn : Bool) (args : List MacroArg) : Nat → List Tok → Except Err (List Item)
  | _, [] => .ok []
  | 0, _ :: _ => .error .fuel
  | n + 1, t :: rest =>
    if t.text == "#" && isFn then
      match rest with
      | p :: rest' => if isParam args p then (parseBody isFn args n rest').map (Item.strz t p.text :: ·) else .error .hashNotParam
      | [] => .error .hashNotParam
    else if t.text == "," && textIs rest.head? "##" && ((rest.drop 1).head?.map (isVaParam args)).getD false then
      match rest.drop 1 with
      | p :: rest' => (parseBody isFn args n rest').map (Item.gnuComma t p.text :: ·)
      | [] => .ok []
    else if t.text == "##" then (parseBody isFn args n rest).map (Item.op :: ·)
    else if isParam args t then (parseBody isFn args n rest).map (Item.par t t.text :: ·)
    else if t.text == "__VA_OPT__" && textIs rest.head? "(" then
      match matchParen 0 (rest.drop 1) with
      | none => .error .prematureEnd
      | some (c, rest') => (parseBody isFn args n rest').map (Item.vaopt c :: ·)
    else (parseBody isFn args n rest).map (Item.lit t :: ·)

def isOp : Item → Bool
  | .op => true
  | _ => false

/-! ## 6.10.3.1 / 6.10.3.3  substitution with placemarkers -/

inductive Elem where
  | tok (t : Tok)
  | pm            -- placemarker preprocessing token
  | op            -- a `##` of the replacement list
  deriving DecidableEq, Repr

def argToks (args : List MacroArg) (a : String) : List Tok :=
  match args.find? (fun x => x.name == a) with
  | some x => x.toks
  | none => []

def rawOrPlacemarker (ts : List Tok) : List Elem := if ts.isEmpty then [.pm] else ts.map .tok

/-- the spacing of a substituted parameter is that of the parameter in the replacement list -/
def withSpacingOf (p : Tok) (ts : List Tok) : List Tok := setHeadFlags ts p.atBol p.hasSpace

def combine (lx : String → LexOne) : Elem → Elem → Except Err Elem
  | .pm, .pm => .ok .pm
  | .pm, .tok t => .ok (.tok t)
  | .tok t, .pm => .ok (.tok t)
  | .tok a, .tok b => (paste lx a b).map .tok
  | _, _ => .error .pasteInvalid      -- `##` as an operand of `##`

/-- 6.10.3.3p3: every `##` is deleted and the preceding token is concatenated with the following one, left to right.
    `done` holds what lies to the left, newest first. -/
def pasteAll (lx : String → LexOne) : List Elem → List Elem → Except Err (List Elem)
  | [], done => .ok done.reverse
  | .op :: rest, done =>
    match done, rest with
    | [], _ => .error .pasteAtStart
    | _, [] => .error .pasteAtEnd
    | l :: done', r :: rest' =>
      match combine lx l r with
      | .error e => .error e
      | .ok x => pasteAll lx rest' (x :: done')
  | e :: rest, done => pasteAll lx rest (e :: done)

def dropPlacemarkers (es : List Elem) : List Tok :=
  es.filterMap fun e => match e with | .tok t => some t | _ => none

/-- the parameters that occur as plain (fully macro-replaced) operands, in order of first occurrence -/
def plainParams : Bool → List Item → List String
  | _, [] => []
  | prevOp, .par _ a :: rest =>
    if prevOp || (rest.head?.map isOp).getD false then plainParams false rest else a :: plainParams false rest
  | _, .op :: rest => plainParams true rest
  | _, _ :: rest => plainParams false rest

/-- substitution of one parsed replacement list (phase 6.10.3.1 + operands of 6.10.3.2/3): `full a` is the
    completely macro-replaced argument `a`; `inner` handles the content of `__VA_OPT__`; `vaP`: the variable argument
    "has tokens" — judged after its macro replacement (C2x 6.10.4.1: with `#define EMP`, `F(EMP)` has none) -/
def substItems (args : List MacroArg) (vaP : Bool) (full : String → List Tok) (inner : List Tok → Except Err (List Tok)) :
    Bool → List Item → Except Err (List Elem)
  | _, [] => .ok []
  | prevOp, it :: rest =>
    let nextOp := (rest.head?.map isOp).getD false
    let here : Except Err (List Elem) :=
      match it with
      | .lit t => .ok [.tok t]
      | .op => .ok [.op]
      | .strz h a => .ok [.tok (stringizeSpec h (argToks args a))]
      | .par p a =>
        if prevOp || nextOp then .ok (rawOrPlacemarker (if nextOp then withSpacingOf p (argToks args a) else argToks args a))
        else .ok ((withSpacingOf p (full a)).map .tok)
      | .gnuComma c a => .ok (if (argToks args a).isEmpty then [] else .tok c :: (argToks args a).map .tok)
      | .vaopt c => if vaP then (inner c).map (·.map .tok) else .ok []
    match here with
    | .error e => .error e
    | .ok es => (substItems args vaP full inner (isOp it) rest).map (es ++ ·)

/-- a `##` shall not occur at the beginning or at the end of a replacement list (6.10.3.3p1) -/
def checkEnds (items : List Item) : Except Err Unit :=
  if (items.head?.map isOp).getD false then .error .pasteAtStart
  else if (items.getLast?.map isOp).getD false then .error .pasteAtEnd
  else .ok ()

/-- 6.10.3.1–6.10.3.3 for one replacement list, given the completely macro-replaced arguments.
    Fuel only bounds the nesting of `__VA_OPT__`. -/
def substPhases (lx : String → LexOne) (isFn : Bool) (args : List MacroArg) (vaP : Bool) (full : String → List Tok) :
    Nat → List Tok → Except Err (List Tok)
  | 0, _ => .error .fuel
  | n + 1, body =>
    match parseBody isFn args (body.length + 1) body with
    | .error e => .error e
    | .ok items =>
      match checkEnds items with
      | .error e => .error e
      | .ok _ =>
        match substItems args vaP full (substPhases lx isFn args vaP full n) false items with
        | .error e => .error e
        | .ok es => (pasteAll lx es []).map dropPlacemarkers

/-- the plain parameters of a replacement list including those inside `__VA_OPT__` contents -/
def plainParamsDeep (isFn : Bool) (args : List MacroArg) : Nat → List Tok → List String
  | 0, _ => []
  | n + 1, body =>
    match parseBody isFn args (body.length + 1) body with
    | .error _ => []
    | .ok items =>
      plainParams false items ++
        (items.flatMap fun it => match it with
          | .vaopt c => plainParamsDeep isFn args n c
          | _ => [])

/-- **`Spec.subst`**: the replacement of one invocation before rescanning, for a pure argument expander -/
def subst (lx : String → LexOne) (full : List Tok → List Tok) (isFn : Bool) (body : List Tok) (args : List MacroArg) :
    Except Err (List Tok) :=
  substPhases lx isFn args (args.any fun a => a.isVa && !(full a.toks).isEmpty) (fun a => full (argToks args a))
    (body.length + 1) body

/-! ## 6.10.3.4  rescanning -/

structure SSt where
  defs : List (String × Macro) := []
  counter : Nat := 0
  file : String := "t.c"
  /-- some invocation took its arguments from beyond the end of the replacement list it started in (6.10.3.4p4) -/
  crossed : Bool := false
  /-- some invocation of a macro using `__VA_OPT__` had a variable argument with tokens that all disappear under
      macro replacement (`#define EMP` / `F(EMP)`): present for chibicc's test, absent for C2x -/
  vaoptGap : Bool := false

/-- 6.10p2 / 6.10.3p9-10: a directive is the `#` and the tokens up to the end of that line; `# define name
    replacement-list` is object-like, `# define name( params ) replacement-list` (no white space before the `(`)
    function-like.  Only the definition directives are specified here (6.10.1/6.10.2 belong to C10). -/
def specDirective (st : SSt) (ts : List Tok) : Except Err (SSt × List Tok) :=
  let (line, rest) := copyLine ts
  match line with
  | [] => .ok (st, rest)                                           -- null directive (6.10.7)
  | d :: r =>
    if d.text == "define" then
      match r with
      | [] => .error .macroNameNotIdent
      | name :: r2 =>
        if name.kind != .ident then .error .macroNameNotIdent
        else match r2 with
          | lp :: r3 =>
            if lp.text == "(" && !lp.hasSpace then
              match readMacroParams .first r3 with
              | .error e => .error e
              | .ok (ps, va, body) => .ok ({ st with defs := (name.text, Macro.fn ps va body) :: st.defs }, rest)
            else .ok ({ st with defs := (name.text, Macro.obj r2) :: st.defs }, rest)
          | [] => .ok ({ st with defs := (name.text, Macro.obj []) :: st.defs }, rest)
    else if d.text == "undef" then
      match r with
      | [name] => if name.kind != .ident then .error .macroNameNotIdent
                  else .ok ({ st with defs := st.defs.filter (fun x => x.1 != name.text) }, rest)
      | _ => .error .macroNameNotIdent
    else if d.text == "error" then .error .errorDirective
    else .error .unsupportedDirective

/-- rescan buffer: tokens, and markers "the replacement list of `name` ends here" -/
inductive RItem where
  | tok (t : Tok)
  | endOf (name : String)
  deriving Repr

def isBlue (t : Tok) : Bool := hidesetContains t.hide t.text
def paintBlue (t : Tok) : Tok := { t with hide := [t.text] }

/-- is the next token (looking through end markers) a `(`?  Returns what follows it and the markers passed. -/
def findLParen : List RItem → List String → Option (List RItem × List String)
  | [], _ => none
  | .endOf n :: rest, passed => findLParen rest (n :: passed)
  | .tok t :: rest, passed => if t.text == "(" then some (rest, passed) else none

/-- argument identification on the rescan buffer: the token lists between top-level commas up to the matching `)`.
    `cur` is the current argument (newest first), `done` the finished ones (newest first).
    `nNamed` named parameters; once they are filled the rest (commas included) belongs to the variable argument
    of a variadic macro; otherwise every top-level comma separates arguments. -/
def collectArgs (nNamed : Nat) (hasVa : Bool) :
    Nat → List RItem → List Tok → List (List Tok) → List String → Option (List (List Tok) × Tok × List RItem × List String)
  | _, [], _, _, _ => none
  | level, .endOf n :: rest, cur, done, passed => collectArgs nNamed hasVa level rest cur done (n :: passed)
  | level, .tok t :: rest, cur, done, passed =>
    if level == 0 && t.text == ")" then some ((cur.reverse :: done).reverse, t, rest, passed)
    else if level == 0 && t.text == "," && !(hasVa && done.length ≥ nNamed) then
      collectArgs nNamed hasVa level rest [] (cur.reverse :: done) passed
    else
      let level' := if t.text == "(" then level + 1 else if t.text == ")" then level - 1 else level
      collectArgs nNamed hasVa level' rest (t :: cur) done passed

/-- match the identified arguments with the parameters (6.10.3p4: the numbers shall agree; a variadic macro may
    be given no variable arguments) -/
def bindArgs (params : List String) (va : Option String) (raw : List (List Tok)) : Except Err (List MacroArg) :=
  let n := params.length
  -- `f()` for a macro without parameters has no argument; for one parameter it has one empty argument
  let raw := if n == 0 && va.isNone && raw == [[]] then [] else raw
  let raw := if n == 0 && va.isSome && raw == [[]] then [] else raw
  if raw.length < n then .error (.expected ",")
  else if raw.length > n + (if va.isSome then 1 else 0) then .error (.expected ")")
  else
    let named := (params.zip raw).map fun (p, ts) => ({ name := p, toks := ts } : MacroArg)
    match va with
    | none => .ok named
    | some v => .ok (named ++ [{ name := v, isVa := true, toks := (raw.drop n).head?.getD [] }])

def removeAll (active : List String) (names : List String) : List String :=
  names.foldl (fun acc n => acc.erase n) active

/-- 6.10.3.4: scan `buf`; `active` are the macros whose replacement lists we are inside of. -/
def rescan (lx : String → LexOne) : Nat → SSt → List String → List RItem → Except Err (List Tok × SSt)
  | _, st, _, [] => .ok ([], st)
  | 0, _, _, _ :: _ => .error .fuel
  | n + 1, st, active, .endOf name :: rest => rescan lx n st (active.erase name) rest
  | n + 1, st, active, .tok t :: rest =>
    let emit (t : Tok) : Except Err (List Tok × SSt) :=
      (rescan lx n st active rest).map fun (out, st') => (t :: out, st')
    -- directives: only for a `#` that comes first on a line of the file itself
    if active.isEmpty && isHash t then
      match specDirective st (rest.filterMap fun i => match i with | .tok t => some t | _ => none) with
      | .error e => .error e
      | .ok (st', rest') => rescan lx n st' [] (rest'.map .tok)
    else if t.kind != .ident || isBlue t then emit t
    else match st.defs.lookup t.text with
    | none => emit t
    | some m =>
      if active.contains t.text then emit (paintBlue t)
      else match m with
      | .builtin b =>
        let (nt, st') := runBuiltin { defs := st.defs, counter := st.counter, file := st.file } b t
        (rescan lx n { st with counter := st'.counter } active rest).map fun (out, s) => (nt :: out, s)
      | .obj body =>
        match subst lx id false body [] with
        | .error e => .error e
        | .ok body' =>
          rescan lx n st (t.text :: active)
            ((setOrigin (if body'.isEmpty then [] else setHeadFlags body' t.atBol t.hasSpace) t).map .tok ++ .endOf t.text :: rest)
      | .fn params va body =>
        match findLParen rest [] with
        | none => emit t
        | some (afterParen, passed0) =>
          match collectArgs params.length va.isSome 0 afterParen [] [] passed0 with
          | none => .error .prematureEnd
          | some (raw, _rparen, rest', passed) =>
            match bindArgs params va raw with
            | .error e => .error e
            | .ok args =>
              let active' := removeAll active passed
              let st := { st with crossed := st.crossed || !passed.isEmpty }
              -- complete macro replacement of the arguments that need it, each once, in order of first use
              let vaName := (args.find? (·.isVa)).map (·.name)
              let usesVaOpt := body.any (fun t => t.text == "__VA_OPT__")
              let needed := (plainParamsDeep true args (body.length + 1) body ++
                (if usesVaOpt then vaName.toList else [])).eraseDups
              let step (acc : Except Err (List (String × List Tok) × SSt)) (a : String) :=
                match acc with
                | .error e => .error e
                | .ok (tbl, st) =>
                  match rescan lx n st active' ((argToks args a).map .tok) with
                  | .error e => .error e
                  | .ok (ts, st') => .ok ((a, ts) :: tbl, st')
              match needed.foldl step (.ok ([], st)) with
              | .error e => .error e
              | .ok (tbl, st') =>
                let vaP := match vaName with
                  | some v => !((tbl.lookup v).getD []).isEmpty
                  | none => false
                let st' := { st' with vaoptGap := st'.vaoptGap ||
                  (usesVaOpt && !vaP && args.any (fun a => a.isVa && !a.toks.isEmpty)) }
                match substPhases lx true args vaP (fun a => (tbl.lookup a).getD []) (body.length + 1) body with
                | .error e => .error e
                | .ok body' =>
                  rescan lx n st' (t.text :: active')
                    ((setOrigin (if body'.isEmpty then [] else setHeadFlags body' t.atBol t.hasSpace) t).map .tok
                      ++ .endOf t.text :: rest')

/-- **`Spec.expand`** on a whole file (token list with `#define`/`#undef` lines), from the table of `init_macros` -/
def expandFileX (fuel : Nat) (ts : List Tok) : Except Err (List Tok × Bool × Bool) :=
  (rescan Lex.lexOne fuel { defs := initDefs, counter := ChibiVerif.Gen.PP.counterStart } [] (ts.map .tok)).map
    fun (out, st) => (out, st.crossed, st.vaoptGap)

def expandFile (fuel : Nat) (ts : List Tok) : Except Err (List Tok) := (expandFileX fuel ts).map (·.1)

/-- from a given table (used by theorems and examples) -/
def expand (fuel : Nat) (defs : List (String × Macro)) (ts : List Tok) : Except Err (List Tok) :=
  (rescan Lex.lexOne fuel { defs := defs } [] (ts.map .tok)).map (·.1)

end ChibiVerif.Spec.PPSpec
