/-
Specification side of C04 for bit-fields: what C11 says a bit-field holds after an assignment.

* C11 6.7.2.1p10: a bit-field is interpreted as having a signed or unsigned integer type consisting of the specified
  number of bits; a `_Bool` bit-field has the semantics of `_Bool` (values 0 and 1, unsigned).
* 6.7.2.1p5 / 6.7.2p5: whether plain `int` (and, as an extension, plain `char`, `short`, `long`) designates a signed
  or unsigned bit-field is implementation-defined; the x86-64 psABI (and gcc) make them signed.
* 6.3.1.3: the stored value is the right operand converted to the type of the bit-field: reduced modulo 2^w for an
  unsigned field (p2); for a signed field that cannot represent it the result is implementation-defined (p3), gcc
  documents "reduced modulo 2^N to be within range of the type".
* 6.5.16p3: the value of the assignment expression is the value of the left operand after the assignment.

Validated against gcc on every run (checklib/C04.py, oracle leg): the value gcc's binary reads back from a field
after `s.f = v` must equal `fieldValue`.
-/
import ChibiVerif.Model.BitField

namespace ChibiVerif.Spec.C04
open ChibiVerif.BitField

/-- is the bit-field of this declared type unsigned? -/
def bfUnsigned : BfType → Bool
  | .bool | .uchar | .ushort | .uint | .ulong => true
  | .char | .short | .int | .long => false

/-- the value (as a 64-bit two's complement number) that a `w`-bit field of declared type `t` holds after `v`
    has been assigned to it: the low `w` bits of `v`, zero- or sign-extended -/
def fieldValue (t : BfType) (w : Nat) (v : BitVec 64) : BitVec 64 :=
  if bfUnsigned t then (v.setWidth w).setWidth 64 else (v.setWidth w).signExtend 64

end ChibiVerif.Spec.C04
