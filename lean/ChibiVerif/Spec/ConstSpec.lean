/- C11 integer constant expressions (6.6p6) on the x86-64 psABI data model: types, usual arithmetic conversions
   and values, written from the standard (6.3.1.1, 6.3.1.3, 6.3.1.8, 6.5.3.3, 6.5.5 - 6.5.15).  Property C07's
   right-hand side.  (Spec/IntSpec.lean of C01 did not exist when this was written; this file is independent of it.)

   Values are mathematical integers (`Int`).  `eval` returns `none` exactly where C11 leaves the expression
   without a value: signed overflow (6.5p5; for constant expressions also the constraint 6.6p4), division or
   remainder by zero, `INT_MIN / -1`, shift count negative or >= width, `<<` of a negative value or out of range.
   Implementation-defined choices follow gcc / the psABI: out-of-range conversion to a signed type wraps
   modulo 2^N (6.3.1.3p3), `>>` of a negative value is arithmetic (6.5.7p5), `char` is signed.
   Core Lean only. -/
namespace ChibiVerif.Spec.Const

/-- integer types (`char` = `signed char` = i8; `long long` = `long` = i64; enum constants are `int`) -/
inductive ITy where
  | bool | i8 | u8 | i16 | u16 | i32 | u32 | i64 | u64
  deriving DecidableEq, Repr

namespace ITy
def bits : ITy → Nat
  | bool => 1 | i8 => 8 | u8 => 8 | i16 => 16 | u16 => 16 | i32 => 32 | u32 => 32 | i64 => 64 | u64 => 64
def signed : ITy → Bool
  | i8 => true | i16 => true | i32 => true | i64 => true | _ => false
/-- size in bytes -/
def size : ITy → Nat
  | bool => 1 | i8 => 1 | u8 => 1 | i16 => 2 | u16 => 2 | i32 => 4 | u32 => 4 | i64 => 8 | u64 => 8
def minV (t : ITy) : Int := if t.signed then -(2 ^ (t.bits - 1)) else 0
def maxV (t : ITy) : Int := if t.signed then 2 ^ (t.bits - 1) - 1 else 2 ^ t.bits - 1
def inRange (t : ITy) (v : Int) : Bool := decide (t.minV ≤ v) && decide (v ≤ t.maxV)
/-- 6.3.1.1p2 integer promotions -/
def promote : ITy → ITy
  | bool => i32 | i8 => i32 | u8 => i32 | i16 => i32 | u16 => i32 | t => t
/-- 6.3.1.8 usual arithmetic conversions (integer part) -/
def common (a b : ITy) : ITy :=
  match a.promote, b.promote with
  | u64, _ => u64 | _, u64 => u64
  | i64, _ => i64 | _, i64 => i64     -- long can represent all values of unsigned int
  | u32, _ => u32 | _, u32 => u32
  | _, _ => i32
/-- 6.3.1.2 / 6.3.1.3 conversion of the value `v` to type `t` -/
def convert (t : ITy) (v : Int) : Int :=
  match t with
  | bool => if v = 0 then 0 else 1
  | t => if t.signed then (v + 2 ^ (t.bits - 1)) % 2 ^ t.bits - 2 ^ (t.bits - 1) else v % 2 ^ t.bits
end ITy

inductive UnOp where | neg | bitnot | lognot | plus
  deriving DecidableEq, Repr
inductive BinOp where
  | add | sub | mul | div | mod | band | bor | bxor | shl | shr | eq | ne | lt | le | gt | ge
  deriving DecidableEq, Repr

/-- integer constant expressions: constants carry their type (integer/character constants, enumeration
    constants, sizeof results) -/
inductive CExpr where
  | lit (t : ITy) (v : Int)
  | un (op : UnOp) (e : CExpr)
  | bin (op : BinOp) (a b : CExpr)
  | land (a b : CExpr)
  | lor (a b : CExpr)
  | cond (c a b : CExpr)
  | cast (t : ITy) (e : CExpr)
  deriving Repr

open ITy in
/-- the C11 type of an expression -/
def typeOf : CExpr → ITy
  | .lit t _ => t
  | .un .lognot _ => i32
  | .un _ e => (typeOf e).promote
  | .bin op a b =>
    match op with
    | .shl | .shr => (typeOf a).promote
    | .eq | .ne | .lt | .le | .gt | .ge => i32
    | _ => common (typeOf a) (typeOf b)
  | .land _ _ => i32
  | .lor _ _ => i32
  | .cond _ a b => common (typeOf a) (typeOf b)
  | .cast t _ => t

/-- result of an arithmetic operator whose mathematical value is `r`, at type `t`: unsigned types reduce modulo
    2^N (6.2.5p9), signed types have no value when `r` is not representable (6.5p5) -/
def arith (t : ITy) (r : Int) : Option Int :=
  if t.signed then (if t.inRange r then some r else none) else some (r % 2 ^ t.bits)

/-- bitwise operators act on the two's-complement representation of the (converted) operands -/
def bitwise (f : BitVec 64 → BitVec 64 → BitVec 64) (t : ITy) (x y : Int) : Int :=
  t.convert ((f (BitVec.ofInt 64 x) (BitVec.ofInt 64 y)).toInt)

def b2z (b : Bool) : Int := if b then 1 else 0

/-- binary operators after the conversions: `x y` are the converted operand values, `t` the result type for
    arithmetic (the common type), or the promoted left type for shifts -/
def binop (op : BinOp) (t : ITy) (x y : Int) : Option Int :=
  match op with
  | .add => arith t (x + y)
  | .sub => arith t (x - y)
  | .mul => arith t (x * y)
  | .div => if y = 0 then none else arith t (x.tdiv y)
  | .mod => if y = 0 then none else if t.signed && !(t.inRange (x.tdiv y)) then none else some (x.tmod y)
  | .band => some (bitwise (· &&& ·) t x y)
  | .bor => some (bitwise (· ||| ·) t x y)
  | .bxor => some (bitwise (· ^^^ ·) t x y)
  | .shl =>
    if y < 0 ∨ y ≥ t.bits then none
    else if t.signed then (if x < 0 then none else if t.inRange (x * 2 ^ y.toNat) then some (x * 2 ^ y.toNat) else none)
    else some ((x * 2 ^ y.toNat) % 2 ^ t.bits)
  | .shr => if y < 0 ∨ y ≥ t.bits then none else some (x / 2 ^ y.toNat)     -- floor: arithmetic shift
  | .eq => some (b2z (x == y))
  | .ne => some (b2z (x != y))
  | .lt => some (b2z (decide (x < y)))
  | .le => some (b2z (decide (x ≤ y)))
  | .gt => some (b2z (decide (x > y)))
  | .ge => some (b2z (decide (x ≥ y)))

/-- unary operators on the promoted operand value `x` of (promoted) type `t` -/
def unop (op : UnOp) (t : ITy) (x : Int) : Option Int :=
  match op with
  | .neg => arith t (-x)
  | .bitnot => some (t.convert ((~~~ (BitVec.ofInt 64 x)).toInt))
  | .lognot => some (b2z (x == 0))
  | .plus => some x

def BinOp.isShift : BinOp → Bool
  | .shl | .shr => true | _ => false

/-- the C11 value; `none` = no value (undefined behaviour / constraint violation).  Operands of `&&`, `||`, `?:`
    that are not evaluated need not have a value (6.6p3, footnote 115). -/
def eval : CExpr → Option Int
  | .lit t v => if t.inRange v then some v else none
  | .un op e =>
    match eval e with
    | none => none
    | some x => unop op (typeOf e).promote x
  | .bin op a b =>
    match eval a, eval b with
    | some x, some y =>
      if op.isShift then binop op (typeOf a).promote x y
      else
        let t := ITy.common (typeOf a) (typeOf b)
        binop op t (t.convert x) (t.convert y)
    | _, _ => none
  | .land a b =>
    match eval a with
    | none => none
    | some x => if x = 0 then some 0 else
      match eval b with
      | none => none
      | some y => some (b2z (y != 0))
  | .lor a b =>
    match eval a with
    | none => none
    | some x => if x ≠ 0 then some 1 else
      match eval b with
      | none => none
      | some y => some (b2z (y != 0))
  | .cond c a b =>
    match eval c with
    | none => none
    | some x =>
      let t := ITy.common (typeOf a) (typeOf b)
      if x ≠ 0 then (eval a).map t.convert else (eval b).map t.convert
  | .cast t e => (eval e).map t.convert

end ChibiVerif.Spec.Const
