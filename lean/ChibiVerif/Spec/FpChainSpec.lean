/-
C11 value of a chain of conversions (C02): `(Tn)…(T2)(T1)x`.

6.5.4p5: "Preceding an expression by a parenthesized type name converts the value of the expression to the named type."
The operand of the outer cast is the *converted* value: the conversions are performed one after the other, each on the result
of the one before; nothing in the standard lets an implementation skip `(T)(F)x` when `T` is the type of `x` (6.3.1.4p2,
6.3.1.5: the value is rounded to the intermediate type; 5.1.2.3p12 / footnote to 6.3.1.8: a cast removes extra range and
precision).  The same holds for the conversions the language inserts (6.5.16.1p2 assignment, 6.8.6.4p3 `return`, 6.5.2.2p7
arguments, 6.3.1.8 / 6.5.15p5 operands): each is "as if by assignment", i.e. one more conversion of the value at hand.

So the specification of a chain is the composition, in order, of `Spec.FpC11.convert` — and the first undefined conversion
(floating → integer out of range) makes the whole undefined.
-/
import ChibiVerif.Spec.FpC11Spec

namespace ChibiVerif.Spec.FpC11
open ChibiVerif.Spec.Fpu

/-- the targets in the order in which the conversions are performed (innermost cast first) -/
def convertChain (F : FpuSpec) (cw : BitVec 16) : List ATy → AVal → Option AVal
  | [], x => some x
  | t :: ts, x => (convert F cw t x).bind (convertChain F cw ts)

/-- type of `(Tn)…(T1)x` with `x : t0` -/
def chainType (t0 : ATy) : List ATy → ATy
  | [] => t0
  | t :: ts => chainType t ts

end ChibiVerif.Spec.FpC11
