/- The floating operations property C07 is stated over: the data part of `FpuSpec` (Spec/FpuSpec.lean) that constant folding
   touches, with the x87 control word already applied to the instructions that read it.  No contracts here: `FpOps` can be
   instantiated by an `FpuSpec` (`FpuSpec.ops`, for the theorems) and by the software implementation the driver runs
   (Model/SoftFp.lean, for the differential legs).  The contracts the theorems assume are `FpOps.Sound`
   (Lemmas/C07FloatLemmas.lean).  Core Lean only. -/
import ChibiVerif.Spec.FpuSpec

namespace ChibiVerif.Spec.Fpu

structure FpOps where
  /- what a datum denotes -/
  val32 : BitVec 32 → Val
  val64 : BitVec 64 → Val
  val80 : BitVec 80 → Val
  /- arithmetic: SSE scalar single / double, x87 (under the program's control word) -/
  addss : BitVec 32 → BitVec 32 → BitVec 32
  subss : BitVec 32 → BitVec 32 → BitVec 32
  mulss : BitVec 32 → BitVec 32 → BitVec 32
  divss : BitVec 32 → BitVec 32 → BitVec 32
  addsd : BitVec 64 → BitVec 64 → BitVec 64
  subsd : BitVec 64 → BitVec 64 → BitVec 64
  mulsd : BitVec 64 → BitVec 64 → BitVec 64
  divsd : BitVec 64 → BitVec 64 → BitVec 64
  fadd : BitVec 80 → BitVec 80 → BitVec 80
  fsub : BitVec 80 → BitVec 80 → BitVec 80
  fmul : BitVec 80 → BitVec 80 → BitVec 80
  fdiv : BitVec 80 → BitVec 80 → BitVec 80
  fchs : BitVec 80 → BitVec 80
  /- integer → floating: the datum of each format nearest to an integer -/
  ofInt32 : Int → BitVec 32
  ofInt64 : Int → BitVec 64
  ofInt80 : Int → BitVec 80
  /- floating ↔ floating -/
  cvtss2sd : BitVec 32 → BitVec 64
  cvtsd2ss : BitVec 64 → BitVec 32
  fld32 : BitVec 32 → BitVec 80
  fld64 : BitVec 64 → BitVec 80
  fst32 : BitVec 80 → BitVec 32
  fst64 : BitVec 80 → BitVec 64

/-- the operations of an `FpuSpec` under the control word `cw` -/
def FpuSpec.ops (F : FpuSpec) (cw : BitVec 16) : FpOps where
  val32 := F.val32
  val64 := F.val64
  val80 := F.val80
  addss := F.addss
  subss := F.subss
  mulss := F.mulss
  divss := F.divss
  addsd := F.addsd
  subsd := F.subsd
  mulsd := F.mulsd
  divsd := F.divsd
  fadd := F.fadd cw
  fsub := F.fsub cw
  fmul := F.fmul cw
  fdiv := F.fdiv cw
  fchs := F.fchs
  ofInt32 := F.ofInt32
  ofInt64 := F.ofInt64
  ofInt80 := F.ofInt80
  cvtss2sd := F.cvtss2sd
  cvtsd2ss := F.cvtsd2ss
  fld32 := F.fld32
  fld64 := F.fld64
  fst32 := F.fst32 cw
  fst64 := F.fst64 cw

end ChibiVerif.Spec.Fpu
