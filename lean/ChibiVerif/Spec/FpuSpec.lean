/-
The assumed behaviour of the SSE and x87 instructions chibicc emits for floating-point code (C02; DESIGN §3.4, §4.4).

Lean cannot carry IEEE-754 arithmetic itself (no formalisation is available offline, and `Float` is opaque to the
kernel).  So the *results* of floating-point instructions are abstract: `FpuSpec` is a structure whose fields are the
operations, together with their Intel-SDM contracts as `Prop` fields.  Every theorem of Props/C02.lean is stated
`∀ F : FpuSpec`: for every FPU that meets the contracts.

What a register or a memory slot holds is a bit pattern (`BitVec 32` / `BitVec 64` / `BitVec 80`): that is what `movq`,
`xorps`, `movss … ; flds …` and the constants of `ND_NUM` act on.  What a pattern *denotes* is abstract too:
`val32/val64/val80 : bits → Val`, where `Val` classifies a datum as NaN, ±∞ or the finite number (−1)^neg · m · 2^e
(m = 0: a signed zero).  The contracts are stated through this classification (e.g. `cvttsd2si` returns the integer
part of the denoted value when that fits, the "integer indefinite" 0x80…0 otherwise).

Validation (checklib/C02.py, every run): the real instructions are executed on the host CPU on the boundary classes of
the property and `drv_c02 contract` decides each contract on the observed (input, output) pairs, reading `val*` as the
IEEE-754 / x87 decoding (`Ieee.decode` below, used only there and by the satisfiability witness).

Intel SDM references: vol. 1 §4.8 (formats), §8.1.5 (x87 control word: RC = bits 11:10, 11b = toward zero),
vol. 2 CVTSI2SD/CVTSI2SS, CVTTSD2SI/CVTTSS2SI ("integer indefinite"), CVTSS2SD, UCOMISD/UCOMISS, COMISD/COMISS and
FCOMI/FUCOMI (ZF,PF,CF = 111 unordered, 000 greater, 001 less, 100 equal), FILD, FIST/FISTP, FLD, FST/FSTP, FCHS,
ADDSS/ADDSD/SUBSS/SUBSD and FADD/FSUB (IEEE-754 results: exact whenever the exact result is representable in the
destination precision; x87: in the precision selected by the PC field), vol. 1 §8.1.5.2 (precision control).
-/
namespace ChibiVerif.Spec.Fpu

/-- outcome of a floating-point comparison `a ? b` -/
inductive Rel where
  | lt | eq | gt | un
  deriving DecidableEq, Repr, Inhabited

def Rel.all : List Rel := [.lt, .eq, .gt, .un]

/-- the relation with the operands exchanged -/
def Rel.swap : Rel → Rel
  | .lt => .gt | .gt => .lt | r => r

/-- what a floating-point datum denotes -/
inductive Val where
  | nan
  | inf (neg : Bool)
  | fin (neg : Bool) (m : Nat) (e : Int)     -- (−1)^neg · m · 2^e
  deriving DecidableEq, Repr, Inhabited

namespace Val

def isNaN : Val → Bool
  | nan => true | _ => false

/-- a zero of either sign -/
def isZero : Val → Bool
  | fin _ 0 _ => true | _ => false

/-- |x| rounded toward zero to a natural number -/
def magTrunc (m : Nat) (e : Int) : Nat :=
  if 0 ≤ e then m * 2 ^ e.toNat else m / 2 ^ (-e).toNat

/-- integer part (toward zero); `none` for NaN and ±∞ -/
def trunc? : Val → Option Int
  | fin neg m e => some (if neg then -(magTrunc m e : Int) else (magTrunc m e : Int))
  | _ => none

/-- the value, when it is an integer -/
def toInt? : Val → Option Int
  | fin neg m e =>
      if 0 ≤ e ∨ m % 2 ^ (-e).toNat = 0 then some (if neg then -(magTrunc m e : Int) else (magTrunc m e : Int)) else none
  | _ => none

/-- the finite value scaled to the common exponent `min e₁ e₂`, as a signed integer -/
def scaled (neg : Bool) (m : Nat) (e e0 : Int) : Int :=
  let a : Int := (m * 2 ^ (e - e0).toNat : Nat)
  if neg then -a else a

/-- IEEE comparison of the denoted values: NaN is unordered with everything, −0 = +0 -/
def cmp : Val → Val → Rel
  | nan, _ => .un
  | _, nan => .un
  | inf n1, inf n2 => if n1 = n2 then .eq else if n1 then .lt else .gt
  | inf n1, fin _ _ _ => if n1 then .lt else .gt
  | fin _ _ _, inf n2 => if n2 then .gt else .lt
  | fin n1 m1 e1, fin n2 m2 e2 =>
      let e0 := min e1 e2
      let a := scaled n1 m1 e1 e0
      let b := scaled n2 m2 e2 e0
      if a < b then .lt else if a = b then .eq else .gt

/-- same class, same sign, same number (two spellings m·2^e of one number are the same value) -/
def same : Val → Val → Bool
  | nan, nan => true
  | inf a, inf b => a == b
  | fin n1 m1 e1, fin n2 m2 e2 => n1 == n2 && scaled false m1 e1 (min e1 e2) == scaled false m2 e2 (min e1 e2)
  | _, _ => false

end Val

/-! ### round to nearest, ties to even, of an integer to `p` significant bits -/

/-- bit length: least `l` with `n < 2^l` -/
def bitLen (n : Nat) : Nat := if n = 0 then 0 else Nat.log2 n + 1

/-- (q, s): the `p` leading bits after rounding the discarded part to nearest-even, and the shift; value = q · 2^s -/
def roundQS (p n : Nat) : Nat × Nat :=
  let l := bitLen n
  if l ≤ p then (n, 0) else
    let s := l - p
    let q := n / 2 ^ s
    let r := n % 2 ^ s
    let half := 2 ^ (s - 1)
    if r > half ∨ (r = half ∧ q % 2 = 1) then (q + 1, s) else (q, s)

def roundNat (p n : Nat) : Nat := (roundQS p n).1 * 2 ^ (roundQS p n).2

def roundInt (p : Nat) (v : Int) : Int := if v < 0 then -(roundNat p v.natAbs : Int) else (roundNat p v.natAbs : Int)

/-! ### conversions to integer as the hardware performs them -/

/-- the "integer indefinite" value of width `n`: 0x80…0 -/
def indefinite (n : Nat) : BitVec n := BitVec.ofInt n (-(2 ^ (n - 1)))

/-- `cvtt*2si` / `fistp` with RC = toward zero: the integer part if it is representable in `n` signed bits, else indefinite -/
def truncTo (n : Nat) (v : Val) : BitVec n :=
  match v.trunc? with
  | some t => if -(2 ^ (n - 1) : Int) ≤ t ∧ t < 2 ^ (n - 1) then BitVec.ofInt n t else indefinite n
  | none => indefinite n

/-- x87 rounding control field of a control word -/
def rc (cw : BitVec 16) : BitVec 2 := cw.extractLsb' 10 2

/-- x87 precision control field of a control word (SDM vol. 1 §8.1.5.2): 11b = double extended precision (64-bit
    significand), the value the psABI prescribes at process start (0x37f) and across calls -/
def pc (cw : BitVec 16) : BitVec 2 := cw.extractLsb' 8 2

/-- (ZF, PF, CF) after `ucomiss/ucomisd/fcomip/fucomip` (SDM) -/
def Rel.flags : Rel → Bool × Bool × Bool
  | .un => (true, true, true)
  | .gt => (false, false, false)
  | .lt => (false, false, true)
  | .eq => (true, false, false)

/-- **The contract.**  Operand order: for the two-operand SSE forms `op src, dst` the first argument below is `dst`
    (result = dst op src); `ucomis src, dst` compares `dst ? src`, given as `ucomis* dst src`.  For x87
    `fxxxp` the first argument is `%st(1)`, the second `%st(0)`; `fcomi` compares `%st(0) ? %st(1)`, given as
    `fcomi st0 st1`. -/
structure FpuSpec where
  /- classification -/
  val32 : BitVec 32 → Val
  val64 : BitVec 64 → Val
  val80 : BitVec 80 → Val
  /- SSE scalar arithmetic -/
  addss : BitVec 32 → BitVec 32 → BitVec 32
  subss : BitVec 32 → BitVec 32 → BitVec 32
  mulss : BitVec 32 → BitVec 32 → BitVec 32
  divss : BitVec 32 → BitVec 32 → BitVec 32
  addsd : BitVec 64 → BitVec 64 → BitVec 64
  subsd : BitVec 64 → BitVec 64 → BitVec 64
  mulsd : BitVec 64 → BitVec 64 → BitVec 64
  divsd : BitVec 64 → BitVec 64 → BitVec 64
  /- x87 arithmetic (control word: precision and rounding control) -/
  fadd : BitVec 16 → BitVec 80 → BitVec 80 → BitVec 80
  fsub : BitVec 16 → BitVec 80 → BitVec 80 → BitVec 80
  fmul : BitVec 16 → BitVec 80 → BitVec 80 → BitVec 80
  fdiv : BitVec 16 → BitVec 80 → BitVec 80 → BitVec 80
  fchs : BitVec 80 → BitVec 80
  fldz : BitVec 80
  /- integer → floating -/
  cvtsi2ss32 : BitVec 32 → BitVec 32
  cvtsi2ss64 : BitVec 64 → BitVec 32
  cvtsi2sd32 : BitVec 32 → BitVec 64
  cvtsi2sd64 : BitVec 64 → BitVec 64
  fild16 : BitVec 16 → BitVec 80
  fild32 : BitVec 32 → BitVec 80
  fild64 : BitVec 64 → BitVec 80
  /-- the datum of each format nearest (ties to even) to an integer: the specification side of integer → floating -/
  ofInt32 : Int → BitVec 32
  ofInt64 : Int → BitVec 64
  ofInt80 : Int → BitVec 80
  /- floating → integer -/
  cvttss2si32 : BitVec 32 → BitVec 32
  cvttss2si64 : BitVec 32 → BitVec 64
  cvttsd2si32 : BitVec 64 → BitVec 32
  cvttsd2si64 : BitVec 64 → BitVec 64
  fistp16 : BitVec 16 → BitVec 80 → BitVec 16
  fistp32 : BitVec 16 → BitVec 80 → BitVec 32
  fistp64 : BitVec 16 → BitVec 80 → BitVec 64
  /- floating ↔ floating -/
  cvtss2sd : BitVec 32 → BitVec 64
  cvtsd2ss : BitVec 64 → BitVec 32
  fld32 : BitVec 32 → BitVec 80
  fld64 : BitVec 64 → BitVec 80
  fst32 : BitVec 16 → BitVec 80 → BitVec 32
  fst64 : BitVec 16 → BitVec 80 → BitVec 64
  /- comparisons -/
  ucomiss : BitVec 32 → BitVec 32 → Rel
  ucomisd : BitVec 64 → BitVec 64 → Rel
  fcomi : BitVec 80 → BitVec 80 → Rel
  /-- `comiss`/`comisd`: the same flag results as `ucomis*` (they differ only in signalling #IA for quiet NaNs) -/
  comiss : BitVec 32 → BitVec 32 → Rel
  comisd : BitVec 64 → BitVec 64 → Rel
  /- ### contracts -/
  /-- the all-zero pattern is +0 in both SSE formats (`xorps %xmm1, %xmm1`), `fldz` pushes +0 -/
  val32_zero : val32 0#32 = .fin false 0 0
  val64_zero : val64 0#64 = .fin false 0 0
  val80_fldz : val80 fldz = .fin false 0 0
  /-- comparisons compare the denoted values; NaN operands are unordered -/
  ucomiss_spec : ∀ a b, ucomiss a b = Val.cmp (val32 a) (val32 b)
  ucomisd_spec : ∀ a b, ucomisd a b = Val.cmp (val64 a) (val64 b)
  fcomi_spec : ∀ a b, fcomi a b = Val.cmp (val80 a) (val80 b)
  /-- truncating conversions: the integer part if representable, the integer indefinite otherwise (also for NaN, ±∞) -/
  cvttss2si32_spec : ∀ x, cvttss2si32 x = truncTo 32 (val32 x)
  cvttss2si64_spec : ∀ x, cvttss2si64 x = truncTo 64 (val32 x)
  cvttsd2si32_spec : ∀ x, cvttsd2si32 x = truncTo 32 (val64 x)
  cvttsd2si64_spec : ∀ x, cvttsd2si64 x = truncTo 64 (val64 x)
  /-- `fistp` under a control word whose RC field is 11b (toward zero) -/
  fistp16_rz : ∀ cw x, rc cw = 3#2 → fistp16 cw x = truncTo 16 (val80 x)
  fistp32_rz : ∀ cw x, rc cw = 3#2 → fistp32 cw x = truncTo 32 (val80 x)
  fistp64_rz : ∀ cw x, rc cw = 3#2 → fistp64 cw x = truncTo 64 (val80 x)
  /-- integer → floating: the *signed* integer operand, rounded to the destination format -/
  cvtsi2ss32_spec : ∀ x, cvtsi2ss32 x = ofInt32 x.toInt
  cvtsi2ss64_spec : ∀ x, cvtsi2ss64 x = ofInt32 x.toInt
  cvtsi2sd32_spec : ∀ x, cvtsi2sd32 x = ofInt64 x.toInt
  cvtsi2sd64_spec : ∀ x, cvtsi2sd64 x = ofInt64 x.toInt
  fild16_spec : ∀ x, fild16 x = ofInt80 x.toInt
  fild32_spec : ∀ x, fild32 x = ofInt80 x.toInt
  fild64_spec : ∀ x, fild64 x = ofInt80 x.toInt
  /-- what `ofInt*` denote: the integer rounded to 24 / 53 / 64 significant bits, nearest-even; sign bit = sign -/
  ofInt32_val : ∀ v : Int, v.natAbs ≤ 2 ^ 64 → (val32 (ofInt32 v)).toInt? = some (roundInt 24 v)
  ofInt64_val : ∀ v : Int, v.natAbs ≤ 2 ^ 64 → (val64 (ofInt64 v)).toInt? = some (roundInt 53 v)
  ofInt80_val : ∀ v : Int, v.natAbs ≤ 2 ^ 64 → (val80 (ofInt80 v)).toInt? = some (roundInt 64 v)
  ofInt32_sign : ∀ v : Int, (ofInt32 v).msb = decide (v < 0)
  ofInt64_sign : ∀ v : Int, (ofInt64 v).msb = decide (v < 0)
  ofInt80_sign : ∀ v : Int, (ofInt80 v).msb = decide (v < 0)
  /-- widening conversions are exact -/
  cvtss2sd_exact : ∀ x, Val.same (val64 (cvtss2sd x)) (val32 x) = true
  fld32_exact : ∀ x, Val.same (val80 (fld32 x)) (val32 x) = true
  fld64_exact : ∀ x, Val.same (val80 (fld64 x)) (val64 x) = true
  /-- … and storing the widened datum back in its own format returns it (the value is representable: no rounding under
      any control word; a signalling NaN would be quieted by the load, hence the restriction) -/
  fst32_fld32 : ∀ cw x, (val32 x).isNaN = false → fst32 cw (fld32 x) = x
  fst64_fld64 : ∀ cw x, (val64 x).isNaN = false → fst64 cw (fld64 x) = x
  /-- `fchs` complements the sign bit and nothing else -/
  fchs_spec : ∀ x, fchs x = x ^^^ (1#80 <<< 79)
  /- ### contracts used by the cells that handle unsigned long at ≥ 2^63 (codegen.c u64f32, u64f64, u64f80, f32u64, f64u64, f80u64) -/
  comiss_spec : ∀ a b, comiss a b = Val.cmp (val32 a) (val32 b)
  comisd_spec : ∀ a b, comisd a b = Val.cmp (val64 a) (val64 b)
  /-- the constants those cells materialise denote 2^63: binary32 0x5f000000 = 2^23·2^40, binary64 0x43e0000000000000 =
      2^52·2^11, and `flds` of the former pushes the extended value 2^63·2^0 -/
  val32_two63 : val32 0x5f000000#32 = .fin false 8388608 40
  val64_two63 : val64 0x43e0000000000000#64 = .fin false 4503599627370496 11
  val80_two63 : val80 (fld32 0x5f000000#32) = .fin false 9223372036854775808 0
  /-- subtraction is exact when the result is representable; here (Sterbenz): x − 2^63 for 2^63 ≤ x < 2^64.  The x87 form
      needs precision control = double extended (with a 24- or 53-bit significand the difference would be rounded). -/
  subss_two63 : ∀ a (t : Int), (val32 a).trunc? = some t → 9223372036854775808 ≤ t → t < 18446744073709551616 →
      (val32 (subss a 0x5f000000#32)).trunc? = some (t - 9223372036854775808)
  subsd_two63 : ∀ a (t : Int), (val64 a).trunc? = some t → 9223372036854775808 ≤ t → t < 18446744073709551616 →
      (val64 (subsd a 0x43e0000000000000#64)).trunc? = some (t - 9223372036854775808)
  fsub_two63 : ∀ cw a (t : Int), pc cw = 3#2 → (val80 a).trunc? = some t → 9223372036854775808 ≤ t → t < 18446744073709551616 →
      (val80 (fsub cw a (fld32 0x5f000000#32))).trunc? = some (t - 9223372036854775808)
  /-- `fildq` of a pattern with the top bit set pushed v − 2^64; adding the constant 2^64 (`fadds` of the binary32
      0x5f800000) in double extended precision is exact and yields the datum of v -/
  fadd_two64 : ∀ cw (v : Int), pc cw = 3#2 → 9223372036854775808 ≤ v → v < 18446744073709551616 →
      fadd cw (ofInt80 (v - 18446744073709551616)) (fld32 0x5f800000#32) = ofInt80 v
  /-- adding a datum to itself is exact (no overflow here): float(k) + float(k) is the datum of 2·round(k) -/
  addss_double : ∀ k : Int, k.natAbs < 2 ^ 63 → addss (ofInt32 k) (ofInt32 k) = ofInt32 (2 * roundInt 24 k)
  addsd_double : ∀ k : Int, k.natAbs < 2 ^ 63 → addsd (ofInt64 k) (ofInt64 k) = ofInt64 (2 * roundInt 53 k)
  /-- the datum nearest to an integer is determined by the integer's sign and rounded value -/
  ofInt32_congr : ∀ a b : Int, a.natAbs ≤ 2 ^ 64 → b.natAbs ≤ 2 ^ 64 → (a < 0 ↔ b < 0) → roundInt 24 a = roundInt 24 b →
      ofInt32 a = ofInt32 b
  ofInt64_congr : ∀ a b : Int, a.natAbs ≤ 2 ^ 64 → b.natAbs ≤ 2 ^ 64 → (a < 0 ↔ b < 0) → roundInt 53 a = roundInt 53 b →
      ofInt64 a = ofInt64 b

/-! ### pure facts about `Val` used by the theorems -/

theorem Val.scaled_zero (neg : Bool) (e e0 : Int) : Val.scaled neg 0 e e0 = 0 := by
  simp [Val.scaled]

/-- comparing with a zero: equal exactly for the two zeros; NaN is unordered -/
theorem Val.cmp_zero_eq (v : Val) (n : Bool) (e : Int) : (Val.cmp v (.fin n 0 e) = .eq) = (v.isZero = true) := by
  cases v with
  | nan => simp [Val.cmp, Val.isZero]
  | inf s => cases s <;> simp [Val.cmp, Val.isZero]
  | fin s m e1 =>
    simp only [Val.cmp, Val.scaled_zero]
    cases m with
    | zero => simp [Val.scaled, Val.isZero]
    | succ k =>
      have hp : (0:Int) < ((k:Int) + 1) * 2 ^ (e1 - min e1 e).toNat :=
        Int.mul_pos (by omega) (Int.pow_pos (by decide))
      cases s <;> simp [Val.scaled, Val.isZero] <;>
        (generalize ((k:Int) + 1) * 2 ^ (e1 - min e1 e).toNat = X at hp ⊢) <;> (repeat' split) <;> simp <;> omega

theorem Val.cmp_zero_un (v : Val) (n : Bool) (e : Int) : (Val.cmp v (.fin n 0 e) = .un) = (v.isNaN = true) := by
  cases v with
  | nan => simp [Val.cmp, Val.isNaN]
  | inf s => cases s <;> simp [Val.cmp, Val.isNaN]
  | fin s m e1 =>
    simp only [Val.cmp, Val.isNaN]
    split <;> (try split) <;> simp

/-- exchanging the operands of a comparison exchanges `<` and `>` -/
theorem Val.cmp_swap (a b : Val) : Val.cmp a b = (Val.cmp b a).swap := by
  cases a with
  | nan => cases b <;> simp [Val.cmp, Rel.swap]
  | inf s =>
    cases b with
    | nan => simp [Val.cmp, Rel.swap]
    | inf t => cases s <;> cases t <;> simp [Val.cmp, Rel.swap]
    | fin t m e => cases s <;> simp [Val.cmp, Rel.swap]
  | fin s m e =>
    cases b with
    | nan => simp [Val.cmp, Rel.swap]
    | inf t => cases t <;> simp [Val.cmp, Rel.swap]
    | fin t m2 e2 =>
      simp only [Val.cmp]
      rw [Int.min_comm e2 e]
      generalize Val.scaled s m e (min e e2) = x
      generalize Val.scaled t m2 e2 (min e e2) = y
      by_cases h1 : x < y
      · have h2 : ¬ y < x := by omega
        have h3 : ¬ y = x := by omega
        simp [h1, h2, h3, Rel.swap]
      · by_cases h4 : x = y
        · subst h4; simp [Rel.swap]
        · have h5 : y < x := by omega
          simp [h1, h4, h5, Rel.swap]

theorem Val.cmp_zero_left_eq (v : Val) (n : Bool) (e : Int) : (Val.cmp (.fin n 0 e) v = .eq) = (v.isZero = true) := by
  rw [Val.cmp_swap, ← Val.cmp_zero_eq v n e]
  cases Val.cmp v (.fin n 0 e) <;> simp [Rel.swap]

/-! ### IEEE-754 / x87 decoding of bit patterns (SDM vol. 1 §4.8)

Used by `drv_c02 contract` to decide the contracts on (input, output) pairs observed on the host CPU, i.e. as the
intended reading of `val32/val64/val80`.  No theorem of Props/C02.lean that quantifies over `FpuSpec` depends on it; the
three absolute theorems `C02_ieee_*` are about exactly these layouts (and the encoders below). -/
namespace Ieee

/-- binary interchange format with `w` exponent bits and `t` trailing significand bits -/
def decodeIeee (w t : Nat) (bits : Nat) : Val :=
  let frac : Nat := bits % 2 ^ t
  let ex : Nat := (bits / 2 ^ t) % 2 ^ w
  let neg : Bool := (bits / 2 ^ (t + w)) % 2 = 1
  let bias : Int := 2 ^ (w - 1) - 1
  if ex = 2 ^ w - 1 then (if frac = 0 then .inf neg else .nan)
  else if ex = 0 then .fin neg frac (1 - bias - t)
  else .fin neg (2 ^ t + frac) (ex - bias - t)

def decode32 (b : BitVec 32) : Val := decodeIeee 8 23 b.toNat
def decode64 (b : BitVec 64) : Val := decodeIeee 11 52 b.toNat

/-- x87 double extended: explicit integer bit; unnormals and pseudo-NaN/∞ are invalid operands (classified `nan`) -/
def decode80 (b : BitVec 80) : Val :=
  let m : Nat := b.toNat % 2 ^ 64
  let ex : Nat := (b.toNat / 2 ^ 64) % 2 ^ 15
  let neg : Bool := (b.toNat / 2 ^ 79) % 2 = 1
  let bias : Int := 16383
  if ex = 32767 then (if m = 2 ^ 63 then .inf neg else .nan)
  else if ex = 0 then .fin neg m (1 - bias - 63)
  else if m < 2 ^ 63 then .nan
  else .fin neg m (ex - bias - 63)

/-! ### IEEE-754 / x87 *encoding* of integers: the intended reading of `ofInt32/ofInt64/ofInt80`

`drv_c02 contract` compares the bits the CPU produced (`cvtsi2ss/sd`, `fild`, the doubling and `fadd` sequences) with these,
so the contracts that are stated as equalities of data (`addss_double`, `fadd_two64`, `ofInt*_congr`) are validated bit for
bit.  Lemmas/FpIeeeLemmas.lean proves, without any `FpuSpec`, that decoding inverts them. -/

/-- binary interchange format (w exponent bits, t trailing significand bits): the datum of the natural number `n`, which must
    have at most t + 1 significant bits and be below 2^(2^(w−1)) (true of every rounded integer of magnitude ≤ 2^64) -/
def encodeNat (w t : Nat) (neg : Bool) (n : Nat) : Nat :=
  let sign := if neg then 2 ^ (w + t) else 0
  if n = 0 then sign else
  let l := bitLen n
  let sig := if l ≤ t + 1 then n * 2 ^ (t + 1 - l) else n / 2 ^ (l - (t + 1))      -- 2^t ≤ sig < 2^(t+1)
  sign + (l - 1 + (2 ^ (w - 1) - 1)) * 2 ^ t + (sig - 2 ^ t)

/-- x87 double extended: 15 exponent bits, 64 significand bits with the integer bit explicit -/
def encodeNat80 (neg : Bool) (n : Nat) : Nat :=
  let sign := if neg then 2 ^ 79 else 0
  if n = 0 then sign else
  let l := bitLen n
  let sig := if l ≤ 64 then n * 2 ^ (64 - l) else n / 2 ^ (l - 64)
  sign + (l - 1 + 16383) * 2 ^ 64 + sig

def ofInt32 (v : Int) : BitVec 32 := BitVec.ofNat 32 (encodeNat 8 23 (decide (v < 0)) (roundNat 24 v.natAbs))
def ofInt64 (v : Int) : BitVec 64 := BitVec.ofNat 64 (encodeNat 11 52 (decide (v < 0)) (roundNat 53 v.natAbs))
def ofInt80 (v : Int) : BitVec 80 := BitVec.ofNat 80 (encodeNat80 (decide (v < 0)) (roundNat 64 v.natAbs))

end Ieee

end ChibiVerif.Spec.Fpu
