/-
C11 6.8.6.4 "The return statement" and psABI 3.2.3 "Returning of Values" — the specification side of C06's return-value
conversion.  Written from the standards, not from chibicc:

  6.8.6.4p3   If a return statement with an expression is executed, the value of the expression is returned to the caller as
              the value of the function call expression.  If the expression has a type different from the return type of the
              function in which it appears, the value is converted as if by assignment to an object having the return type of
              the function.
  6.5.16.1p1  (as if by assignment) arithmetic types convert (6.3.1.2 `_Bool`: 0 iff the value compares equal to 0; 6.3.1.3
              integers; 6.3.1.4/5 floating); a structure or union is assigned only from a value of a compatible structure or
              union type, i.e. it is returned as it is.
  psABI 3.2.3 INTEGER class values are returned in %rax (then %rdx), SSE in %xmm0 (then %xmm1), X87 in %st(0), MEMORY through
              the hidden pointer.  Figure 3.1 / 3.2.3: a `_Bool` held in a register has its truth value in bit 0 and bits 1-7
              zero; **nothing is said about the bits of %rax above the size of the returned type** ("the upper bits are
              undefined" in later revisions of the document): a conforming caller must not rely on them, a conforming callee
              need not clear them.

The value the caller receives is `Spec.IntSpec.convert` / `Spec.FpC11.convert` of the expression's value to the return type.
-/
import ChibiVerif.Spec.C06ArgsSpec

namespace ChibiVerif.Spec.ReturnSpec
open ChibiVerif.Spec.CallArgs

/-- 6.8.6.4p3 with 6.5.16.1p1: the type the value of `return e;` is converted to before it leaves a function with return type
    `rt`; `none`: a structure / union value is handed over unchanged (the expression has that type) -/
def convertedTo (rt : STy) : Option STy :=
  match rt with
  | .agg .. => none
  | t => some t

end ChibiVerif.Spec.ReturnSpec
