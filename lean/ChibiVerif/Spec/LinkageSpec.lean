/-
Specification side of C15: which symbols a translation unit must define and reference.

Written from the standards, not from chibicc's code.  It looks at *all* file-scope declarations of an
identifier at once (the model walks them one at a time and mutates flags).

* C11 6.2.2p3-5  linkage: an identifier first declared `static` has internal linkage; later declarations
                 without `static` (plain for functions, `extern` for both) inherit it; otherwise external.
* C11 6.2.2p7    both internal and external linkage in one unit: undefined → `valid` rejects the unit.
* C11 6.9.2p1-2  an object declaration with an initializer is a definition (even with `extern`); without
                 initializer and without `extern` it is a tentative definition; several tentative definitions
                 and at most one real one make exactly ONE definition, zero-initialised when no real one exists.
* C11 6.2.7p3, 6.9.2p5  the defined object has the composite type: an array length given by any declaration
                 counts; if none gives it, the array has one element.
* C11 6.7.4p6-7  a function declared `inline` on every file-scope declaration and `extern` on none has only an
                 *inline definition*: the unit provides no external definition.  Any declaration without
                 `inline`, or with `extern`, makes the definition an external definition.
* C11 6.7.4p7    "It is unspecified whether a call to the function uses the inline definition or the external
                 definition": chibicc (like gcc for `static inline`) intends a local copy that is emitted
                 exactly when it is referenced from emitted code or data; that choice is written into
                 `fnClass` as `localIfNeeded`.  (gcc -O0 takes the other branch and leaves an undefined reference.)
* GCC manual, "An Inline Function is As Fast As a Macro": a `static inline` function that is never referenced
                 is not emitted; one that is referenced (address taken or called without being inlined) is.
                 A static function that is not declared inline is emitted (gcc -O0, chibicc).
* GCC manual, -fcommon / -fno-common: with -fcommon a tentative definition of an object with external linkage
                 that is not thread-local goes to a common block; otherwise to .bss (.tbss when thread-local).
* psABI x86-64 3.1.2: an array of at least 16 bytes is aligned to at least 16.
-/
import ChibiVerif.Model.Linkage

namespace ChibiVerif.Spec.Linkage
open ChibiVerif.Linkage

structure FnDecl where
  isStatic : Bool
  isExtern : Bool
  isInline : Bool
  body : Option (List BodyItem)
  deriving Repr, Inhabited

structure ObjDecl where
  isStatic : Bool
  isExtern : Bool
  isTls : Bool
  ty : ObjTy
  init : Option (List InitItem)
  deriving Repr, Inhabited

/-- the file-scope declarations of function `f`, in source order -/
def fnDecls (ds : List Decl) (f : Name) : List FnDecl :=
  ds.filterMap (fun d => match d with
    | .func g _ s e i b => if g = f then some ⟨s, e, i, b⟩ else none
    | _ => none)

/-- the file-scope declarations of object `x`, in source order -/
def objDecls (ds : List Decl) (x : Name) : List ObjDecl :=
  ds.filterMap (fun d => match d with
    | .obj y s e t ty init => if y = x then some ⟨s, e, t, ty, init⟩ else none
    | _ => none)

def fnNames (ds : List Decl) : List Name :=
  dedup (ds.filterMap (fun d => match d with | .func f .. => some f | _ => none)).reverse |>.reverse

def objNames (ds : List Decl) : List Name :=
  dedup (ds.filterMap (fun d => match d with | .obj x .. => some x | _ => none)).reverse |>.reverse

/-! ### functions -/

def fnInternal (D : List FnDecl) : Bool := match D with | d :: _ => d.isStatic | [] => false
def fnDefined (D : List FnDecl) : Bool := D.any (·.body.isSome)
/-- the declarations up to and including the definition -/
def uptoDef : List FnDecl → List FnDecl
  | [] => []
  | d :: ds => if d.body.isSome then [d] else d :: uptoDef ds
/-- declared `inline` when the definition is seen (GCC decides at that point whether an unreferenced static
    function may be dropped; a later `inline` redeclaration does not take the emitted code back) -/
def fnInlineAny (D : List FnDecl) : Bool := (uptoDef D).any (·.isInline)
/-- 6.7.4p7: all file-scope declarations say `inline`, none says `extern` -/
def fnInlineDefOnly (D : List FnDecl) : Bool := D.all (fun d => d.isInline && !d.isExtern)

inductive FnClass where
  | globalAlways     -- external definition
  | localAlways      -- static, not inline
  | localIfNeeded    -- static inline, or an inline definition used as a local copy
  deriving DecidableEq, Repr, Inhabited

def fnClass (D : List FnDecl) : FnClass :=
  if fnInternal D then (if fnInlineAny D then .localIfNeeded else .localAlways)
  else if fnInlineDefOnly D then .localIfNeeded
  else .globalAlways

def fnBody (D : List FnDecl) : List BodyItem :=
  match D.findSome? (·.body) with | some b => b | none => []

/-- the functions a body refers to: in expressions and in the initializers of its static locals -/
def initFnRefs (items : List InitItem) : List Name :=
  items.filterMap (fun i => match i with | .ref (.fn f) => some f | _ => none)
def initObjRefs (items : List InitItem) : List Name :=
  items.filterMap (fun i => match i with | .ref (.obj x) => some x | _ => none)

def bodyFnRefs (b : List BodyItem) : List Name :=
  b.flatMap (fun i => match i with
    | .ref (.fn f) => [f]
    | .staticLocal _ _ (some init) => initFnRefs init
    | _ => [])
def bodyObjRefs (b : List BodyItem) : List Name :=
  b.flatMap (fun i => match i with
    | .ref (.obj x) => [x]
    | .staticLocal _ _ (some init) => initObjRefs init
    | _ => [])

/-- functions named in file-scope initializers -/
def fileFnRefs (ds : List Decl) : List Name :=
  ds.flatMap (fun d => match d with | .obj _ _ _ _ _ (some init) => initFnRefs init | _ => [])
def fileObjRefs (ds : List Decl) : List Name :=
  ds.flatMap (fun d => match d with | .obj _ _ _ _ _ (some init) => initObjRefs init | _ => [])

/-- defined functions that are emitted whether referenced or not -/
def alwaysEmitted (ds : List Decl) : List Name :=
  (fnNames ds).filter (fun f => fnDefined (fnDecls ds f) && fnClass (fnDecls ds f) != .localIfNeeded)

/-- what a function that is emitted refers to -/
def succFns (ds : List Decl) (f : Name) : List Name := bodyFnRefs (fnBody (fnDecls ds f))

/-- `Needed ds f`: f is referenced by something that is emitted (reflexive-transitive closure) -/
inductive Needed (ds : List Decl) : Name → Prop where
  | always {f} : f ∈ alwaysEmitted ds → Needed ds f
  | fileRef {f} : f ∈ fileFnRefs ds → Needed ds f
  | step {g f} : Needed ds g → f ∈ succFns ds g → Needed ds f

/-- executable closure: `n` rounds of adding the successors of everything found so far -/
def closeRounds (succ : Name → List Name) : Nat → List Name → List Name
  | 0, s => s
  | n + 1, s => closeRounds succ n (s ++ (s.flatMap succ).filter (fun x => !s.contains x))

def neededList (ds : List Decl) : List Name :=
  closeRounds (succFns ds) ((fnNames ds).length) (dedup (alwaysEmitted ds ++ fileFnRefs ds))

def fnEmitted (ds : List Decl) (f : Name) : Bool :=
  fnDefined (fnDecls ds f) && (neededList ds).contains f

/-! ### objects -/

def objInternal (D : List ObjDecl) : Bool := match D with | d :: _ => d.isStatic | [] => false
def objDefined (D : List ObjDecl) : Bool := D.any (fun d => d.init.isSome || !d.isExtern)
def objTls (D : List ObjDecl) : Bool := D.any (·.isTls)
def objHasInit (D : List ObjDecl) : Bool := D.any (·.init.isSome)

/-- composite type: the size of a declaration that gives the array length, else one element -/
def objSize (D : List ObjDecl) : Nat :=
  match D.find? (fun d => !d.ty.unknownLen) with
  | some d => d.ty.size
  | none => match D with | d :: _ => d.ty.size | [] => 0

def objAlign (D : List ObjDecl) : Nat :=
  let a := D.foldl (fun a d => max a d.ty.align) 1
  if D.any (·.ty.isArray) && decide (objSize D ≥ 16) then max 16 a else a

def objKind (fcommon : Bool) (D : List ObjDecl) : Kind :=
  if objTls D then (if objHasInit D then .tdata else .tbss)
  else if objHasInit D then .data
  else if fcommon && !objInternal D then .common
  else .bss

/-! ### the symbol table -/

/-- every label mentioned by emitted code and data -/
def usedNames (ds : List Decl) : List Name :=
  let fns := (fnNames ds).filter (fnEmitted ds)
  fileFnRefs ds ++ fileObjRefs ds ++
    fns.flatMap (fun f => bodyFnRefs (fnBody (fnDecls ds f)) ++ bodyObjRefs (fnBody (fnDecls ds f)))

/-- names that are only declared in block scope (`extern T x;` in a body) -/
def blockExternNames (ds : List Decl) : List Name :=
  ds.flatMap (fun d => match d with
    | .func _ _ _ _ _ (some b) => b.filterMap (fun i => match i with | .externObj x _ _ => some x | _ => none)
    | _ => [])

def fnSymbol (ds : List Decl) (f : Name) : Option SymEntry :=
  let D := fnDecls ds f
  if fnDefined D then
    match fnClass D with
    | .globalAlways => some ⟨.named f, .global, .text, none, 0⟩
    | .localAlways => some ⟨.named f, .local, .text, none, 0⟩
    | .localIfNeeded => if (neededList ds).contains f then some ⟨.named f, .local, .text, none, 0⟩ else none
  else if (usedNames ds).contains f then some ⟨.named f, .global, .undef, none, 0⟩
  else none

def objSymbol (fcommon : Bool) (ds : List Decl) (x : Name) : Option SymEntry :=
  let D := objDecls ds x
  if objDefined D then
    some ⟨.named x, if objInternal D then .local else .global, objKind fcommon D, some (objSize D), objAlign D⟩
  else if (usedNames ds).contains x then some ⟨.named x, .global, .undef, none, 0⟩
  else none

/-- the named symbols the object file must have (functions first, then objects, then block-scope-only externs) -/
def symbols (fcommon : Bool) (ds : List Decl) : List SymEntry :=
  (fnNames ds).filterMap (fnSymbol ds) ++ (objNames ds).filterMap (objSymbol fcommon ds) ++
  ((dedup (blockExternNames ds)).filter (fun x => !(objNames ds).contains x && (usedNames ds).contains x)).map
    (fun x => (⟨.named x, .global, .undef, none, 0⟩ : SymEntry))

/-! ### validity of a unit (what the theorems assume about the input: "this is C") -/

def fnValid (D : List FnDecl) : Bool :=
  -- at most one definition; no `static` after a non-static first declaration; never `static` with `extern`
  decide ((D.filter (·.body.isSome)).length ≤ 1) &&
  D.all (fun d => !(d.isStatic && d.isExtern)) &&
  (fnInternal D || D.all (fun d => !d.isStatic))

/-- the types of the declarations of one object are C types and compatible with each other beyond what the
    per-declaration conditions of `objValid` say: alignments are positive, and the declarations that leave the array
    length open agree on the element size (C11 6.2.7p1 / 6.7.6.2p6) -/
def tysAgree (D : List ObjDecl) : Bool :=
  D.all (fun d => decide (1 ≤ d.ty.align)) &&
  (match D.find? (fun d => d.ty.unknownLen) with
    | some u => D.all (fun d => !d.ty.unknownLen || d.ty.size == u.ty.size)
    | none => true)

def objValid (D : List ObjDecl) : Bool :=
  decide ((D.filter (·.init.isSome)).length ≤ 1) &&
  D.all (fun d => !(d.isStatic && d.isExtern)) &&
  -- 6.2.2p7: after a `static` first declaration only `static` or `extern` may follow; otherwise no `static`
  (if objInternal D then D.all (fun d => d.isStatic || d.isExtern) else D.all (fun d => !d.isStatic)) &&
  -- 6.7.1p3: thread-local on all declarations or none
  (D.all (·.isTls) || D.all (fun d => !d.isTls)) &&
  -- compatible types: equal alignment and array-ness; equal size wherever the size is known
  D.all (fun d => d.ty.align == (D.headD default).ty.align && d.ty.isArray == (D.headD default).ty.isArray &&
                  (!d.ty.unknownLen || d.ty.isArray) && (d.ty.unknownLen || d.ty.size == objSize D) &&
                  (!d.ty.unknownLen || d.init.isNone)) &&
  tysAgree D

/-- the identifiers of a function body are declared at the point of use: a block-scope `extern` declaration
    counts from its position on -/
def bodyOrdered (fs xs : List Name) : List BodyItem → Bool
  | [] => true
  | .ref (.fn g) :: r => fs.contains g && bodyOrdered fs xs r
  | .ref (.obj x) :: r => xs.contains x && bodyOrdered fs xs r
  | .staticLocal _ _ (some init) :: r =>
    (initFnRefs init).all (fun g => fs.contains g) && (initObjRefs init).all (fun y => xs.contains y) &&
      bodyOrdered fs xs r
  | .staticLocal _ _ none :: r => bodyOrdered fs xs r
  | .str _ :: r => bodyOrdered fs xs r
  | .externObj x _ _ :: r => bodyOrdered fs (x :: xs) r

/-- identifiers are declared before use (C11 6.2.1p7: the scope of an identifier begins just after its declarator) -/
def refsOrdered : List Decl → List Name → List Name → Bool
  | [], _, _ => true
  | .func f _ _ _ _ body :: ds, fs, xs =>
    (match body with | none => true | some b => bodyOrdered (f :: fs) xs b) && refsOrdered ds (f :: fs) xs
  | .obj x _ _ _ _ init :: ds, fs, xs =>
    (match init with
      | none => true
      | some items => (initFnRefs items).all (fun g => fs.contains g) && (initObjRefs items).all (fun y => (x :: xs).contains y)) &&
    refsOrdered ds fs (x :: xs)

/-- the block-scope `extern` declarations of the unit -/
def blockExterns (ds : List Decl) : List (Name × ObjTy) :=
  ds.flatMap (fun d => match d with
    | .func _ _ _ _ _ (some b) => b.filterMap (fun i => match i with | .externObj x _ ty => some (x, ty) | _ => none)
    | _ => [])

/-- a block-scope `extern` declaration of an object that is also declared at file scope has a compatible type
    (C11 6.2.7p2: all declarations that refer to the same object shall have compatible type) -/
def blockExternsAgree (ds : List Decl) : Bool :=
  (blockExterns ds).all (fun p =>
    let D := objDecls ds p.1
    !(objNames ds).contains p.1 ||
      (p.2.align == (D.headD default).ty.align && p.2.isArray == (D.headD default).ty.isArray &&
       (!p.2.unknownLen || p.2.isArray) && (p.2.unknownLen || p.2.size == objSize D)))

/-- **a valid C unit**, as far as linkage is concerned -/
def valid (ds : List Decl) : Bool :=
  (fnNames ds).all (fun f => fnValid (fnDecls ds f)) &&
  (objNames ds).all (fun x => objValid (objDecls ds x)) &&
  -- functions and objects use different identifiers
  (fnNames ds).all (fun f => !(objNames ds).contains f && !(blockExternNames ds).contains f) &&
  refsOrdered ds [] [] &&
  -- 6.9p3: an identifier with internal linkage that is used is defined in the unit
  (fnNames ds).all (fun f => !fnInternal (fnDecls ds f) || fnDefined (fnDecls ds f) || !(usedNames ds).contains f) &&
  blockExternsAgree ds

/-- `valid` without the three conditions that were folded into it (`refsOrdered` instead of the weaker "declared somewhere
    in the body", `tysAgree`, `blockExternsAgree`).  Not used by any theorem: the driver prints it so that the check can
    validate exactly those three conditions against gcc (a unit that is `validCore`, not `valid`, and accepted by gcc would
    show that `valid` says more than "this is C"). -/
def validCore (ds : List Decl) : Bool :=
  (fnNames ds).all (fun f => fnValid (fnDecls ds f)) &&
  (objNames ds).all (fun x =>
    let D := objDecls ds x
    decide ((D.filter (·.init.isSome)).length ≤ 1) && D.all (fun d => !(d.isStatic && d.isExtern)) &&
    (if objInternal D then D.all (fun d => d.isStatic || d.isExtern) else D.all (fun d => !d.isStatic)) &&
    (D.all (·.isTls) || D.all (fun d => !d.isTls)) &&
    D.all (fun d => d.ty.align == (D.headD default).ty.align && d.ty.isArray == (D.headD default).ty.isArray &&
                    (!d.ty.unknownLen || d.ty.isArray) && (d.ty.unknownLen || d.ty.size == objSize D) &&
                    (!d.ty.unknownLen || d.init.isNone))) &&
  (fnNames ds).all (fun f => !(objNames ds).contains f && !(blockExternNames ds).contains f) &&
  (fnNames ds).all (fun f => !fnInternal (fnDecls ds f) || fnDefined (fnDecls ds f) || !(usedNames ds).contains f)

/-! ### regions of the known findings (decidable) -/

/-- chibicc's view of a function: the flags of the FIRST declaration only -/
def fnClassFirst (D : List FnDecl) : FnClass :=
  match D with
  | [] => .globalAlways
  | d :: _ =>
    let st := d.isStatic || (d.isInline && !d.isExtern)
    if st then (if d.isInline then .localIfNeeded else .localAlways) else .globalAlways

/-- C15-inline-flags-frozen (and its harmless mirror image): the class C11 derives from all declarations
    differs from the class the first declaration alone gives -/
def flagsFrozenRegion (ds : List Decl) : Bool :=
  (fnNames ds).any (fun f => fnClass (fnDecls ds f) != fnClassFirst (fnDecls ds f))

/-- the part of `flagsFrozenRegion` that can reach the symbol table: the function is defined in the unit
    (the class of a function that is only declared is never looked at) -/
def flagsFrozenDefRegion (ds : List Decl) : Bool :=
  (fnNames ds).any (fun f => fnDefined (fnDecls ds f) && fnClass (fnDecls ds f) != fnClassFirst (fnDecls ds f))

/-- the known finding proper: C11 requires an external definition, the first declaration was `inline` -/
def inlineFrozenFinding (ds : List Decl) : Bool :=
  (fnNames ds).any (fun f => fnClass (fnDecls ds f) == .globalAlways && fnClassFirst (fnDecls ds f) != .globalAlways)

/-- C15-static-local-in-dead-inline: a static local with an address constant in its initializer inside a
    function that is not emitted -/
def deadStaticLocalRegion (ds : List Decl) : Bool :=
  (fnNames ds).any (fun f => fnDefined (fnDecls ds f) && !fnEmitted ds f &&
    (fnBody (fnDecls ds f)).any (fun i => match i with
      | .staticLocal _ _ (some init) => init.any (fun j => match j with | .ref _ => true | _ => false)
      | _ => false))

/-- the identifiers named by initializers of static locals inside functions that are defined but not emitted -/
def deadStaticLocalRefs (ds : List Decl) : List Name :=
  (fnNames ds).flatMap (fun f =>
    if fnDefined (fnDecls ds f) && !fnEmitted ds f then
      (fnBody (fnDecls ds f)).flatMap (fun i => match i with
        | .staticLocal _ _ (some init) => initFnRefs init ++ initObjRefs init
        | _ => [])
    else [])

/-- the unit defines `n`: an object with a definition, or a function whose code is emitted -/
def definedHere (ds : List Decl) (n : Name) : Bool :=
  ((objNames ds).contains n && objDefined (objDecls ds n)) || ((fnNames ds).contains n && fnEmitted ds n)

/-- C15-static-local-in-dead-inline, exactly where it reaches the symbol table: such an initializer names something
    that nothing emitted refers to and that the unit does not define - the always-emitted anonymous datum then adds an
    undefined reference.  (Inside `deadStaticLocalRegion`; outside this narrower region the extra relocation is to a
    symbol that is in the table anyway.) -/
def deadStaticLocalVisibleRegion (ds : List Decl) : Bool :=
  (deadStaticLocalRefs ds).any (fun n => !(usedNames ds).contains n && !definedHere ds n)

/-- C15-tentative-composite-size: every tentative definition of the object leaves the array length open
    and only a declaration that is not a definition (`extern T x[N];`) gives it -/
def compositeSizeRegion (ds : List Decl) : Bool :=
  (objNames ds).any (fun x =>
    let D := objDecls ds x
    !objHasInit D && objDefined D &&
    (D.filter (fun d => !d.isExtern)).all (·.ty.unknownLen) && D.any (fun e => !e.ty.unknownLen))

/-- C15-extern-init-after-static: `static T x; extern T x = init;` - the extern declaration inherits internal
    linkage (6.2.2p4) and, having an initializer, is the definition -/
def externInitAfterStaticRegion (ds : List Decl) : Bool :=
  (objNames ds).any (fun x =>
    let D := objDecls ds x
    objInternal D && D.any (fun d => d.isExtern && d.init.isSome))

/-- **the scope of the symbol-table theorem**: a valid unit outside the regions of the known findings the code still
    has.  Each region is guarded by the rule that repairs it: once the repair is in /repo (`Rules.asBuilt` is regenerated
    from the source on every run) the region drops out.  The driver prints it so that the check can tell which generated
    units the theorem covers. -/
def symbolsScope [Rules] (ds : List Decl) : Bool :=
  valid ds && (Rules.flagsFollow || !flagsFrozenDefRegion ds) && (Rules.ownedData || !deadStaticLocalVisibleRegion ds) &&
  (Rules.compositeFromDecls || !compositeSizeRegion ds) && (Rules.externInherits || !externInitAfterStaticRegion ds)

/-! ### which address forms are valid for which entity (x86-64 psABI 3.5 code models, ELF TLS ABI)

Outputs considered: non-PIE executable (dynamic or `-static`) from non-PIC or PIC objects; shared library
from PIC objects.  What the compiler knows at the reference: the kind of entity, whether the unit defines
it, and whether it generates position-independent code.  It does not know where an undefined entity will be
defined (another object of the same output, or a shared library). -/

inductive Entity where
  | automatic      -- object with automatic storage (frame slot)
  | vla            -- variable-length array (the frame slot holds a pointer)
  | object         -- object with static storage duration, not thread-local
  | function
  | tlsObject      -- object with thread storage duration
  deriving DecidableEq, Repr, Inhabited

structure RefCtx where
  entity : Entity
  definedHere : Bool
  pic : Bool
  deriving DecidableEq, Repr, Inhabited

def validForm (r : RefCtx) : AddrForm → Bool
  | .rbpRel => r.entity == .automatic
  | .rbpLoad => r.entity == .vla
  -- PC-relative: fine in an executable (copy relocation / PLT address for entities of a shared library);
  -- in position-independent code the symbol may be preempted or the output may be a shared library
  | .ripRel => (r.entity == .object || r.entity == .function) && !r.pic
  | .got => r.entity == .object || r.entity == .function
  -- general dynamic works in every output (the linker relaxes it in executables)
  | .tlsGD => r.entity == .tlsObject
  -- local exec: the offset from the thread pointer is a link-time constant only for TLS blocks of the
  -- executable itself, so the definition must end up in the executable: certain only if this unit defines it
  | .tlsLE => r.entity == .tlsObject && !r.pic && r.definedHere
  -- initial exec: the offset is loaded from the GOT, filled in by the dynamic linker for TLS blocks of the executable
  -- and of every shared library present at start-up (the linker relaxes it to local exec where it can); not for
  -- position-independent code, which may end up in a library loaded by dlopen
  | .tlsIE => r.entity == .tlsObject && !r.pic

open ChibiVerif.Gen.AddrForms in
/-- the contexts gen_addr can be called with -/
def ctxConsistent (c : VarCtx) : Bool :=
  (!c.isVla || c.isLocal) &&                         -- a VLA is always a local
  (!c.isLocal || (!c.isTls && !c.isFunc)) &&         -- locals are neither thread-local nor functions
  (!c.isFunc || !c.isTls)

open ChibiVerif.Gen.AddrForms in
def refCtxOf (c : VarCtx) : RefCtx :=
  { entity := if c.isVla then .vla else if c.isLocal then .automatic else if c.isFunc then .function
              else if c.isTls then .tlsObject else .object,
    definedHere := c.isDefinition, pic := c.fpic }

open ChibiVerif.Gen.AddrForms in
/-- C15-extern-tls-local-exec: non-PIC reference to a thread-local object the unit does not define, for which the
    ladder (regenerated from codegen.c) chooses local exec.  Empty once gen_addr is repaired (the ladder then chooses
    initial exec there): the region is read off the code, not assumed. -/
def externTlsRegion (c : VarCtx) : Bool :=
  !c.isLocal && c.isTls && !c.fpic && !c.isDefinition && addrForm c == some .tlsLE

end ChibiVerif.Spec.Linkage
