/-
Specification side of C11 ("literals have the C11 value, type and encoding").
Independent of the code: written from ISO/IEC 9899:2011 6.4.4.1p5, 6.4.4.2p4, 6.4.4.4, 6.4.5,
Annex D, RFC 3629 (UTF-8) and RFC 2781 (UTF-16), for the LP64 data model of the psABI
(int 32 bits, long and long long 64 bits, char signed, wchar_t = int, char16_t = unsigned short,
char32_t = unsigned int).  Core Lean only; everything is executable.
-/
namespace ChibiVerif.Spec.Literals

-- ------------------------------------------------------------------ 6.4.4.1 integer constants

/-- the types an integer constant can have -/
inductive IntType | int | uint | long | ulong | llong | ullong
  deriving DecidableEq, Repr

def IntType.bits : IntType → Nat
  | .int | .uint => 32
  | _ => 64

def IntType.isSigned : IntType → Bool
  | .int | .long | .llong => true
  | _ => false

/-- "the value can be represented" for a non-negative value (an integer constant has no sign) -/
def IntType.represents (t : IntType) (v : Nat) : Bool :=
  if t.isSigned then v < 2 ^ (t.bits - 1) else v < 2 ^ t.bits

/-- integer-suffix classes -/
inductive Suffix | none | u | l | ul | ll | ull
  deriving DecidableEq, Repr

/-- the suffix contains `u`/`U` -/
def Suffix.hasU : Suffix → Bool
  | .u | .ul | .ull => true
  | _ => false

/-- the suffix contains `l`/`L` or `ll`/`LL` -/
def Suffix.hasL : Suffix → Bool
  | .l | .ll | .ul | .ull => true
  | _ => false

/-- the table of 6.4.4.1p5: column "decimal constant" / column "octal or hexadecimal constant"
    (binary constants, a GNU extension standardised by C23, use the second column) -/
def candidates (decimal : Bool) : Suffix → List IntType
  | .none => if decimal then [.int, .long, .llong] else [.int, .uint, .long, .ulong, .llong, .ullong]
  | .u => [.uint, .ulong, .ullong]
  | .l => if decimal then [.long, .llong] else [.long, .ulong, .llong, .ullong]
  | .ul => [.ulong, .ullong]
  | .ll => if decimal then [.llong] else [.llong, .ullong]
  | .ull => [.ullong]

/-- "The type of an integer constant is the first of the corresponding list in which its value can
    be represented"; `none`: no type in the list represents it (6.4.4.1p6: then it may have an
    extended integer type, otherwise the constant has no type) -/
def litType (decimal : Bool) (s : Suffix) (v : Nat) : Option IntType :=
  (candidates decimal s).find? (fun t => t.represents v)

/-- every spelling of an integer-suffix (6.4.4.1p1: unsigned-suffix `u U`, long-suffix `l L`,
    long-long-suffix `ll LL`, in either order) with its class -/
def suffixSpellings : List (String × Suffix) := [
  ("", .none), ("u", .u), ("U", .u), ("l", .l), ("L", .l), ("ll", .ll), ("LL", .ll),
  ("ul", .ul), ("uL", .ul), ("Ul", .ul), ("UL", .ul), ("lu", .ul), ("lU", .ul), ("Lu", .ul), ("LU", .ul),
  ("ull", .ull), ("uLL", .ull), ("Ull", .ull), ("ULL", .ull), ("llu", .ull), ("llU", .ull), ("LLu", .ull), ("LLU", .ull)]

/-- value of a digit sequence in a base (most significant digit first) -/
def digitsValue (base : Nat) (ds : List Nat) : Nat := ds.foldl (fun a d => a * base + d) 0

-- ------------------------------------------------------------------ 6.4.4.2 floating constants

inductive FloatType | float | double | ldouble
  deriving DecidableEq, Repr

/-- 6.4.4.2p4: unsuffixed `double`, `f F` `float`, `l L` `long double` -/
def floatSuffixType : Option Char → Option FloatType
  | none => some .double
  | some 'f' | some 'F' => some .float
  | some 'l' | some 'L' => some .ldouble
  | _ => none

-- ------------------------------------------------------------------ 6.4.4.4 escapes

/-- simple-escape-sequence: the character after the backslash and the value in an ASCII-based
    execution character set (5.2.2: alert, backspace, form feed, new line, carriage return,
    horizontal tab, vertical tab) -/
def simpleEscapes : List (Char × Nat) := [
  ('\'', 0x27), ('"', 0x22), ('?', 0x3F), ('\\', 0x5C),
  ('a', 7), ('b', 8), ('f', 12), ('n', 10), ('r', 13), ('t', 9), ('v', 11)]

/-- value of a hexadecimal-digit character (6.4.4.1: `0-9 a-f A-F`), by character code -/
def hexDigitValue (b : Nat) : Nat :=
  if 48 ≤ b ∧ b ≤ 57 then b - 48
  else if 97 ≤ b ∧ b ≤ 102 then b - 87
  else b - 55

/-- octal-escape-sequence: one to three octal digits -/
def octalEscape (ds : List Nat) : Nat := digitsValue 8 ds

/-- hexadecimal-escape-sequence: every following hexadecimal digit -/
def hexEscape (ds : List Nat) : Nat := digitsValue 16 ds

-- ------------------------------------------------------------------ RFC 3629 / RFC 2781

/-- RFC 3629 section 3:
      0000 0000-0000 007F | 0xxxxxxx
      0000 0080-0000 07FF | 110xxxxx 10xxxxxx
      0000 0800-0000 FFFF | 1110xxxx 10xxxxxx 10xxxxxx
      0001 0000-0010 FFFF | 11110xxx 10xxxxxx 10xxxxxx 10xxxxxx -/
def utf8 (n : Nat) : List Nat :=
  if n < 0x80 then [n]
  else if n < 0x800 then [0xC0 + n / 0x40, 0x80 + n % 0x40]
  else if n < 0x10000 then [0xE0 + n / 0x1000, 0x80 + n / 0x40 % 0x40, 0x80 + n % 0x40]
  else [0xF0 + n / 0x40000, 0x80 + n / 0x1000 % 0x40, 0x80 + n / 0x40 % 0x40, 0x80 + n % 0x40]

/-- lead byte of a k-byte sequence / continuation byte, as bit patterns -/
def isLead (k b : Nat) : Bool :=
  match k with
  | 1 => b < 0x80                         -- 0xxxxxxx
  | 2 => 0xC0 ≤ b && b ≤ 0xDF             -- 110xxxxx
  | 3 => 0xE0 ≤ b && b ≤ 0xEF             -- 1110xxxx
  | 4 => 0xF0 ≤ b && b ≤ 0xF7             -- 11110xxx
  | _ => false

def isCont (b : Nat) : Bool := 0x80 ≤ b && b ≤ 0xBF   -- 10xxxxxx

def utf8Len (n : Nat) : Nat :=
  if n < 0x80 then 1 else if n < 0x800 then 2 else if n < 0x10000 then 3 else 4

/-- RFC 2781 section 2.1 -/
def utf16 (n : Nat) : List Nat :=
  if n < 0x10000 then [n]
  else
    let u := n - 0x10000
    [0xD800 + u / 0x400, 0xDC00 + u % 0x400]

def isHighSurrogate (w : Nat) : Bool := 0xD800 ≤ w && w ≤ 0xDBFF
def isLowSurrogate (w : Nat) : Bool := 0xDC00 ≤ w && w ≤ 0xDFFF

/-- RFC 2781 section 2.2 -/
def utf16Decode : List Nat → Option Nat
  | [w] => if isHighSurrogate w || isLowSurrogate w then none else some w
  | [w1, w2] =>
    if isHighSurrogate w1 && isLowSurrogate w2 then some (0x10000 + (w1 - 0xD800) * 0x400 + (w2 - 0xDC00)) else none
  | _ => none

/-- a Unicode scalar value -/
def isScalar (n : Nat) : Bool := n < 0xD800 || (0xE000 ≤ n && n < 0x110000)

-- ------------------------------------------------------------------ 6.4.5 string literals

/-- encoding prefixes of string literals -/
inductive StrPrefix | none | u8 | u | U | L
  deriving DecidableEq, Repr

/-- element size in bytes: char, char (UTF-8), char16_t, char32_t, wchar_t -/
def StrPrefix.elemSize : StrPrefix → Nat
  | .none | .u8 => 1
  | .u => 2
  | .U | .L => 4

/-- code units of one source character in a string literal with the given prefix
    (execution character set and wide encodings: UTF-8 / UTF-16 / UTF-32) -/
def encodeChar (p : StrPrefix) (n : Nat) : List Nat :=
  match p with
  | .none | .u8 => utf8 n
  | .u => utf16 n
  | .U | .L => [n]

/-- 6.4.5p5: "If any of the tokens has an encoding prefix, the resulting multibyte character sequence is treated as
    having the same prefix; otherwise, it is treated as a character string literal."  Two different prefixes in one
    sequence are a constraint violation (u8 with a wide one, 6.4.5p2) or implementation-defined (two wide ones): `none`.
    Computed left to right from the prefix seen so far; `C11_join_prefix_spec` proves the declarative reading. -/
def joinPrefixFrom (acc : StrPrefix) : List StrPrefix → Option StrPrefix
  | [] => some acc
  | p :: ps =>
    if acc = .none then joinPrefixFrom p ps
    else if p = .none ∨ p = acc then joinPrefixFrom acc ps
    else Option.none

def joinPrefix (ps : List StrPrefix) : Option StrPrefix := joinPrefixFrom .none ps

-- ------------------------------------------------------------------ 5.1.1.2 translation phases 1 and 2

/-- prepend a character to the first line -/
def consLine {α : Type} (a : α) : List (List α) → List (List α)
  | l :: ls => (a :: l) :: ls
  | [] => [[a]]

/-- physical source lines when CR LF, a lone CR and LF all end a line (phase 1: "end-of-line indicators");
    the last element is the unterminated rest of the text -/
def splitLines {α : Type} [DecidableEq α] (cr lf : α) : List α → List (List α)
  | [] => [[]]
  | [a] => if a = cr ∨ a = lf then [[], []] else [[a]]
  | a :: b :: rest =>
    if a = cr ∧ b = lf then [] :: splitLines cr lf rest
    else if a = cr ∨ a = lf then [] :: splitLines cr lf (b :: rest)
    else consLine a (splitLines cr lf (b :: rest))

/-- lines when only `lf` ends a line -/
def splitOn {α : Type} [DecidableEq α] (lf : α) : List α → List (List α)
  | [] => [[]]
  | a :: rest => if a = lf then [] :: splitOn lf rest else consLine a (splitOn lf rest)

/-- phase 2: "each instance of a backslash character immediately followed by a new-line character is deleted" -/
def unsplice {α : Type} [DecidableEq α] (bsl lf : α) : List α → List α
  | [] => []
  | [a] => [a]
  | a :: b :: rest => if a = bsl ∧ b = lf then unsplice bsl lf rest else a :: unsplice bsl lf (b :: rest)

/-- logical source lines up to blank lines: the first line exactly, the later lines without the empty ones -/
def logicalLines {α : Type} [DecidableEq α] : List (List α) → List (List α)
  | [] => []
  | l :: ls => l :: ls.filter (· ≠ [])

-- ------------------------------------------------------------------ Annex D identifier characters

/-- D.1 ranges of characters allowed in identifiers -/
def annexD1 : List (Nat × Nat) := [
  (0x00A8, 0x00A8), (0x00AA, 0x00AA), (0x00AD, 0x00AD), (0x00AF, 0x00AF), (0x00B2, 0x00B5), (0x00B7, 0x00BA),
  (0x00BC, 0x00BE), (0x00C0, 0x00D6), (0x00D8, 0x00F6), (0x00F8, 0x00FF),
  (0x0100, 0x167F), (0x1681, 0x180D), (0x180F, 0x1FFF),
  (0x200B, 0x200D), (0x202A, 0x202E), (0x203F, 0x2040), (0x2054, 0x2054), (0x2060, 0x206F),
  (0x2070, 0x218F), (0x2460, 0x24FF), (0x2776, 0x2793), (0x2C00, 0x2DFF), (0x2E80, 0x2FFF),
  (0x3004, 0x3007), (0x3021, 0x302F), (0x3031, 0x303F),
  (0x3040, 0xD7FF),
  (0xF900, 0xFD3D), (0xFD40, 0xFDCF), (0xFDF0, 0xFE44), (0xFE47, 0xFFFD),
  (0x10000, 0x1FFFD), (0x20000, 0x2FFFD), (0x30000, 0x3FFFD), (0x40000, 0x4FFFD), (0x50000, 0x5FFFD),
  (0x60000, 0x6FFFD), (0x70000, 0x7FFFD), (0x80000, 0x8FFFD), (0x90000, 0x9FFFD), (0xA0000, 0xAFFFD),
  (0xB0000, 0xBFFFD), (0xC0000, 0xCFFFD), (0xD0000, 0xDFFFD), (0xE0000, 0xEFFFD)]

/-- D.2 ranges of characters not allowed initially -/
def annexD2 : List (Nat × Nat) := [(0x0300, 0x036F), (0x1DC0, 0x1DFF), (0x20D0, 0x20FF), (0xFE20, 0xFE2F)]

def inRanges (t : List (Nat × Nat)) (c : Nat) : Bool := t.any (fun r => r.1 ≤ c && c ≤ r.2)

/-- identifier-nondigit of the basic character set (6.4.2.1: `_ a-z A-Z`), plus `$` (a common extension, J.5.2) -/
def basicNondigit : List (Nat × Nat) := [(0x5F, 0x5F), (0x61, 0x7A), (0x41, 0x5A), (0x24, 0x24)]

def isBasicNondigit (c : Nat) : Bool := inRanges basicNondigit c

def isDigit (c : Nat) : Bool := inRanges [(0x30, 0x39)] c

/-- may start an identifier -/
def identStart (c : Nat) : Bool := isBasicNondigit c || (inRanges annexD1 c && !inRanges annexD2 c)

/-- may continue an identifier -/
def identContinue (c : Nat) : Bool := isBasicNondigit c || isDigit c || inRanges annexD1 c

end ChibiVerif.Spec.Literals
