/-
C11 6.5.2.2 "Function calls" — what happens to the arguments (the specification side of C06's argument conversions).
Written from the standard, not from chibicc:

  6.5.2.2p2   with a prototype the number of arguments shall agree with the number of parameters (constraint → diagnostic);
              each argument shall have a type such that its value may be assigned to an object with the unqualified version of
              the type of its corresponding parameter
  6.5.2.2p6   no prototype: the integer promotions are performed on each argument and arguments of type float are promoted to
              double (the *default argument promotions*)
  6.5.2.2p7   with a prototype the arguments are implicitly converted, as if by assignment, to the types of the corresponding
              parameters; the ellipsis notation causes argument type conversion to stop after the last declared parameter; the
              default argument promotions are performed on trailing arguments
  6.7.6.3p7-8 a parameter declared "array of T" / "function returning T" is adjusted to a pointer
  6.7.6.3p14  an empty list in a declarator that is not a definition specifies that no information about the parameters is
              supplied (a call through it is a call without a prototype)

The result is the *type each argument value has when it is passed*; the value is the C11 conversion of the argument's value to
that type (Spec/IntSpec `convert`, Spec/FpC11Spec `convert`).
-/
import ChibiVerif.Spec.FpC11Spec

namespace ChibiVerif.Spec.CallArgs
open ChibiVerif.Spec.IntSpec ChibiVerif.Spec.FpC11

/-- the types that can be passed: arithmetic types, pointers (after array/function decay), enumerations (compatible with
    `int`), structures / unions (identified by kind and size here; 6.5.2.2p2 requires the argument to have the parameter's type) -/
inductive STy where
  | arith (a : ATy)
  | ptr
  | enum
  | agg (isUnion : Bool) (size : Nat)
  deriving DecidableEq, Repr

inductive Diag where
  | tooFew | tooMany
  deriving DecidableEq, Repr

/-- 6.5.2.2p6: the default argument promotions -/
def defaultPromote : STy → STy
  | .arith (.int t) => .arith (.int (IntSpec.promote t))
  | .arith .f32 => .arith .f64
  | t => t

/-- 6.5.2.2p2/p6/p7: the type with which each argument is passed, for a callee with the parameter types `ps`
    (`variadic`: the list ends in `, ...`, or no prototype is visible and `ps = []`) -/
def passedTypes (ps : List STy) (variadic : Bool) (args : List STy) : Except Diag (List STy) :=
  if args.length < ps.length then .error .tooFew
  else if ps.length < args.length ∧ variadic = false then .error .tooMany
  else .ok (ps ++ (args.drop ps.length).map defaultPromote)

end ChibiVerif.Spec.CallArgs
