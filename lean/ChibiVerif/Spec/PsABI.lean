/-
System V x86-64 psABI, section 3.2.3 "Parameter Passing" and 3.5.7 "Variable Argument Lists", written from the
document and independently of codegen.c.  Only the *types* (`ATy`, `Sig`, `ArgLoc`, `RetLoc`) are shared with the
model.  Executable; validated on every run against gcc 12 and clang 14 (a register-dump callee shows where their
callers really put every byte).

Classification (3.2.3):
  * each eightbyte of an object gets a class; scalars: integers/pointers INTEGER, float/double SSE,
    long double X87 + X87UP;
  * aggregates: larger than eight eightbytes or with unaligned fields → MEMORY; otherwise every eightbyte starts as
    NO_CLASS, each field is classified recursively and merged into the eightbytes it occupies
    (merge: equal → itself; NO_CLASS yields; MEMORY wins; INTEGER wins; X87/X87UP/COMPLEX_X87 → MEMORY; otherwise SSE);
  * post merger: any MEMORY → MEMORY; X87UP not preceded by X87 → MEMORY; larger than two eightbytes and not
    SSE,SSEUP.. → MEMORY; SSEUP not preceded by SSE/SSEUP → SSE.
  (Fields are visited as the flat list of scalars of the member tree, in declaration order.  gcc classifies nested
   aggregates level by level; the two readings can differ only when an X87 class meets another class inside a nested
   union, where the merge is not associative - such types are outside the theorems' region in any case.)
Passing: MEMORY (and X87, X87UP, COMPLEX_X87) → stack; INTEGER → next of rdi rsi rdx rcx r8 r9; SSE → next of xmm0-7;
an aggregate goes to registers only if all its eightbytes find one, otherwise to the stack and no register is used.
Stack arguments are pushed right to left, each in slots of 8 bytes, at an address aligned to the type's alignment
when that exceeds 8 (long double, 16-byte aligned aggregates).  A MEMORY-class return value is written through a
hidden pointer passed as if it were the first INTEGER argument and returned in rax; otherwise INTEGER eightbytes return
in rax, rdx; SSE in xmm0, xmm1; X87(+X87UP) in st0.  For variadic calls al = number of vector registers used.
-/
import ChibiVerif.Model.CallConv

namespace ChibiVerif.Spec.PsABI
open ChibiVerif.CallConv (ATy Members Sig ArgLoc Reg RetLoc RetReg VaLoc)

inductive Class where
  | noClass | integer | sse | sseup | x87 | x87up | complexX87 | memory
  deriving DecidableEq, Repr

/-- 3.2.3, merge of two classes of one eightbyte, rules (a)-(f) in order -/
def merge (a b : Class) : Class :=
  if a = b then a
  else if a = .noClass then b
  else if b = .noClass then a
  else if a = .memory ∨ b = .memory then .memory
  else if a = .integer ∨ b = .integer then .integer
  else if a = .x87 ∨ a = .x87up ∨ a = .complexX87 ∨ b = .x87 ∨ b = .x87up ∨ b = .complexX87 then .memory
  else .sse

/-- `f 0 ++ f 1 ++ .. ++ f (n-1)` -/
def concatBelow {α : Type} : Nat → (Nat → List α) → List α
  | 0, _ => []
  | n+1, f => concatBelow n f ++ f n

mutual
/-- every scalar of the member tree with its byte offset, in declaration order -/
def leaves : ATy → Nat → List (Nat × ATy)
  | .agg _ _ _ ms, off => leavesMs ms off
  | .arr e n, off => concatBelow n (fun i => leaves e (off + e.size * i))
  | .int s u b, off => [(off, .int s u b)]
  | .flt, off => [(off, .flt)]
  | .dbl, off => [(off, .dbl)]
  | .ldbl, off => [(off, .ldbl)]
def leavesMs : Members → Nat → List (Nat × ATy)
  | .nil, _ => []
  | .cons o t r, off => leaves t (off + o) ++ leavesMs r off
end

/-- classes of the eightbytes a scalar occupies -/
def scalarClasses : ATy → List Class
  | .int .. => [.integer]
  | .flt => [.sse]
  | .dbl => [.sse]
  | .ldbl => [.x87, .x87up]
  | _ => []

def eightbytes (size : Nat) : Nat := (size + 7) / 8

/-- merge `cs` into the eightbytes `k, k+1, ..` of `acc` -/
def mergeAt : List Class → Nat → List Class → List Class
  | acc, _, [] => acc
  | acc, k, c :: cs => mergeAt (acc.set k (merge (acc.getD k .noClass) c)) (k + 1) cs

def hasUnaligned (ty : ATy) : Bool :=
  (leaves ty 0).any (fun (o, t) => o % t.align != 0)

/-- every X87UP directly follows an X87 (the first eightbyte is checked by `postMerger`) -/
def x87upOk : List Class → Bool
  | a :: b :: rest => (b != .x87up || a == .x87) && x87upOk (b :: rest)
  | _ => true

def postMerger (cs : List Class) (size : Nat) : List Class :=
  if cs.contains .memory then [.memory]
  else if cs.head? = some .x87up ∨ !x87upOk cs then [.memory]
  else if size > 16 ∧ !(cs.head? = some .sse ∧ (cs.drop 1).all (· == .sseup)) then [.memory]
  else cs     -- (SSEUP never arises without vector types: rule (d) has nothing to do)

/-- 3.2.3 classification: one class per eightbyte, or `[memory]` -/
def classify (ty : ATy) : List Class :=
  match ty with
  | .agg .. =>
    if ty.size > 64 ∨ hasUnaligned ty then [.memory]
    else
      let merged := (leaves ty 0).foldl (fun acc (ot : Nat × ATy) => mergeAt acc (ot.1 / 8) (scalarClasses ot.2))
                      (List.replicate (eightbytes ty.size) Class.noClass)
      postMerger merged ty.size
  | t => scalarClasses t

def inMemory (cs : List Class) : Bool :=
  cs.contains .memory || cs.contains .x87 || cs.contains .x87up || cs.contains .complexX87

def countClass (c : Class) (cs : List Class) : Nat := (cs.filter (· == c)).length

/-- registers for the eightbytes, in order; NO_CLASS eightbytes take none -/
def regPieces : List Class → Nat → Nat → List Reg
  | [], _, _ => []
  | .integer :: cs, gp, fp => Reg.gp gp :: regPieces cs (gp + 1) fp
  | .sse :: cs, gp, fp => Reg.sse fp :: regPieces cs gp (fp + 1)
  | _ :: cs, gp, fp => regPieces cs gp fp

def roundUp (n a : Nat) : Nat := (n + a - 1) / a * a

/-- one argument, left to right.  State: (INTEGER registers used, SSE registers used, bytes of stack arguments so far) -/
def assignStep (st : Nat × Nat × Nat) (ty : ATy) : (Nat × Nat × Nat) × ArgLoc :=
  let (gp, fp, stk) := st
  let cs := classify ty
  let ngp := countClass .integer cs
  let nfp := countClass .sse cs
  if !inMemory cs ∧ gp + ngp ≤ 6 ∧ fp + nfp ≤ 8 then
    ((gp + ngp, fp + nfp, stk), .regs (regPieces cs gp fp))
  else
    let at_ := roundUp stk (max 8 ty.align)
    ((gp, fp, at_ + roundUp ty.size 8), .stack at_)

def assignLoop : (Nat × Nat × Nat) → List ATy → (Nat × Nat × Nat) × List ArgLoc
  | st, [] => (st, [])
  | st, t :: ts =>
    let (st', l) := assignStep st t
    let (st'', ls) := assignLoop st' ts
    (st'', l :: ls)

/-- the return value is of class MEMORY: hidden pointer in rdi -/
def retInMemory : Option ATy → Bool
  | some t => (classify t).contains .memory
  | none => false

/-- where every argument of a call with signature `s` is when the callee is entered (stack offsets from rsp+8) -/
def assign (s : Sig) : List ArgLoc :=
  (assignLoop ((if retInMemory s.ret then 1 else 0), 0, 0) s.params).2

/-- al for a variadic call: the number of vector registers used -/
def al (s : Sig) : Nat := (assignLoop ((if retInMemory s.ret then 1 else 0), 0, 0) s.params).1.2.1

/-- bytes of stack arguments (the area is then padded so that its end is 16-byte aligned) -/
def stackBytes (s : Sig) : Nat := (assignLoop ((if retInMemory s.ret then 1 else 0), 0, 0) s.params).1.2.2

def retPieces : List Class → Nat → Nat → List RetReg
  | [], _, _ => []
  | .integer :: cs, gp, fp => (if gp = 0 then RetReg.rax else RetReg.rdx) :: retPieces cs (gp + 1) fp
  | .sse :: cs, gp, fp => (if fp = 0 then RetReg.xmm0 else RetReg.xmm1) :: retPieces cs gp (fp + 1)
  | .x87 :: cs, gp, fp => RetReg.st0 :: retPieces cs gp fp
  | _ :: cs, gp, fp => retPieces cs gp fp        -- X87UP travels with X87; NO_CLASS takes nothing

/-- where a return value travels -/
def ret : Option ATy → RetLoc
  | none => .void
  | some t =>
    let cs := classify t
    if cs.contains .memory then .memory true else .regs (retPieces cs 0 0)

/-- 3.5.7: the register save area has rdi..r9 at 0..40 and xmm0..7 at 48, 64, ..; `va_arg` fetches the next argument
    from where 3.2.3 put it.  Arguments spread over two registers are reassembled and have no single location here. -/
def vaLoc : ArgLoc → Option VaLoc
  | .regs [.gp n] => some (.saveArea (8 * n))
  | .regs [.sse n] => some (.saveArea (48 + 16 * n))
  | .stack off => some (.overflow off)
  | _ => none

end ChibiVerif.Spec.PsABI
