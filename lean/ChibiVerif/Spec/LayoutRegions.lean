/-
C08 — the known-finding regions as decidable predicates (definitions only, no proofs: `drv_c08 regions` prints them, so this
file must build whatever happens to the lemmas).  Lemmas/LayoutLemmas.lean proves the layout theorems outside these regions;
the check (checklib/C08.py) attributes a mismatch between chibicc and gcc to a known finding only inside them.

Core Lean only.
-/
import ChibiVerif.Spec.LayoutSpec

namespace ChibiVerif.Spec.Layout

/-- a bit-field of width `w > 0` and declared type of `size` bytes, put at bit `cur`, would cross a boundary of a
    naturally aligned storage unit of that type -/
def straddlesAt (cur size w : Nat) : Bool := w != 0 && !decide (cur % (8 * size) + w ≤ 8 * size)

/-- along gcc's packed allocation starting at bit `cur`: some bit-field straddles -/
def packedStraddle : Nat → List SMem → Bool
  | _, [] => false
  | cur, m :: ms =>
    (match m.bitWidth with
     | some w => straddlesAt cur m.size w
     | none => false) || packedStraddle (allocate true cur m).2 ms

/-- region of known finding C08-packed-bitfield-straddle: packed struct in which some bit-field of non-zero width, put at the
    next free bit (where gcc puts it), crosses a boundary of a storage unit of its declared type.  (chibicc applies the
    containment rule inside `packed` too, and its code generator reads a bit-field with one access of the declared type.)
    Packed structs whose bit-fields all fit are *outside* the region: there chibicc's layout is gcc's. -/
def PackedWithBitfield (packed : Bool) (ms : List SMem) : Bool :=
  packed && packedStraddle 0 ms

/-- region of known finding C08-packed-member-alignas: packed aggregate with a member that carries an `_Alignas` stricter
    than 1 (`_Alignas(1)` asks for what `packed` gives anyway) -/
def PackedWithMemberAlign (packed : Bool) (ms : List SMem) : Bool :=
  packed && ms.any fun m => decide (1 < m.alignas)

/-- region of known finding C08-packed-union-bitfield: packed union with a named bit-field that is narrower than its declared
    type in bytes (`(w + 7) / 8 < sizeof(type)`: chibicc takes the whole declared type as the member's extent) -/
def PackedUnionBitfield (packed : Bool) (ms : List SMem) : Bool :=
  packed && ms.any fun m => match m.bitWidth with
    | some w => m.named && decide ((w + 7) / 8 < m.size)
    | none => false

end ChibiVerif.Spec.Layout

namespace ChibiVerif.Layout
open ChibiVerif.Spec.Layout

/-- region `k` at one aggregate: 0 = C08-packed-bitfield-straddle (structs), 1 = C08-packed-member-alignas (both),
    2 = C08-packed-union-bitfield (unions) -/
def nodeInRegion (k : Nat) (isStruct p : Bool) (ms : List SMem) : Bool :=
  match k with
  | 0 => isStruct && PackedWithBitfield p ms
  | 1 => PackedWithMemberAlign p ms
  | 2 => !isStruct && PackedUnionBitfield p ms
  | _ => false

mutual
  /-- some aggregate of the description — at any depth, operands of `_Alignas(type-name)` included — lies in region `k` -/
  def Ty.inRegion (k : Nat) : Ty → Bool
    | .prim _ => false
    | .enum => false
    | .ptr => false
    | .arr e _ => e.inRegion k
    | .flex e => e.inRegion k
    | .struct p _ ms => nodeInRegion k true p (specMembers ms) || ms.inRegion k
    | .union p _ ms => nodeInRegion k false p (specMembers ms) || ms.inRegion k
  def Aligns.inRegion (k : Nat) : Aligns → Bool
    | .nil => false
    | .const _ rest => rest.inRegion k
    | .type t rest => t.inRegion k || rest.inRegion k
  def Members.inRegion (k : Nat) : Members → Bool
    | .nil => false
    | .cons _ as ty rest => as.inRegion k || ty.inRegion k || rest.inRegion k
end

end ChibiVerif.Layout
