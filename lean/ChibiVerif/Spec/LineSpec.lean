/-
Specification side of C18 (source positions): the *physical* line of a byte of a source file,
read off the ORIGINAL bytes of the file (before any translation phase), after C11 5.1.1.2
(phase 1: end-of-line indicators; a line terminator is LF, CR or CR LF, each counting once),
6.10.4 (`#line`) and 6.10.8.1 (`__LINE__`, `__FILE__`).

Everything here looks only *backwards* (one byte of look-behind), so every function of a
prefix `bytes.take off` is a function of exactly the bytes before `off`.
Bytes are `Nat`s (0..255).  Core Lean only.
-/
namespace ChibiVerif.Spec.Line

abbrev LF : Nat := 10
abbrev CR : Nat := 13
abbrev BSL : Nat := 92

/-- does a line terminator END at a byte `a` whose predecessor is `prev`?  CR ends one; LF ends one
    unless it is the second half of CR LF (that terminator was already counted at the CR). -/
def endsTerm (prev a : Nat) : Bool := a = CR || (a = LF && prev ≠ CR)

/-- number of line terminators (LF, CR, CR LF — each once) in a byte sequence whose predecessor byte is `prev` -/
def countTerm (prev : Nat) : List Nat → Nat
  | [] => 0
  | a :: r => (if endsTerm prev a then 1 else 0) + countTerm a r

/-- **physical line** of the byte at offset `off`: 1 + number of line terminators before it -/
def physLine (bytes : List Nat) (off : Nat) : Nat := 1 + countTerm 0 (bytes.take off)

/-- number of *spliced* line terminators (backslash immediately followed by a line terminator,
    C11 5.1.1.2 phase 2) since the last unspliced one: `n` is that number so far, `prev` the previous byte -/
def pendingAt (prev n : Nat) : List Nat → Nat
  | [] => n
  | a :: r =>
    pendingAt a
      (if a = CR then (if prev = BSL then n + 1 else 0)
       else if a = LF then (if prev = CR then n else if prev = BSL then n + 1 else 0)
       else n) r

/-- how many backslash-newlines lie between the start of the logical line of the byte at `off` and that byte -/
def pendingSplices (bytes : List Nat) (off : Nat) : Nat := pendingAt 0 0 (bytes.take off)

/-- region of known finding `C18-line-after-splice`: a splice precedes the byte on its own logical line -/
def spliceBefore (bytes : List Nat) (off : Nat) : Bool := pendingSplices bytes off != 0

/-- C11 6.10.4p3: after `#line N` on physical line `physDir`, "the following sequence of source lines begins with
    a source line that has a line number as specified by the digit sequence": the line right after the directive
    is line N, so a token on physical line `physTok` has presumed line `N + (physTok − physDir − 1)`. -/
def presumedLine (n : Int) (physTok physDir : Nat) : Int := n + ((physTok : Int) - (physDir : Int) - 1)

/-! ## several `#line` directives in one file: what is in force WHERE -/

/-- a `#line`-family directive of one file, by position: the line its `#` is on, its operand, its optional file name -/
structure Dir where
  line : Nat
  n : Int
  name : Option String
  deriving DecidableEq, Repr

/-- of a candidate and a directive, the one further down the file -/
def lower (best : Option Dir) (d : Dir) : Option Dir :=
  match best with
  | none => some d
  | some b => if b.line < d.line then some d else some b

/-- the directive in force on line `l` (C11 6.10.4: a directive renumbers "the following sequence of source lines"): among the
    directives of the file that lie strictly above line `l`, the one furthest down.  A function of the position and of the
    directives as a collection — the list may be given in any order, and nothing in it says when a directive was processed. -/
def inForce (dirs : List Dir) (l : Nat) : Option Dir := (dirs.filter (fun d => d.line < l)).foldl lower none

/-- the directive that determines the presumed file name on line `l`: the one in force among those that carry a name
    (`#line N` without a name leaves the presumed file name as it was, 6.10.4p3/p4) -/
def namedInForce (dirs : List Dir) (l : Nat) : Option Dir := inForce (dirs.filter (fun d => d.name.isSome)) l

/-- C11 presumed line of a token on line `l` of a file with the directives `dirs` -/
def presumedLineAt (dirs : List Dir) (l : Nat) : Int :=
  match inForce dirs l with
  | none => l
  | some d => presumedLine d.n l d.line

/-- C11 presumed file name of a token on line `l` of the file `fileName` with the directives `dirs` -/
def presumedFileAt (fileName : String) (dirs : List Dir) (l : Nat) : String :=
  match namedInForce dirs l with
  | some d => d.name.getD fileName
  | none => fileName

end ChibiVerif.Spec.Line
