import ChibiVerif.Model.HashMap
