-- root of the library: imports every Props/Findings module so that `lake build` checks everything
import ChibiVerif.Props.C17
import ChibiVerif.Findings.C17
import ChibiVerif.Props.C07
import ChibiVerif.Findings.C07
import ChibiVerif.Props.C11
import ChibiVerif.Findings.C11
import ChibiVerif.Props.C14
import ChibiVerif.Findings.C14
import ChibiVerif.Props.C10
import ChibiVerif.Findings.C10
import ChibiVerif.Props.C19
import ChibiVerif.Findings.C19
import ChibiVerif.Props.C08
import ChibiVerif.Findings.C08
import ChibiVerif.Props.C18
import ChibiVerif.Findings.C18
