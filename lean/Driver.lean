/-
Line-protocol driver: `driver <model>` reads operations from stdin, runs the Lean
model, prints one canonical line per operation.  Core Lean only (no Mathlib), so it
links as an executable.
-/
import ChibiVerif.Driver.HashMapCmd

def main (args : List String) : IO UInt32 := do
  match args with
  | "hashmap" :: _ => ChibiVerif.Driver.hashmapMain
  | _ =>
    IO.eprintln "usage: driver <hashmap|...>"
    return 2
