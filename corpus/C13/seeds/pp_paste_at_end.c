#define p(x) 1 ##
int a = p(1);
