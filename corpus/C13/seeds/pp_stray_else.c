int x;
#else
