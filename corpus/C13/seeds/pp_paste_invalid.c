#define c(a,b) a##b
int x = c(+,-) 1;
