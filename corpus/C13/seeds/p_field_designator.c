struct { int a; } s = {. = 2};
