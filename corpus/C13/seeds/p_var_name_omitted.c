int main() { int *; }
