int x;
char *s = "abc;
int y;
