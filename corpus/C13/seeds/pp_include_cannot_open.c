int x;
#include "c13_no_such_file.h"
