struct __attribute__((aligned(3))) S { int a; } s;
