int a[][];
