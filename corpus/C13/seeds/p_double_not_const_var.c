double y; double x = y;
