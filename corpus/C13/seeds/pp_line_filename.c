#line 10 20
