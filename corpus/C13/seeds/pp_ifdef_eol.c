#ifdef
#endif
