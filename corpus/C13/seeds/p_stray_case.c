int main() { case 1: ; }
