int x;
