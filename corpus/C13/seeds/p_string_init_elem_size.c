int s[] = "abc";
