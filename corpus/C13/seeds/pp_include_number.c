#include 123
