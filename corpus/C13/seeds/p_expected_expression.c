int x = ;
