int main() { g(); }
