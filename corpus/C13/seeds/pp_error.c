int x;
#error stop here
