int x;
