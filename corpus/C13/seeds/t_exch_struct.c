struct S {char a[3];}; void f(struct S *p, struct S r){ __builtin_atomic_exchange(p, r); }
