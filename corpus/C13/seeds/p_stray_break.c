int main() { break; }
