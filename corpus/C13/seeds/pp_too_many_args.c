#define f(x) x
int y = f(1,2);
