struct __attribute__((aligned(-8))) S { int a; } s;
