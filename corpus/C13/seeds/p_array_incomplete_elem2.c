int a[2][];
