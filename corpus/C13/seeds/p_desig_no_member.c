struct { int a; } s = {.b = 1};
