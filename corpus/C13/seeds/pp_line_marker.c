#line foo
