struct S { struct {} a : 0; } s;
