int a[2]; int *p = &a[a[0]];
