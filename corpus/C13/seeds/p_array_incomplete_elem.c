int a[][2][];
