int *p;
int main() { 1 - p; }
