struct S { int a; } s;
enum { A = s.a };
