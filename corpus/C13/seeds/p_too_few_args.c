int f(int a);
int main() { f(); }
