int f(int *p, long double *q){ return __builtin_compare_and_swap(p, q, 1.0L); }
