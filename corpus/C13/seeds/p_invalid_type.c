long char x;
