int x;
