int x;
#include_next <c13_no_such_file.h>
