int *s = L"€";
