int Ã(;
