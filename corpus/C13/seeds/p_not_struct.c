int x;
int main() { x.a; }
