struct S { int a[0] : 1; } s;
