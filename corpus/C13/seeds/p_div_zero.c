int x = 1 / 0;
