int *;
