#define s(x) #y
char *p = s(1);
