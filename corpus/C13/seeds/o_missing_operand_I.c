int x;
