struct S { int a; } s;
long x = (long)s.a;
