int x;
#ifdef FOO
int y;
