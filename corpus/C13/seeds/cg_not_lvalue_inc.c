int f(void);
int main() { f()++; }
