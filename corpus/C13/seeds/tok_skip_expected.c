int main() { return 0 }
