#ifdef 3
#endif
