struct S { struct T x; };
