int f(int *p, double d){ return *(p + d); }
