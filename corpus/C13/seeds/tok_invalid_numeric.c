int x = 1e;
