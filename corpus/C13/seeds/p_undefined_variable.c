int main() { return y; }
