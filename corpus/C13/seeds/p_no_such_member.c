struct { int a; } s;
int main() { s.b; }
