char (*p)[3],(*q)[3]; int f(void){ return __builtin_compare_and_swap(p,q,1); }
