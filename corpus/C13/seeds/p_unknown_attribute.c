struct __attribute__((foo)) S { int a; };
