int main() { return _Generic(1.0f, int: 1); }
