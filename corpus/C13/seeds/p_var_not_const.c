int y;
enum { A = y };
