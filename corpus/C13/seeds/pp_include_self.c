#include __FILE__
