enum { A = 5 % 0 };
