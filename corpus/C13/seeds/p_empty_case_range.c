int main() { switch (1) { case 5 ... 1: ; } }
