int x;
int c = 'a;
