int main() { __builtin_atomic_exchange(1, 2); }
