int x;
#endif
