int x;
