struct S { _Alignas(536870912) char c; };
