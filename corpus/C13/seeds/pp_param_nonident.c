#define f(1) x
