#if 1 2
#endif
