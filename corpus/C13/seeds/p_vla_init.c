int main() { int n = 3; int a[n] = {1}; }
