int x; int *p = &x + x;
