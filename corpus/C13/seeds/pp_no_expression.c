int x;
#if
#endif
