int main() { int x = ({ int y; }); }
