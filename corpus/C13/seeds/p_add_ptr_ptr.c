int *p, *q;
int main() { p + q; }
