#define p(x) ## x
int a = p(1);
