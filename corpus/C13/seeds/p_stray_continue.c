int main() { continue; }
