void f(long double *p){ __builtin_atomic_exchange(p, 1.0L); }
