int main() { goto L; }
