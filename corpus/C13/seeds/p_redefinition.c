int f(void) { return 0; }
int f(void) { return 1; }
