int ()(void) { }
