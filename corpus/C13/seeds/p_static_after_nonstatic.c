int f(void);
static int f(void) { return 0; }
