#include <stdio.h
int x;
