int main() { void *p; *p; }
