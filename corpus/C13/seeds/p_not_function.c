int x;
int main() { x(); }
