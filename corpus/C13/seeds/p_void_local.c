void f(void){ void x; }
