int x = sizeof(_Alignas(4) int);
