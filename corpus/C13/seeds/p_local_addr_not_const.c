int main() { int l; static int *p = &l; }
