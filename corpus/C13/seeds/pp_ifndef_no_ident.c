#ifndef 3
#endif
