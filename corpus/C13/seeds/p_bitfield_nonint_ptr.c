struct S { int *x : 3; } s;
