int x;
int ÿ;
