struct T { int a; } *s;
int main() { s->b; }
