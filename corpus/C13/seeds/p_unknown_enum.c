enum E x;
