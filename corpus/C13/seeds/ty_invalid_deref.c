int main() { int x; *x; }
