struct S {int a;} s; int f(void){ return s - 1; }
