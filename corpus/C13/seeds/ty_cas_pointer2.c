int main() { int a, n; __builtin_compare_and_swap(&a, 1, n); }
