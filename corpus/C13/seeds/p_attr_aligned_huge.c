union __attribute__((aligned(536870912))) U { int a; } u;
