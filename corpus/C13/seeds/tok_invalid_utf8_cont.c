int x;
int Ã(;
