#if defined(1)
#endif
