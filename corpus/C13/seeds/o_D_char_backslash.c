int x;
