void f(void){ int a[2]; int b[2]; a = b; }
