char *s = "\xg";
