int f(double d){ return d % 2; }
