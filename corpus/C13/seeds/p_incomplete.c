int main() { struct T x; }
