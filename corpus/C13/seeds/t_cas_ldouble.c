void f(long double *p, long double *q){ __builtin_compare_and_swap(p, q, 1.0L); }
