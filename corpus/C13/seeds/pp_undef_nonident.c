#undef 1
