int f(int) { return 0; }
