int main() { 1 = 2; }
