int y;
long x = y;
