int f(void){ _Alignas(3) char c; return c; }
