struct S {char a[4];}; int f(int *p, struct S *q){ return __builtin_compare_and_swap(p, q, 1); }
