int main() { void x; }
