int f(int a);
int main() { f(1, 2); }
