int x;
#foo
