int x;
