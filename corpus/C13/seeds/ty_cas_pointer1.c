int main() { int o, n; __builtin_compare_and_swap(1, &o, n); }
