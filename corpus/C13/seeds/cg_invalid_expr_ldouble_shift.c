int f(long double d){ return d << 2; }
