int f(void){ static int x = &&l - &&l; l: return x; }
