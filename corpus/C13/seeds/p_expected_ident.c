int main() { goto 1; }
