void *s = u"a" U"b";
