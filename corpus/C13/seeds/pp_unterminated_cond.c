int x;
#if 1
int y;
