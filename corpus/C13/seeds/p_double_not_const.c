int f();
double d = f();
