int main() { &1; }
