struct S {char a[3];}; void f(struct S *p, struct S *q, struct S r){ __builtin_compare_and_swap(p, q, r); }
