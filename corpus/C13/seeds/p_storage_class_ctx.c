int main() { return sizeof(static int); }
