int x;
