char (*p)[3]; int f(void){ return __builtin_atomic_exchange(p, 1); }
