#define 1 x
