int f();
int x = f();
