typedef static extern int T;
