int x;
#elif 1
