struct { int a[2]; } s = {.a.x = 1};
