struct { int a : 3; } s;
int main() { &s.a; }
