struct S { long double x : 3; } s = {1};
