struct { struct { int a; } in; } s = {.in[0] = 1};
