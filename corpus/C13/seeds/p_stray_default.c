int main() { default: ; }
