#if 1
#else
#else
#endif
