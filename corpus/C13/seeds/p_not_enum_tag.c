struct T { int a; };
enum T x;
