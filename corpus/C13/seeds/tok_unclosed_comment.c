int x;
/* abc
int y;
