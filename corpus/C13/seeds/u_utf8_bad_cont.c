int *s = L"àA";
