#define F foo
#include F
