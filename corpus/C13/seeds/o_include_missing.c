int x;
