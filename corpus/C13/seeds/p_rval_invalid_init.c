int *p = &1;
