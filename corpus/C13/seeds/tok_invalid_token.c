int x;
int  y;
