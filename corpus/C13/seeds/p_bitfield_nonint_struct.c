struct S { struct {} a : 1; } s;
