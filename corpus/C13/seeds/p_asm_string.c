int main() { asm(1); }
