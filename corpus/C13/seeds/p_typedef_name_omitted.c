typedef int *;
