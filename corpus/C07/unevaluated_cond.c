// C07 corpus: is_const_expr evaluated the condition of a ?: inside an operand that && / || do not evaluate
// (C11 6.6p3 footnote 115), so these array bounds were rejected with "division by zero in a constant expression".
int printf(const char *, ...);
int a1[1 || (1/0 ? 1 : 2)];
int a2[(0 && (1/0 ? 1 : 2)) + 3];
int a3[1 ? 2 : (0 && (1/0 ? 1 : 2))];
int a4[0 || (2 && 7 % 4)];
static int s1 = 1 || (1/0 ? 1 : 2);
static int s2 = 0 && 1/0;
enum { E1 = 1 || (1/0 ? 1 : 2), E2 = 1 ? 5 : 1 % 0 };
int main(void) {
  printf("%d %d %d %d %d %d %d %d\n", (int)sizeof(a1), (int)sizeof(a2), (int)sizeof(a3), (int)sizeof(a4), s1, s2, E1, E2);
  return 0;
}
