// past failure (repaired by /repo 6a09034 and d20bf97): a floating initializer / operand of 2^63 or more converted to
// unsigned long at translation time went through int64_t (0x8000000000000000); the run-time conversion was right.
int printf(const char *, ...);
static unsigned long a = 1.8e19;
static unsigned long b = (unsigned long)1.8e19;
static unsigned long c = 9223372036854775808.0;
static unsigned long d = (unsigned long)9223372036854775808.0;
static unsigned long e = 1.8e19f;
static unsigned long f = 1.8e19L;
static unsigned long g = 1.8e19 + 0;
static unsigned long arr[2] = { 1.8e19, 1e19f };
static struct { unsigned long m; unsigned long bf : 64; } s = { 1.8e19, 1.8e19 };
static double h = (unsigned long)1.8e19;
int main(void) {
  volatile double v = 1.8e19; volatile double w = 9223372036854775808.0; volatile float vf = 1.8e19f; volatile long double vl = 1.8e19L;
  unsigned long ra = v, rc = w, re = vf, rf = vl;
  printf("%lu %lu %lu %lu %lu %lu %lu\n", a, b, c, d, e, f, g);
  printf("%lu %lu %lu %lu %.0f\n", arr[0], arr[1], s.m, (unsigned long)s.bf, h);
  printf("%lu %lu %lu %lu\n", ra, rc, re, rf);
  return 0;
}
