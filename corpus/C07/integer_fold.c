// C07 corpus: integer folding defects of the pinned tree (results not wrapped to the node type, ?: of uint32_t/int32_t,
// % not a constant operator, 1/0 SIGFPE) and the _Bool static initializer truncation.
int printf(const char *, ...);
static long x1 = -1 + 0;
static long x2 = ~0u >> 1;
static long x3 = (_Bool)256;
static long x4 = (unsigned char)300 + 1;
static long x5 = (short)0x18000 < 0;
static long x6 = 0x7fffffff + 1u;
static long x7 = -1 < 0u;
static long x8 = (-9223372036854775807L - 1) % -1 + 5;
static unsigned long x9 = 0x7fffffffffffffffUL + 1;
static long x10 = 1u << 31;
static long x11 = -8 >> 1;
static long x12 = (unsigned)-8 >> 1;
static long x13 = -7 / 2 * 10 + -7 % 2;
static long x14 = 7u % 4 - 5;
int a7[7 % 4] = {1, 2, 3};
static _Bool b1 = 256;
static _Bool b2 = 2;
static _Bool b3 = 0.5;
static _Bool b4 = 0x100000000;
#if -1 < 0u
#define PP1 1
#else
#define PP1 0
#endif
#if (0x7fffffff + 1) > 0 && (2147483647 + 1) > 0
#define PP2 1
#else
#define PP2 0
#endif
int main(void) {
  printf("%ld %ld %ld %ld %ld %ld %ld\n", x1, x2, x3, x4, x5, x6, x7);
  printf("%ld %lu %ld %ld %ld %ld %ld\n", x8, x9, x10, x11, x12, x13, x14);
  printf("%d %d\n", (int)sizeof(a7), a7[2]);
  printf("%d %d %d %d\n", *(unsigned char *)&b1, *(unsigned char *)&b2, *(unsigned char *)&b3, *(unsigned char *)&b4);
  printf("%d %d\n", PP1, PP2);
  return 0;
}
