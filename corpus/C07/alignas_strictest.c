// C07 corpus: _Alignas operands are folded into `int align`; with several specifiers the strictest wins (C11 6.7.5p6).
int printf(const char *, ...);
struct S1 { char a; _Alignas(2) _Alignas(1 << 3) char b; };
struct S2 { char a; _Alignas(16 / 2) _Alignas(7 % 4 - 1) char b; };
struct S3 { char a; _Alignas(int) _Alignas(1 ? 2 : 1 / 0) char b; };
int main(void) {
  printf("%ld %ld %ld %ld %ld %ld\n", (long)&((struct S1 *)0)->b, (long)sizeof(struct S1), (long)&((struct S2 *)0)->b,
         (long)sizeof(struct S2), (long)&((struct S3 *)0)->b, (long)sizeof(struct S3));
  return 0;
}
