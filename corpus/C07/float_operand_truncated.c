// C07 corpus: integer-typed operators on floating operands were folded after truncating the operand to int64
// (static int a = 0.5 ? 1 : 2; gave 2).  Each line prints the folded value and the run-time value; gcc is the oracle.
int printf(const char *, ...);
static int a1 = 0.5 ? 1 : 2;
static int a2 = !0.5;
static int a3 = 0.5 && 1;
static int a4 = 0.5 || 0;
static int a5 = 0.5 == 0.7;
static int a6 = 0.5 < 0.7;
static int a7 = 1.5 > 1.2;
static int a8 = -0.5 != 0;
static int a9 = (_Bool)0.5;
static int a10 = 0.5f <= 0.25;
static int a11 = 0.3L >= 0.3;
int arr[0.5 ? 3 : 7];
enum { E1 = (int)(0.5 < 0.7) + 4 };
int main(void) {
  volatile double h = 0.5, s = 0.7, z = 0, m = -0.5, o5 = 1.5, o2 = 1.2, q = 0.25, d3 = 0.3;
  volatile float hf = 0.5f; volatile long double l3 = 0.3L; volatile int one = 1;
  printf("%d %d\n", a1, h ? 1 : 2);
  printf("%d %d\n", a2, !h);
  printf("%d %d\n", a3, h && one);
  printf("%d %d\n", a4, h || z);
  printf("%d %d\n", a5, h == s);
  printf("%d %d\n", a6, h < s);
  printf("%d %d\n", a7, o5 > o2);
  printf("%d %d\n", a8, m != 0);
  printf("%d %d\n", a9, (_Bool)h);
  printf("%d %d\n", a10, hf <= q);
  printf("%d %d\n", a11, l3 >= d3);
  printf("%d %d\n", (int)(sizeof(arr) / sizeof(int)), E1);
  return 0;
}
