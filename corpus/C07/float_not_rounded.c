// C07 corpus: eval_double computed every floating type in host double and never rounded to the node type
// (static double d = 1.0f/3.0f; gave 0x1.5555555555555p-2); static long double initializers hit unreachable().
int printf(const char *, ...);
static double d1 = 1.0f / 3.0f;
static double d2 = (float)0.1;
static double d3 = 16777217.0f;
static double d4 = 0.1f + 0.2f;
static double d5 = (float)1e40;
static float f1 = 0.1;
static long double l1 = 1.5L;
static long double l2 = 1.0L / 3;
static long double l3 = 0.1L;
static double d6 = 1.0L / 3;
static double d7 = 18446744073709551615UL;
int main(void) {
  volatile float a = 1.0f, b = 3.0f, c1 = 0.1f, c2 = 0.2f, big = 16777217.0f;
  volatile double p1 = 0.1, e40 = 1e40;
  volatile long double one = 1.0L, three = 3, p1l = 0.1L, ohf = 1.5L;
  volatile unsigned long m = 18446744073709551615UL;
  printf("%a %a\n", d1, (double)(a / b));
  printf("%a %a\n", d2, (double)(float)p1);
  printf("%a %a\n", d3, (double)big);
  printf("%a %a\n", d4, (double)(c1 + c2));
  printf("%a %a\n", d5, (double)(float)e40);
  printf("%a %a\n", (double)f1, (double)(float)p1);
  printf("%La %La\n", l1, ohf);
  printf("%La %La\n", l2, one / three);
  printf("%La %La\n", l3, p1l);
  printf("%a %a\n", d6, (double)(one / three));
  printf("%a %a\n", d7, (double)m);
  return 0;
}
