// 1.0 + (2^-53 + 2^-64): the exact sum rounds to 1 + 2^-52 as a double, but to 1.0 when it is first rounded to the 64-bit
// significand of a long double.  A folder that carries out double arithmetic in long double gets 1.0 (FLT_EVAL_METHOD 0: the
// operation is carried out in the format of its type, as the generated code does).
int printf(const char *, ...);
static double a = 1.0 + 0x1.002p-53;
static double b = 0x1.0000000000001p0 - 0x1.ffep-54;
static float c = 1.0f + 0x1.000002p-24f;
int main(void) {
  volatile double x = 1.0, y = 0x1.002p-53, p = 0x1.0000000000001p0, q = 0x1.ffep-54;
  volatile float u = 1.0f, w = 0x1.000002p-24f;
  printf("%a %a %a\n", a, b, (double)c);
  printf("%a %a %a\n", x + y, p - q, (double)(float)(u + w));
  return 0;
}
