#define s(x) #x
#define o(y) s(a #y b)
#define p(y) s(a y##1 b)
o(1) p(x)
