#define s(x) #x
s(a
b)
