#define f(x, ...) <__VA_OPT__(x) x>
f(1) f(1,2)
