#define B
(a) x
B y
