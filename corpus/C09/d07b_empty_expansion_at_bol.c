#define E
E # define X 1
X
