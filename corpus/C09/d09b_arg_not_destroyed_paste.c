#define M 1 2
#define f(x) x x##c
f(a M) f(M)
