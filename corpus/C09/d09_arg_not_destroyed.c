#define M 1 2
#define f(x) x #x
f(a M b)
