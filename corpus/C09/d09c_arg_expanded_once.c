#define d(x) x x
d(__COUNTER__)
