#define f(x)
a f(1)
#define X 1
X
