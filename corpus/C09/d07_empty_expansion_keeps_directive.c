#define E
a E
#define X 1
X
