#define t(x,y,z) x ## y ## z
#define u(x,y,z) a x ## y ## z b
#define q(x,y,z,w) <x ## y ## z ## w>
t(,,) [t(,,12)] u(,,3) u(,,) q(,,,) q(,,,4) q(,,3,) q(1,,,4)
