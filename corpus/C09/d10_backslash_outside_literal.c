#define str(s) # s
str(: @\n)
