#define H #
H define Y 1
Y
