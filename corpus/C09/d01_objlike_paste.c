#define X a ## b
X
