#define str(s) # s
#define xstr(s) str(s)
str(: @\n) str(\ n) str("a\n" \ 1) xstr(L"q\"r" \ u8"\\" '"' \ U'\\' n)
