// fixed: the value of a bit-field assignment was the unconverted right operand (C11 6.5.16p3)
#include <stdio.h>
struct S { int a:3; unsigned b:5; signed char c:2; unsigned long d:40; };
int main(void) { struct S s = {0};
  int r = (s.a = 9); unsigned r2 = (s.b = 0x3f); int r3 = (s.c = 7); unsigned long r4 = (s.d = -1L);
  printf("%d %u %d %lx\n", r, r2, r3, r4);
  int x = (s.a = s.b = 21); printf("%d %d %u\n", x, s.a, s.b);
  if ((s.a = 4) != -4) printf("bad\n"); else printf("ok\n");
  return 0; }
