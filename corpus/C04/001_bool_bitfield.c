// fixed: _Bool f:1 read back as -1 (load arm used sar for TY_BOOL)
#include <stdio.h>
struct B { _Bool f:1; _Bool g:1; int x:3; };
int main(void) { struct B b = {0}; b.f = 1; b.g = 1; b.x = 5;
  printf("%d %d %d %d %d\n", b.f, b.g, b.f == 1, b.f + b.g, b.x);
  b.f = 2; printf("%d\n", b.f); int q = (b.g = 4); printf("%d\n", q); return 0; }
