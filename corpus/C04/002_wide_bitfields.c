// fixed: widths 32..63 did not assemble (and $imm64), width 64 stores were lost (host 1L << 64)
#include <stdio.h>
struct U { unsigned a:32; int b:32; };
struct V { long a:33; long b:31; };
struct W { unsigned long a:40; unsigned long b:24; };
struct X { long x:64; };
struct Y { unsigned long y:64; };
struct Z { long e:63; _Bool t:1; };
int main(void) {
  struct U u = {0}; u.a = 0xdeadbeef; u.b = -2; printf("%x %d\n", u.a, u.b);
  struct V v = {0}; v.a = -3; v.b = 5; printf("%ld %ld\n", (long)v.a, (long)v.b);
  struct W w = {0}; w.a = 0x123456789aUL; w.b = 0xffffff; printf("%lx %lx\n", (unsigned long)w.a, (unsigned long)w.b); w.a = 0; printf("%lx %lx\n", (unsigned long)w.a, (unsigned long)w.b);
  struct X x; x.x = -1; x.x = 0x7fffffffffffffffL; printf("%lx\n", x.x); x.x = 0; printf("%lx\n", x.x);
  struct Y y; y.y = 0xfedcba9876543210UL; printf("%lx\n", y.y);
  struct Z z = {0}; z.e = -5; z.t = 1; printf("%ld %d\n", (long)z.e, z.t); z.e = 0x3fffffffffffffffL; printf("%ld %d\n", (long)z.e, z.t);
  return 0; }
