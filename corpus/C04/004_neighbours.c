// neighbours of a bit-field store (all-ones and all-zeros surroundings), units of every size
#include <stdio.h>
#include <string.h>
struct N { char c0; char a:3; char b:5; short s1:1; short s2:15; int i1:7; int i2:25; long l1:1; long l2:62; long l3:1; char c1; };
static void dump(void *p, int n) { unsigned char *b = p; for (int i = 0; i < n; i++) printf("%02x", b[i]); printf("\n"); }
int main(void) { struct N n;
  for (int pat = 0; pat < 256; pat += 255) {
    memset(&n, pat, sizeof n); n.a = 2; dump(&n, sizeof n);
    memset(&n, pat, sizeof n); n.b = 9; dump(&n, sizeof n);
    memset(&n, pat, sizeof n); n.s1 = pat ? 0 : 1; dump(&n, sizeof n);
    memset(&n, pat, sizeof n); n.s2 = 0x2aaa; dump(&n, sizeof n);
    memset(&n, pat, sizeof n); n.i1 = 0x55; dump(&n, sizeof n);
    memset(&n, pat, sizeof n); n.i2 = 0xaaaaaa; dump(&n, sizeof n);
    memset(&n, pat, sizeof n); n.l1 = pat ? 0 : 1; dump(&n, sizeof n);
    memset(&n, pat, sizeof n); n.l2 = 0x1555555555555555L; dump(&n, sizeof n);
    memset(&n, pat, sizeof n); n.l3 = pat ? 0 : 1; dump(&n, sizeof n);
  }
  return 0; }
