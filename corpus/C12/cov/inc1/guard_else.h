#ifndef GUARD_ELSE_H
#define GUARD_ELSE_H
int ge1;
#else
int ge2;
#endif
