#ifndef 1
#endif
