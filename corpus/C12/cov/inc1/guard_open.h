#ifndef GUARD_OPEN_H
#define GUARD_OPEN_H
#
#ifdef X
#endif
int go;
#endif
