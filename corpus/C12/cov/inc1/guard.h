#ifndef GUARD_H
#define GUARD_H
#if 1
int guarded;
#endif
#endif
