#pragma once
int once_only;
