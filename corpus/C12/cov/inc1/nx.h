int nx_first;
#include_next <nx.h>
