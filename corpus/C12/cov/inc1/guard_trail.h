#ifndef GUARD_TRAIL_H
#define GUARD_TRAIL_H
#endif
int after_guard;
