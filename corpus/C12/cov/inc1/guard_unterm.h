#ifndef GUARD_UNTERM_H
#define GUARD_UNTERM_H
int gu;
