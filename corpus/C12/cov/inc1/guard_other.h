#ifndef GUARD_OTHER_H
#define SOMETHING_ELSE
#endif
