int nx_second;
