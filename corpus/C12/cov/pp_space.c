// args: -E
// C12 coverage corpus: -E output must keep apart tokens that would fuse (need_space in main.c)
#define NEG -
#define PLUS +
#define E1 1e
#define DOT .
#define L_ L
#define ID(x) x
int a = NEG-1, b = PLUS+2, c = NEG NEG 3;
double d = E1+5, e = E1-5, f = 1 DOT 5, g = ID(1)ID(2), h = ID(.)ID(5), i2 = ID(1.)ID(e3), i3 = ID(0x1p)ID(+)ID(3);
char *s = ID(L_)"wide", *t = ID(x)'c', *u = ID(u8)"s";
int j = ID(a)ID(b), k = ID(<)ID(<), l = ID(/)ID(/), m = ID(-)ID(>), n = ID(%)ID(:), o = ID(#)ID(#), p = ID(.)ID(.)ID(.), q = ID(a)ID(1), r = ID(1)ID(a), v = ID($)ID(x);
int w = ID()ID(a) ID(a)ID() ID("s")ID("t") ID(;)ID(;)
