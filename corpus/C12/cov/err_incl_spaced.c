// args: -E -I$D/inc1
#include < nx .h>
int x;
