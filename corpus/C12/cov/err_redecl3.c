int f; int f(void);
