// args: -E -I$D/inc1
#include_next <no_such_header_anywhere.h>
