// stdin: -E | -S -x c | -S -xc -fPIC
// C12 coverage corpus: input read from standard input (no file to stat for __TIMESTAMP__), no newline at the end of file
char *ts = __TIMESTAMP__;
#define A 1
int a = A;
