void v(void) { void x; }
