// args: -S -fPIC | -S | -S -fcommon
// C12 coverage corpus: thread-local and ordinary globals with and without -fPIC / -fcommon
_Thread_local int t1; static _Thread_local int t2 = 3; extern _Thread_local int t3; int g1; static int g2; extern int g3; int g4 = 4;
int ext_fn(void); static int loc_fn(void) { return 1; }
int f(void) { return t1 + t2 + t3 + g1 + g2 + g3 + g4 + ext_fn() + loc_fn() + (&t1 != &t3) + (&g1 != &g3); }
int (*pf)(void) = ext_fn; int (*pl)(void) = loc_fn; int *pg = &g3; 
