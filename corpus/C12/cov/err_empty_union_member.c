union E {};
struct OE { union E e; int x; } oe = { 1 };
