typedef void V; void g(void) { V x; }
