// args: -E -I$D/inc1 -I$D/inc2 | -S -I$D/inc1 -I$D/inc2
// C12 coverage corpus: preprocessor paths (extra tokens after #include, include guards of every shape, #include_next,
// null directives inside skipped groups, stringizing of quotes/backslashes, pasting with empty arguments,
// non-once #pragma followed by text that still needs the preprocessor, #line)
#include "guard.h" junk tokens
#include "guard.h"
#include "guard_else.h"
#include "guard_else.h"
#include "guard_trail.h"
#include "guard_trail.h"
#include "guard_open.h"
#include "guard_open.h"
#include "guard_other.h"
#include "guard_other.h"
#include <nx.h>
#include "once.h"
#include "once.h"
#define INC "once.h"
#include INC
#define INCA <nx.h>
#include INCA
#ifdef NOPE
#
#if 1
#
#else
#
#endif
#else
int live1;
#endif
#if 0
#
#ifdef X
#
#endif
#elif 1
int live2;
#
#else
#
#if 1
#endif
#endif
#define STR(x) #x
#define XSTR(x) STR(x)
char *s1 = STR("a\\b" 'c' "\"" '\\' '"');
char *s2 = XSTR(__FILE__ "q\"");
char *s3 = STR(  a   +   b
   c );
#define CAT(a, b) a ## b
int CAT(, e1) = 1; int CAT(e2, ) = 2; int e3 CAT(, ) = 3;
#define CATV(a, ...) a ## __VA_ARGS__
int CATV(e4) = 4; int CATV(e, 5) = 5; int CATV(, e6) = 6;
#define LCAT(a, b) x ## a ## b
int LCAT(, ) = 7; int LCAT(1, ) = 8; int LCAT(, 2) = 9;
#define OPT(x, ...) x __VA_OPT__(+ __VA_ARGS__)
int o1 = OPT(1); int o2 = OPT(1, 2); int o3 = OPT(1, );
#define GNUV(fmt, args...) fmt args
char *gv = GNUV("a", "b" "c");
#define EMPTY
#define LIMIT 20
enum { LIMIT_E = 10 };
#pragma STDC FP_CONTRACT OFF
int arr[LIMIT];
#pragma pack(push, 1)
int after_pragma = LIMIT + 1;
#pragma
int after_empty_pragma = LIMIT + 2;
int after_Pragma = LIMIT;
#line 100 "renamed.c"
int line1 = __LINE__; char *file1 = __FILE__;
#line 7
int line2 = __LINE__; char *file2 = __FILE__; char *base = __BASE_FILE__;
# 33 "gnu.c" 2
int line3 = __LINE__; char *file3 = __FILE__;
int cnt = __COUNTER__ + __COUNTER__;
#ifdef __has_include
#if __has_include("guard.h") && !__has_include(<no_such_file.h>) && __has_include(<nx.h>)
int hi = 1;
#endif
#endif
#if defined LIMIT && defined(LIMIT) && !defined NOPE && (LIMIT > 10 ? 1 : 0) && 'a' == 97 && -1 < 0u == 0
int cond1;
#endif
#undef LIMIT
int arr2[LIMIT_E];
#define PASTE2(a, b) a ## b c
#define NOARG(a, b) a ## tail b
int PASTE2(, ) ; int NOARG(, = 1);
#define S2(...) #__VA_ARGS__
char *s4 = S2(a , b,c   d), *s5 = S2(), *s6 = S2("x\n" , '\0');
#define HV(a, ...) __VA_OPT__(a ## x,) a
int HV(v1); int HV(v2, 1);
#if 0
#if 1
#else
#endif
#ifdef A
#elif 1
#endif
#ifndef A
#endif
#endif
#define HV2(a) __VA_OPT__(x) a
int HV2(v3);
#line 200 "dir\\file\"q.c"
char *file4 = __FILE__; int line4 = __LINE__;
