char *s = "ÿþ";
int ÿ;
