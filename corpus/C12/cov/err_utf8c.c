int x = L'Ã';
