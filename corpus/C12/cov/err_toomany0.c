#define F() 1
int x = F(1);
