int glob; int x = glob ? 1 : 2;
