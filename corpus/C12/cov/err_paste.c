#define CAT(a, b) a ## b
int x = CAT(+, /);
