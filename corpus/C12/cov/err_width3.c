char *s = "Ａ😀〈" @ ;
