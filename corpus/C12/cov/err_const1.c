int glob; int x = 1 && glob;
