// C12 coverage corpus: second batch of parser/type paths
union Fwd;
union Fwd *pfwd;
struct BF { int : 4; int x; int : 0; unsigned y : 5; };
struct O { struct BF b; int t; } o1 = { 7, 9, 11 };
union E {};
int glob;
typedef int fn_t(int);
fn_t fdecl;
int fdecl(int x) { return x; }
int fdecl2(int x);
int sel(int c, int (*p)(int)) {
  struct BF b = { 1, 2 }; b.x = 3; b.y = 4;
  int n = c + 1, m = c + 2;
  int vla2[n][m]; int (*pv2)[m] = vla2; pv2 = pv2 + 1; pv2 = pv2 - 1; long df = pv2 - vla2;
  typedef int VT[n]; int s = sizeof(VT) + sizeof(VT) + sizeof(int[m]);
  int a1[glob && 1]; int a2[glob || 1]; int a3[glob ? 1 : 2]; int a4[(glob, 2)]; int a5[-glob + 5];
  int (*q)(int) = c ? fdecl : p; int (*r)(int) = c ? p : fdecl2; int (*t)(int) = c ? fdecl : fdecl2; int (*u)(int) = c ? 0 : fdecl;
  float fl = 1; double db = 2; long double ld = 3;
  int cmp = __builtin_types_compatible_p(float, float) + __builtin_types_compatible_p(double, long double);
  return s + sizeof(a1) + sizeof(a2) + sizeof(a3) + sizeof(a4) + sizeof a5 + q(1) + r(2) + t(3) + b.x + (int)df + ({ 1; fdecl(2); }) + ({ int z = 3; z; });
}
char wide1 = 'ab';
int c0 = '\0', c1 = '\x7f', c2 = L'\x7f', c3 = u'\0';
char *plain_ascii_ucn = "\u0024\u0040\u0060"; int dollar\u0024x;
char *ident_width = "日本語 ｆｕｌｌ 한글 ✓ é";
int tcc1 = __builtin_types_compatible_p(int[3], long[3]) + __builtin_types_compatible_p(long double, long double) + __builtin_types_compatible_p(double, double);
