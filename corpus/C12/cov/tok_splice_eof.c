int x;\
