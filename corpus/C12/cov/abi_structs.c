// C12 coverage corpus: calling-convention paths of codegen.c that neither the nine sources nor test/*.c reach
// (structs whose eightbytes are SSE class, odd sizes, > 16 bytes by stack, variadic callee with struct/float named parameters)
#include <stdarg.h>
typedef struct { float a; } F1;
typedef struct { float a, b, c; } F3;
typedef struct { double a; float b; } DF;
typedef struct { float a; long b; } FL;
typedef struct { long a; float b; } LF;
typedef struct { char a[3]; } C3;
typedef struct { char a[5]; short s; } C7;
typedef struct { char a[11]; } C11;
typedef struct { long a, b, c; } Big;
typedef union { float f; int i; } UF;
typedef struct { float a[2]; } FA;
typedef struct { float a[3]; } FA3;
typedef struct { double d[2]; } DA;
typedef struct {} Empty;
F1 rf1(void); F3 rf3(void); DF rdf(void); FL rfl(void); LF rlf(void); C3 rc3(void); C7 rc7(void); C11 rc11(void);
Big rbig(void); FA rfa(void); FA3 rfa3(void); DA rda(void); UF ruf(void); Empty rem(void);
F1 gf1(F1 x) { return x; }
F3 gf3(F3 x) { x.c += 1; return x; }
DF gdf(DF x) { return x; }
FL gfl(FL x) { return x; }
LF glf(LF x) { return x; }
C3 gc3(C3 x) { return x; }
C7 gc7(C7 x) { return x; }
C11 gc11(C11 x) { return x; }
FA gfa(FA x) { return x; }
FA3 gfa3(FA3 x) { return x; }
DA gda(DA x) { return x; }
UF guf(UF x) { return x; }
Big gbig(Big x) { return x; }
Empty gem(Empty x) { return x; }
int take(Big b, int x, ...);
float use(void) {
  F1 a = rf1(); F3 b = rf3(); DF c = rdf(); FL d = rfl(); C3 e = rc3(); Big g = rbig(); FA h = rfa();
  LF i = rlf(); C7 j = rc7(); C11 k = rc11(); FA3 l = rfa3(); DA m = rda(); UF n = ruf(); Empty o = rem();
  take(g, 1, a, b, c, d, e, h, 1.5f, 2.5, i, j, k, l, m, n, o, g);
  return a.a + b.c + c.b + d.a + e.a[2] + g.c + h.a[1] + i.b + j.s + k.a[10] + l.a[2] + m.d[1] + n.f;
}
int vf(Big b, C3 c, F1 f, FL fl, float x, double y, long double z, int i, ...) {
  va_list ap; va_start(ap, i); int r = va_arg(ap, int); double q = va_arg(ap, double); va_end(ap);
  return r + b.a + c.a[0] + (int)f.a + (int)x + (int)y + (int)z + (int)fl.a + (int)q;
}
int many(int a, int b, int c, int d, int e, C7 s7, F3 f3, double d0, double d1, double d2, double d3, double d4, double d5, FL fl, F1 f1, DF df, C3 c3, LF lf, ...) {
  va_list ap; va_start(ap, lf); long r = va_arg(ap, long); va_end(ap);
  return a + b + c + d + e + s7.s + (int)f3.c + (int)(d0 + d1 + d2 + d3 + d4 + d5) + fl.b + (int)f1.a + (int)df.b + c3.a[1] + lf.a + r;
}
int callmany(void) {
  C7 s7 = {{1,2,3,4,5}, 6}; F3 f3 = {1, 2, 3}; FL fl = {1, 2}; F1 f1 = {3}; DF df = {1, 2}; C3 c3 = {{7, 8, 9}}; LF lf = {4, 5};
  return many(1, 2, 3, 4, 5, s7, f3, .5, 1.5, 2.5, 3.5, 4.5, 5.5, fl, f1, df, c3, lf, 99L);
}
Big (*fp)(Big) = gbig;
long viaptr(Big b) { return fp(b).c + gbig(b).a + (gf3((F3){1,2,3})).b; }
