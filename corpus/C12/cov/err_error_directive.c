#error stop here
int x;
