#define F(a, b) a + b
int x = F(1, 2, 3);
