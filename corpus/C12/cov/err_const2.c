int glob; int x = 0 || glob;
