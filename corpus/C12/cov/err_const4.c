int arr9[9]; long ldiff = &arr9[5] - &arr9[1];
