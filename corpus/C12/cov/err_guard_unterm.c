// args: -E -I$D/inc1
#include "guard_unterm.h"
int x;
