// args: -E
int a;
#if 0
#if 1
int never;
