int f(void) { int x = 1 +; }  // 日本語 caret position after wide chars
