﻿// args: -E | -S
int with_bom;
int w = L'あ'; int u16 = u'β'; int u32 = U'🍣'; char *u8s = u8"あ"; unsigned short *us = u"🍣β"; unsigned *Us = U"🍣"; int *Ls = L"あ";
