void g(void) { struct T { int a; } s; __builtin_compare_and_swap(&s, &s, s); }
