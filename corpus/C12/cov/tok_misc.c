// args: -E | -S
int cr1;
int cr2;int cr3;
char *u = "\u00e9\U0001F600 é € 😀"; int été = 1; int caf\u00e9 = 2; int \U0001F600x;
int sp\
lice = 1; // comment \
still comment
int tri = 1 \
 + 2;
