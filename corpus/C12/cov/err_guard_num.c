// args: -E -I$D/inc1
#include "guard_num.h"
int x;
