struct S { _Atomic int x : 3; };
