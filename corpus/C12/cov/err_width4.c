char *s = "é​֑" + ;
