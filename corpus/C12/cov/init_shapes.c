// C12 coverage corpus: initializer shapes (anonymous members, unnamed bit-fields, excess elements, flexible arrays,
// unions initialised by designator / by expression, GNU empty union)
struct A { int x; struct { int p, q; }; int : 3; int y; union { long l; char c; }; };
struct A a1 = { .q = 2, .y = 4, .c = 5 };
struct A a2 = { 1, 2, 3, 4, 5 };
union U { int i; char c[4]; float f; };
struct W { union U u; int t; union U v[2]; };
struct W w1 = { .u.f = 1.5f, 2, .v[1].c[2] = 3 };
struct W w2 = { .u = { .c = {1, 2} }, .v = { [1] = { .f = 2.0f } } };
union U u0 = { .c = {1, 2} };
union U u1 = { .f = 3.0f };
int arr1[2] = {1, 2, 3, {4}, {{6}}};
struct P { int a, b; } p1 = {1, 2, 3, {4}};
int arr2[2][2] = {{1, 2, 3}, {4}, {5}};
char s1[3] = "abcdef";
struct Flex { int n; int d[]; };
struct Flex fx = { 1, { [2] = 5, 6 } };
struct Flex fy = { 2, 7, 8, 9 };
union E {};
union E ue1 = {};
union E ue2;
struct BF { int : 4; int x; int : 0; unsigned y : 5; _Bool b : 1; _Bool c : 1; long w : 40; char k : 7; short h : 9; } bf = { 7, 9, 1.5, 0, 123456789012L, 65, 255 };
union UB { int : 3; int v; } ub = { 9 };
union UB2 { long : 40; char c; } ub2 = { 1 };
struct S8 { long a : 64; unsigned long b : 33; } s8 = { -1, 0x1ffffffffUL };
_Atomic(int) at1 = 3;
_Atomic(struct P) at2;
void f(void) {
  union E e = {}; union E e2 = e; union E e3 = {};
  union U a = {.f = 1}; union U b = a; struct W w = { a, 3, { b, a } };
  struct A la = { .q = 2, .y = 4, .c = 5 }; struct A lb = { 1, 2, 3, 4, 5, 6 };
  int la1[2] = {1, 2, 3, {4}}; struct P lp = {1, 2, 3, {4}};
  struct BF lbf = { 7, 9, 1, 0, 5, 65, 255 }; union UB lub = { 9 };
  static _Alignas(32) int sa = 1; static _Thread_local int tl; _Alignas(16) char buf[3];
  int vla_n = 3; int vla[vla_n][2]; int (*pv)[2] = vla + 1; pv = pv - 1; pv -= 1; long d = (vla + 2) - vla;
  char c = 1; int pc = +c; short sh = 2; pc = +sh; pc = -c; pc = ~c;
  char flex[] = {1, 2, 3}; char flex2[] = "xy"; int flex3[] = { [3] = 1, 2 };
}
