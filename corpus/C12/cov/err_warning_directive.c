#warning this is a warning
int x;
