/* C03 corpus: computed goto through label tables (labels as values), a threaded-code interpreter loop,
   goto out of nested loops/switch, goto into a block and into a loop body, label names shared between functions.
   streams:
0 1 1 2 0 1 0 3
1 2 0 3
2 2 1 1 0
0 1 0 0 1 1 0
5 0 1 0 1
*/
void m(int);
int c(int);
long in(int);
void r(long);

/* dispatch on an oracle value through a local table of label addresses */
void f0(void) {
  void *tbl[4] = { &&a, &&b, &&d, &&out };
again:
  goto *tbl[in(1) & 3];
a:
  m(10);
  goto again;
b:
  m(11);
  if (c(2))
    goto *tbl[2];
  goto again;
d:
  m(12);
  goto again;
out:
  m(13);
}

/* threaded code: every handler ends in its own indirect jump; the program is a table of handler indices */
void f1(void) {
  static const int prog[] = { 0, 1, 1, 2, 0, 3 };
  void *h[4];
  int pc = 0, acc = 0;
  h[0] = &&inc; h[1] = &&dbl; h[2] = &&emit; h[3] = &&halt;
  goto *h[prog[pc++]];
inc:
  acc++;
  m(20);
  goto *h[prog[pc++]];
dbl:
  acc *= 2;
  m(21);
  goto *h[prog[pc++]];
emit:
  r(acc);
  goto *h[prog[pc++]];
halt:
  m(22);
}

/* goto out of a doubly nested loop with a switch in between, and back in */
void f2(void) {
  for (m(30); c(1); m(31)) {
    while (c(2)) {
      switch ((int)in(3)) {
      case 0:
        m(32);
        continue;
      case 1:
        m(33);
        goto done;
      default:
        m(34);
        break;
      }
      m(35);
    }
    m(36);
  }
done:
  m(37);
  if (c(4)) {
    m(38);
    goto inner;
  }
  do {
    m(39);
  inner:
    m(40);
  } while (c(5));
  m(41);
}

/* same label spelled as in f0/f2; a label in a nested block reached from outside; jump past a declaration with initializer */
void f3(void) {
  int n = 0;
  if (c(1))
    goto a;
  {
    int k = 7;
    m(50);
  a:
    k = 9;
    m(51);
    r(k);
  }
done:
  n++;
  m(52);
  if (n < 3 && c(2))
    goto done;
  r(n);
}

/* computed goto selected by arithmetic on label differences is not used (gcc-specific layout); instead a table in a loop */
void f4(void) {
  void *t[3] = { &&x, &&y, &&z };
  for (int i = 0; i < 5; i++) {
    goto *t[(in(1) + i) % 3 < 0 ? 0 : (in(1) + i) % 3];
  x:
    m(60);
    continue;
  y:
    m(61);
    if (c(2))
      break;
    continue;
  z:
    m(62);
  }
  m(63);
}
