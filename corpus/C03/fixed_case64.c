/* C03 corpus: witnesses of the repaired defect "case labels keep 64 bits" (fix 0d889cd) and relatives:
   64-bit case constants, ranges straddling 2^31 / 2^32 / the sign, negative constants on unsigned switches.
   streams:
4294967297 1 4294967296 -1 2147483648 -2147483649 9223372036854775807
4294967297 4294967301 4294967302 4294967296 -4 5 6 -9223372036854775808
4294967295 -1 0 7 4294967296
-1 -2 9223372036854775807 -9223372036854775808 0
*/
void m(int);
int c(int);
long in(int);
void r(long);

void f0(void) {
  for (int i = 0; i < 7; i++)
    switch (in(1)) {
    case 0x100000001L: m(10); break;
    case 1: m(11); break;
    case 0x100000000L: m(12);
    case -1: m(13); break;
    case 0x80000000L: m(14); break;
    case -0x80000001L: m(15); break;
    default: m(16);
    case 0x7fffffffffffffffL: m(17);
    }
}

void f1(void) {
  for (int i = 0; i < 8; i++)
    switch (in(1)) {
    case 0x100000001L ... 0x100000005L: m(20); break;
    case -5 ... 5: m(21); break;
    default: m(22); break;
    case (-0x7fffffffffffffffL - 1) ... -0x100000000L: m(23);
    }
}

void f2(void) {
  for (int i = 0; i < 5; i++)
    switch ((unsigned)in(1)) {
    case -1: m(30); break;
    case 0: m(31);
    case 5 ... 9: m(32); break;
    default: m(33);
    }
}

void f3(void) {
  for (int i = 0; i < 5; i++)
    switch ((unsigned long)in(1)) {
    case -1: m(40); break;
    case 0x8000000000000000UL ... 0xfffffffffffffffeUL: m(41); break;
    case 0 ... 0x7ffffffffffffffeUL: m(42); break;
    default: m(43);
    }
}
