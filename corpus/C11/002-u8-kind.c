// Past failure (fixed in /repo: getStringKind compares 2 bytes): u8"..." was classified as a UTF-16 literal by
// join_adjacent_string_literals.  Valid concatenations with u8 must keep element type char.
#include <stdio.h>
#define D(s) do { printf("%zu %zu", sizeof(s), sizeof((s)[0])); \
  for (size_t i = 0; i < sizeof(s) / sizeof((s)[0]); i++) printf(" %x", (unsigned)(unsigned char)(s)[i]); printf("\n"); } while (0)
int main(void) {
  D(u8"a" "b");
  D("a" u8"b");
  D(u8"a" u8"é" "c");
  D("x" "y" u8"z");
  return 0;
}
