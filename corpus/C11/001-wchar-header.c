// Past failure (fixed in /repo: include/stddef.h `typedef int wchar_t;`): L'x' and L"..." have type int, but
// chibicc's own <stddef.h> declared wchar_t as unsigned int, so the literals did not have type wchar_t
// (C11 6.4.4.4p11, 6.4.5p6).  Compiled with chibicc (-I<snapshot>/include first) and with gcc; outputs must agree.
#include <stddef.h>
#include <stdio.h>
int main(void) {
  printf("%d\n", _Generic(L'a', wchar_t: 0, default: 1));
  printf("%d\n", _Generic(L"a"[0], wchar_t: 0, default: 1));
  printf("%d\n", _Generic(&L"a"[0], wchar_t *: 0, const wchar_t *: 0, default: 1));
  wchar_t w = L'\xffffffff';
  printf("%d %d\n", L'\xffffffff' < 0, w < 0);
  printf("%zu %zu\n", sizeof(wchar_t), sizeof(L'a'));
  return 0;
}
