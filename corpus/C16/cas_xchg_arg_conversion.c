/* fixed: the value argument of compare-exchange / exchange was not converted to the object type */
/* expect:
4000000000
1 4000000000
1 2
1 2
1 7
5 -1
*/
#include <stdatomic.h>
#include <stdio.h>
int main(void) {
  double two5 = 2.5; int seven = 7; unsigned u = 4000000000u; int m1 = -1;
  _Atomic unsigned long ul = 5; atomic_exchange(&ul, u); printf("%lu\n", ul);
  _Atomic long l = 5; long el = 5; int ok = atomic_compare_exchange_strong(&l, &el, u); printf("%d %ld\n", ok, l);
  _Atomic int i = 1; int r = atomic_exchange(&i, two5); printf("%d %d\n", r, i);
  i = 1; int e = 1; ok = atomic_compare_exchange_strong(&i, &e, two5); printf("%d %d\n", ok, i);
  _Atomic double d = 1.0; double ed = 1.0; ok = atomic_compare_exchange_strong(&d, &ed, seven); printf("%d %g\n", ok, d);
  l = 5; long rl = atomic_exchange(&l, m1); printf("%ld %ld\n", rl, l);
  return 0;
}
