/* fixed: atomic_fetch_* were `op=` and returned the new value (C11 7.17.7.5: the previous one) */
/* expect:
5 8
240 255
255 60
60 195
8 -2
-2 40
*/
#include <stdatomic.h>
#include <stdio.h>
int main(void) {
  _Atomic int i = 5; int r = atomic_fetch_add(&i, 3); printf("%d %d\n", r, i);
  _Atomic unsigned char c = 0xf0; int r2 = atomic_fetch_or(&c, 0x0f); printf("%d %d\n", r2, c);
  r2 = atomic_fetch_and(&c, 0x3c); printf("%d %d\n", r2, c);
  r2 = atomic_fetch_xor(&c, 0xff); printf("%d %d\n", r2, c);
  r = atomic_fetch_sub(&i, 10); printf("%d %d\n", r, i);
  r = atomic_fetch_add_explicit(&i, 42, memory_order_relaxed); printf("%d %d\n", r, i);
  return 0;
}
