/* fixed (/repo 1c76c1e): `int *_Atomic p;` (C11 6.7.6.1: `_Atomic` in the type-qualifier-list of a pointer declarator - the
   POINTER is atomic) was rejected with "variable name omitted": parse.c pointers() skipped const/volatile/restrict after `*`
   but not _Atomic.  Now the pointer type is marked atomic and every update of such a pointer - at file scope, in a struct, in an
   array, through a pointer to it, through a typedef, a parameter - is the compare-and-swap loop (8 bytes), the addend scaled by
   the size of the pointee.  4 threads x 500000 rounds, each round +2 elements on every object: no update may be lost. */
/* expect:
4000000 4000000 4000000 4000000 4000000 4000000 0
*/
#include <stdatomic.h>
#include <stdio.h>
#include <pthread.h>
#define NT 4
#define ITERS 500000
static int base[8];
static int *_Atomic p = base;
static struct S { char c; short *_Atomic volatile m; } s;
static long *const _Atomic cq;                 /* const and atomic: never updated, only read */
static char *_Atomic a[3];
typedef double *restrict _Atomic adp;
static adp t;
static int *_Atomic *pp = &p;                  /* plain pointer to an atomic pointer */
static int *_Atomic param_target = base;
static int plain_cell;
static int *_Atomic to_plain = &plain_cell;     /* atomic pointer, plain pointee */
static atomic_int go;
static void upd(int *_Atomic *q, long n) { *q += n; (*q)++; --*q; }
static void *w(void *arg) {
  struct S *sp = &s;
  while (!atomic_load(&go)) ;
  for (long i = 0; i < ITERS; i++) {
    p++; p += 3; --p; p -= 1;                   /* +2 */
    sp->m += 2; s.m++; sp->m--;                 /* +2 */
    a[1]++; ++a[1];                             /* +2 */
    t += 5; t -= 3;                             /* +2 */
    (*pp)++; pp[0]--;                           /* 0 on p */
    upd(&param_target, 2);                      /* +2 */
  }
  return 0;
}
int main(void) {
  static short sb[4]; static char cb[4]; static double db[4];
  pthread_t th[NT];
  s.m = sb; a[1] = cb; t = db;
  for (int i = 0; i < NT; i++) pthread_create(&th[i], 0, w, 0);
  go = 1;
  for (int i = 0; i < NT; i++) pthread_join(th[i], 0);
  /* single-threaded: the pointee of an atomic pointer is a plain object and is updated in place */
  for (int i = 0; i < 2 * NT * ITERS; i++) (*to_plain)++;
  printf("%ld %ld %ld %ld %ld %d %d\n", (long)(p - base), (long)(s.m - sb), (long)(a[1] - cb), (long)(t - db),
         (long)(param_target - base), plain_cell, cq != 0);
  return 0;
}
