/* fixed: ND_EXCH left bits 8..31 of %eax from the new value for 1- and 2-byte objects */
/* expect:
-1 5
-2 7
200 255
-3 9
4000000000 4294967295
1 0
*/
#include <stdatomic.h>
#include <stdio.h>
int main(void) {
  _Atomic signed char x = -1; int r = atomic_exchange(&x, 5); printf("%d %d\n", r, x);
  _Atomic short s = -2; int r2 = atomic_exchange(&s, 7); printf("%d %d\n", r2, s);
  _Atomic unsigned char u = 200; int r4 = atomic_exchange(&u, -1); printf("%d %d\n", r4, u);
  _Atomic int i = -3; long r3 = atomic_exchange(&i, 9); printf("%ld %d\n", r3, i);
  _Atomic unsigned int ui = 4000000000u; long r5 = atomic_exchange(&ui, -1); printf("%ld %u\n", r5, ui);
  atomic_flag f = ATOMIC_FLAG_INIT(1); int r6 = atomic_flag_test_and_set(&f); atomic_flag_clear(&f); printf("%d %d\n", r6, (int)f);
  return 0;
}
