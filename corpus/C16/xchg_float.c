/* fixed: ND_EXCH on a floating object exchanged %eax/%rax while the value was in %xmm0 */
/* expect:
1.500000 2.250000
1.500000 2.250000
*/
#include <stdatomic.h>
#include <stdio.h>
int main(void) {
  _Atomic float f = 1.5f; float nf = 2.25f;
  float r = atomic_exchange(&f, nf);
  printf("%f %f\n", r, f);
  _Atomic double d = 1.5; double nd = 2.25;
  double rd = atomic_exchange(&d, nd);
  printf("%f %f\n", rd, d);
  return 0;
}
