/* fixed (/repo c29052b): an _Atomic bit-field was accepted; `s.x += 1` ran the compare-and-swap loop on the whole storage unit
   (&s.x), so the 1 was added to the neighbour: y=2 x=2 z=7 instead of y=1 x=3 z=7.  gcc and clang reject the declaration;
   chibicc now does too. */
/* expect-diagnostic: bit-field has atomic type */
#include <stdio.h>
struct S { int y : 5; _Atomic int x : 3; int z : 8; } s = {1, 2, 7};
int main(void) {
  s.x += 1;
  printf("y=%d x=%d z=%d\n", s.y, s.x, s.z);
  return 0;
}
