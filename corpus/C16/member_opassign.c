/* fixed: op=/++ on an _Atomic struct member took to_assign's plain member path (lost updates) */
/* expect:
4000000 0
*/
#include <stdatomic.h>
#include <stdio.h>
#include <pthread.h>
struct S { int pad; _Atomic int x; _Atomic short y; } s;
static atomic_int go;
static void *w(void *a) {
  struct S *p = &s;
  while (!atomic_load(&go)) ;
  for (int i = 0; i < 1000000; i++) { s.x++; p->x += 2; p->y ^= 1; s.x -= 2; }
  return 0;
}
int main(void) {
  pthread_t t[4];
  for (int i = 0; i < 4; i++) pthread_create(&t[i], 0, w, 0);
  go = 1;
  for (int i = 0; i < 4; i++) pthread_join(t[i], 0);
  printf("%d %d\n", s.x, (int)s.y);
  return 0;
}
