/* fixed (/repo c3d94ea): the object test of ND_CAS was applied to *addr only: with `struct T { int a; } *q` as the expected-value
   pointer the sizes agree, load() of a structure emits nothing, and the ADDRESS q was compared with *p */
/* expect-diagnostic: atomic operations on aggregates are not supported */
struct T { int a; };
int x = 5; struct T e = {5};
int main(void) { int *p = &x; struct T *q = &e; return !__builtin_compare_and_swap(p, q, 1); }
