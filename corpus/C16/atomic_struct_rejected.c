/* fixed: exchange / compare-exchange on an _Atomic struct of <= 8 bytes was accepted and compiled to code that
   exchanged the ADDRESS of the value (SIGSEGV at run time); it is now rejected with a located diagnostic */
/* expect-diagnostic: atomic operations on aggregates are not supported */
#include <stdatomic.h>
struct P { int a, b; };
int main(void) {
  _Atomic struct P s = {1, 2};
  struct P n = {3, 4};
  struct P o = atomic_exchange(&s, n);
  return o.a;
}
