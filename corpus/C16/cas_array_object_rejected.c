/* fixed (/repo c3d94ea): a pointer to an array passed the object test of ND_CAS / ND_EXCH (`!is_numeric(base) && !base->base`):
   reg_dx(3) -> "internal error at codegen.c" instead of a located diagnostic */
/* expect-diagnostic: atomic operations on aggregates are not supported */
char (*p)[3]; char (*q)[3];
int main(void) { return __builtin_compare_and_swap(p, q, 1); }
