/* fixed: op= on _Atomic float/double never terminated (ND_CAS pushed %rax while the value was in %xmm0) */
/* expect:
3.500000 3.500000 4.500000 1.500000
400000.000000 400000.000000
*/
#include <stdatomic.h>
#include <stdio.h>
#include <pthread.h>
static _Atomic double gd; static _Atomic float gf; static atomic_int go;
static void *w(void *a) { while (!atomic_load(&go)) ; for (int i = 0; i < 100000; i++) { gd += 1; gf++; } return 0; }
int main(void) {
  _Atomic double d = 1.0; d += 2.5;
  _Atomic float f = 1.0; f += 2.5;
  _Atomic float g = 3.5f; g++;
  _Atomic double h = 3.0; h /= 2;
  printf("%f %f %f %f\n", d, f, g, h);
  pthread_t t[4];
  for (int i = 0; i < 4; i++) pthread_create(&t[i], 0, w, 0);
  go = 1;
  for (int i = 0; i < 4; i++) pthread_join(t[i], 0);
  printf("%f %f\n", gd, gf);
  return 0;
}
