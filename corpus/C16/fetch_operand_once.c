/* fixed: __atomic_fetch_op re-evaluated its operand on every failed compare-exchange */
/* expect:
8000000 8000000
*/
#include <stdatomic.h>
#include <stdio.h>
#include <pthread.h>
_Atomic long x; static atomic_int go;
#define N 2000000
static void *w(void *a) { long calls = 0; while (!atomic_load(&go)) ; for (int i = 0; i < N; i++) atomic_fetch_add(&x, (calls++, 1)); return (void*)calls; }
int main(void) {
  pthread_t t[4]; long total = 0;
  for (int i = 0; i < 4; i++) pthread_create(&t[i], 0, w, 0);
  go = 1;
  for (int i = 0; i < 4; i++) { void *r; pthread_join(t[i], &r); total += (long)r; }
  printf("%ld %ld\n", x, total);
  return 0;
}
