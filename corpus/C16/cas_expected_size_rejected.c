/* fixed (/repo 4993f7e): `long *p; int *q; __builtin_compare_and_swap(p, q, 1)` was accepted: 4-byte load of the expected value,
   8-byte lock cmpxchg, and on failure an 8-byte store through q into a 4-byte object */
/* expect-diagnostic: the expected value must have the size of the atomic object */
#include <stdatomic.h>
static _Atomic long obj = 5;
static struct { int e; int guard; } s = {7, 0x22222222};
int main(void) {
  int ok = atomic_compare_exchange_strong(&obj, &s.e, 9);
  return ok || s.guard != 0x22222222;
}
