#!/bin/bash
# tools/accept_seed.sh <tag>   — lead-side confirmation of a seeded change delivered in /tmp/seed/out_<tag>
# (patch.diff, demo.sh, meta.json): applies the patch to a fresh worktree of /repo HEAD, builds, runs the suite, runs the
# demonstration on the patched and on a clean build; only then copies it to /verif/seeded/<tag>/.  Removes its worktrees.
set -u
tag=$1
out=/tmp/seed/out_$tag
[ -f $out/patch.diff ] && [ -f $out/demo.sh ] && [ -f $out/meta.json ] || { echo "missing deliverables in $out"; exit 2; }
v=/tmp/seed/v_$tag; c=/tmp/seed/clean
git -C /repo worktree remove --force $v 2>/dev/null; rm -rf $v
git -C /repo worktree add -q --detach $v || exit 2
if [ ! -x $c/chibicc ] || [ "$(git -C $c rev-parse HEAD 2>/dev/null)" != "$(git -C /repo rev-parse HEAD)" ]; then
  git -C /repo worktree remove --force $c 2>/dev/null; rm -rf $c
  git -C /repo worktree add -q --detach $c && make -C $c -j16 chibicc >/dev/null 2>&1 || { echo "clean build failed"; exit 2; }
fi
res=0
( cd $v && git apply $out/patch.diff ) || { echo "PATCH DOES NOT APPLY"; res=2; }
if [ $res = 0 ]; then
  warn=$(make -C $v -j16 chibicc 2>&1 | grep -c 'warning:')
  [ -x $v/chibicc ] || { echo "patched tree does not build"; res=2; }
  echo "warnings: $warn"
fi
if [ $res = 0 ]; then
  make -C $v -j8 test > $v/test.log 2>&1; trc=$?
  npass=$(grep -c 'passed' $v/test.log); nfail=$(grep -ci 'fail\|not passed' $v/test.log)
  echo "make test rc=$trc passed=$npass fail-lines=$nfail"
  [ $trc = 0 ] || res=3
  bash $out/demo.sh $v > $v/demo_patched.log 2>&1; dp=$?
  bash $out/demo.sh $c > $v/demo_clean.log 2>&1; dc=$?
  echo "demo patched=$dp clean=$dc"
  [ $dp = 1 ] && [ $dc = 0 ] || res=4
fi
if [ $res = 0 ]; then
  mkdir -p /verif/seeded/$tag
  cp $out/patch.diff $out/demo.sh /verif/seeded/$tag/
  for f in $out/*; do case $(basename $f) in patch.diff|demo.sh|meta.json|*.log) ;; *) [ -f $f ] && [ $(stat -c %s $f) -lt 200000 ] && cp $f /verif/seeded/$tag/ ;; esac; done
  python3 - $tag $out "$warn" "$trc" "$npass" "$dp" "$dc" <<'PY'
import json, sys
tag, out, warn, trc, npass, dp, dc = sys.argv[1:]
m = json.load(open(out + '/meta.json'))
m['lead_confirmed'] = f'fresh worktree of /repo HEAD + patch: make ({warn} warnings), make test rc={trc} ({npass} "passed" lines), demo.sh patched -> exit {dp}, demo.sh clean build -> exit {dc}'
json.dump(m, open(f'/verif/seeded/{tag}/meta.json', 'w'), indent=1)
PY
  echo "ACCEPTED $tag"
else
  echo "REJECTED $tag (res=$res)"; tail -5 $v/test.log 2>/dev/null; tail -5 $v/demo_patched.log $v/demo_clean.log 2>/dev/null
fi
git -C /repo worktree remove --force $v 2>/dev/null; rm -rf $v
exit $res
