"""C15: the ND_VAR arm of codegen.c gen_addr -> Gen/AddrFormsGen.lean

The arm is a ladder of `if (cond) { println(...); ... return; }` statements over six conditions.  It is
translated statement by statement into a Lean decision function from the six conditions to the list of
println format strings.  Also extracted: the default values of opt_fcommon / opt_fpic and the option
spellings that set them (main.c), and the linker arguments that depend on -static / -shared (run_linker).
Anything that does not have exactly the expected shape raises ExtractError."""
import re
from common import ExtractError, HEADER, read, must, function_body, strip_comments

CONDS = {
    'node->var->ty->kind == TY_VLA': 'c.isVla',
    'node->var->is_local': 'c.isLocal',
    'opt_fpic': 'c.fpic',
    'node->var->is_tls': 'c.isTls',
    'node->ty->kind == TY_FUNC': 'c.isFunc',
    'node->var->is_definition': 'c.isDefinition',
}


class P:
    def __init__(self, text):
        self.t = text
        self.i = 0

    def ws(self):
        while self.i < len(self.t) and self.t[self.i].isspace():
            self.i += 1

    def eof(self):
        self.ws()
        return self.i >= len(self.t)

    def peek(self, s):
        self.ws()
        return self.t.startswith(s, self.i)

    def eat(self, s):
        self.ws()
        if not self.t.startswith(s, self.i):
            raise ExtractError(f'gen_addr ND_VAR arm: expected {s!r} at ...{self.t[self.i:self.i + 40]!r}')
        self.i += len(s)

    def paren(self):
        """text between balanced parentheses starting at '('"""
        self.eat('(')
        depth, j = 1, self.i
        while depth:
            c = self.t[j]
            if c == '"':
                j += 1
                while self.t[j] != '"':
                    if self.t[j] == '\\':
                        j += 1
                    j += 1
            elif c == '(':
                depth += 1
            elif c == ')':
                depth -= 1
            j += 1
        s = self.t[self.i:j - 1]
        self.i = j
        return s

    def stmt(self):
        self.ws()
        if self.peek('{'):
            self.eat('{')
            out = []
            while not self.peek('}'):
                out.append(self.stmt())
            self.eat('}')
            return ('block', out)
        if re.match(r'if\b', self.t[self.i:]):
            self.eat('if')
            cond = ' '.join(self.paren().split())
            then = self.stmt()
            els = None
            self.ws()
            if re.match(r'else\b', self.t[self.i:]):
                self.eat('else')
                els = self.stmt()
            return ('if', cond, then, els)
        if re.match(r'return\s*;', self.t[self.i:]):
            self.eat('return')
            self.eat(';')
            return ('return',)
        if re.match(r'println\s*\(', self.t[self.i:]):
            self.eat('println')
            args = self.paren()
            self.eat(';')
            m = re.match(r'\s*"((?:\\.|[^"\\])*)"\s*(?:,(.*))?$', args, re.S)
            if not m:
                raise ExtractError(f'gen_addr ND_VAR arm: println with a non-literal format: {args!r}')
            arg = ' '.join((m.group(2) or '').split())
            return ('println', m.group(1), arg)
        raise ExtractError(f'gen_addr ND_VAR arm: statement not understood: {self.t[self.i:self.i + 60]!r}')


def flatten(stmts):
    out = []
    for s in stmts:
        if s[0] == 'block':
            out += flatten(s[1])
        else:
            out.append(s)
    return out


def lean_str(c_literal):
    # the C escapes that occur in format strings are also Lean escapes
    if re.search(r'\\[^"\\nt]', c_literal):
        raise ExtractError(f'format string with an escape the translator does not map: {c_literal!r}')
    return '"' + c_literal + '"'


def gen(stmts, acc, indent):
    """decision tree: list of format strings printed before `return`"""
    pad = '  ' * indent
    if not stmts:
        raise ExtractError('gen_addr ND_VAR arm: a path falls through to the next case without return')
    s, rest = stmts[0], stmts[1:]
    if s[0] == 'println':
        if s[2] not in ('node->var->offset', 'node->var->name', ''):
            raise ExtractError(f'gen_addr ND_VAR arm: println argument not understood: {s[2]!r}')
        return gen(rest, acc + [lean_str(s[1])], indent)
    if s[0] == 'return':
        return pad + '[' + ', '.join(acc) + ']'
    if s[0] == 'if':
        cond = CONDS.get(s[1])
        if cond is None:
            raise ExtractError(f'gen_addr ND_VAR arm: condition not understood: {s[1]!r}')
        then = flatten([s[2]])
        els = flatten([s[3]]) if s[3] else []
        return (pad + f'if {cond} then\n' + gen(then + rest, acc, indent + 1) + '\n' +
                pad + 'else\n' + gen(els + rest, acc, indent + 1))
    raise ExtractError(f'unexpected statement {s[0]}')


def generate(repo):
    cg = strip_comments(read(repo, 'codegen.c'))
    body = function_body(cg, r'^static void gen_addr\(Node \*node\)', 'gen_addr')
    m = must(r'case ND_VAR:(.*?)\n\s*case ND_DEREF:', body, 'ND_VAR arm of gen_addr', re.S)
    p = P(m.group(1))
    stmts = []
    while not p.eof():
        stmts.append(p.stmt())
    tree = gen(flatten(stmts), [], 1)

    mc = strip_comments(read(repo, 'main.c'))
    fcommon = must(r'^bool opt_fcommon(\s*=\s*(true|false))?\s*;', mc, 'opt_fcommon default', re.M).group(2) or 'false'
    fpic = must(r'^bool opt_fpic(\s*=\s*(true|false))?\s*;', mc, 'opt_fpic default', re.M).group(2) or 'false'

    def setters(var):
        out = []
        for mm in re.finditer(r'if \(((?:!strcmp\(argv\[i\], "[^"]+"\)(?:\s*\|\|\s*)?)+)\)\s*\{\s*' + var + r' = (true|false);', mc):
            for opt in re.findall(r'"([^"]+)"', mm.group(1)):
                out.append((opt, mm.group(2)))
        if not out:
            raise ExtractError(f'no option sets {var}')
        return out
    opts = [(o, 'fcommon', v) for o, v in setters('opt_fcommon')] + [(o, 'fpic', v) for o, v in setters('opt_fpic')]
    for flag, var in (('-static', 'opt_static'), ('-shared', 'opt_shared')):
        must(r'if \(!strcmp\(argv\[i\], "' + flag + r'"\)\) \{\s*' + var + r' = true;\s*strarray_push\(&ld_extra_args, "' + flag + r'"\);',
             mc, f'{flag} handling (sets {var}, passes {flag} to ld)')
    rl = function_body(mc, r'^static void run_linker\(', 'run_linker')
    must(r'if \(opt_shared\) \{[^}]*crti\.o[^}]*crtbeginS\.o[^}]*\} else \{[^}]*crt1\.o[^}]*crti\.o[^}]*crtbegin\.o', rl,
         'run_linker start files (shared: crti crtbeginS; else crt1 crti crtbegin)', re.S)
    must(r'if \(!opt_static\) \{[^}]*-dynamic-linker', rl, 'run_linker: -dynamic-linker unless -static', re.S)
    must(r'if \(opt_static\) \{[^}]*--start-group[^}]*-lgcc[^}]*-lgcc_eh[^}]*-lc[^}]*--end-group[^}]*\} else \{[^}]*-lc[^}]*-lgcc[^}]*-lgcc_s', rl,
         'run_linker library groups', re.S)
    if re.search(r'"-pie"', rl):
        raise ExtractError('run_linker passes -pie: the validity table of C15_addr_table assumes non-PIE executables')

    out = HEADER.format(tool='addrforms.py', src='codegen.c gen_addr (ND_VAR arm), main.c option defaults')
    out += '''namespace ChibiVerif.Gen.AddrForms

/-- the conditions the ND_VAR arm of gen_addr branches on -/
structure VarCtx where
  isVla : Bool          -- node->var->ty->kind == TY_VLA
  isLocal : Bool        -- node->var->is_local
  fpic : Bool           -- opt_fpic
  isTls : Bool          -- node->var->is_tls
  isFunc : Bool         -- node->ty->kind == TY_FUNC
  isDefinition : Bool   -- node->var->is_definition
  deriving DecidableEq, Repr, Inhabited

/-- the println format strings gen_addr prints for an ND_VAR node, in order -/
def genAddrVar (c : VarCtx) : List String :=
''' + tree + '''

/-- main.c: `bool opt_fcommon = ...;` / `bool opt_fpic;` -/
def defaultFcommon : Bool := ''' + fcommon + '''
def defaultFpic : Bool := ''' + fpic + '''

/-- (option spelling, variable, value) for the options that set them -/
def optionTable : List (String × String × Bool) :=
  [''' + ', '.join(f'("{o}", "{v}", {b})' for o, v, b in opts) + ''']

end ChibiVerif.Gen.AddrForms
'''
    return {'AddrFormsGen.lean': out}
