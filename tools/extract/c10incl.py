"""main.c / preprocess.c -> Gen/C10InclGen.lean   (property C10)

What is regenerated from the snapshot on every run:
  * the order in which main.c assembles `include_paths` for the cc1 child: -I (pushed in parse_args' loop),
    the default system directories (add_default_include_paths), -idirafter (collected in parse_args, appended later) --
    as a list of segments in the order the pushes are *executed*,
  * the directories add_default_include_paths pushes (argv[0]'s directory is the placeholder `$ARGV0DIR`),
  * that -D/-U are applied while parse_args scans argv (command-line order) and that cc1 tokenizes the -include files,
    in order, before the main file,
  * the directive-name sets the two skip functions and detect_include_guard test, whether each of them steps over
    null directives first, and the loop condition of skip_line,
  * the shape of search_include_paths (absolute name returned as is, cache consulted first, first existing directory wins)
    and search_include_next (continue after the first include_paths entry that is a directory prefix of the current file),
  * include_file's nesting limit (the number is regenerated; the position of the test and the depth bookkeeping are pinned),
  * the text of read_include_filename, join_tokens, copy_line, file_macro and the object-like arm of expand_macro
    (Model/IncludeOperand.lean transcribes them).
Anything that does not have exactly the expected shape raises ExtractError (the check then reports the tie as broken)."""
import re
from common import *


def norm(s):
    return re.sub(r'\s+', ' ', s).strip()


def equal_names(text, var):
    """names n in  equal(<var>, "n")"""
    return re.findall(r'equal\(\s*' + re.escape(var) + r'\s*,\s*"([a-z_]+)"\s*\)', text)


def lean_strs(xs):
    return '[' + ', '.join('"' + x.replace('\\', '\\\\').replace('"', '\\"') + '"' for x in xs) + ']'


def generate(repo):
    mainc = strip_comments(read(repo, 'main.c'))
    pp = strip_comments(read(repo, 'preprocess.c'))

    # ---------------------------------------------------------------- default directories
    body = norm(function_body(mainc, r'^static\s+void\s+add_default_include_paths\s*\(\s*char\s*\*\s*argv0\s*\)\s*\{',
                              'add_default_include_paths'))
    pushes = re.findall(r'strarray_push\(&include_paths, (.*?)\);', body)
    if not pushes:
        raise ExtractError('add_default_include_paths pushes nothing onto include_paths')
    defaults = []
    for p in pushes:
        if p == 'format("%s/include", dirname(strdup(argv0)))':
            defaults.append('$ARGV0DIR/include')
        elif re.fullmatch(r'"[^"\\]*"', p):
            defaults.append(p[1:-1])
        else:
            raise ExtractError(f'add_default_include_paths: push of unknown shape {p!r}')
    # nothing else may touch include_paths there except the copy into std_include_paths
    rest = re.sub(r'strarray_push\(&include_paths, (.*?)\);', '', body)
    if 'include_paths' in rest.replace('std_include_paths', '').replace('include_paths.len', '').replace('include_paths.data[i]', ''):
        raise ExtractError('add_default_include_paths uses include_paths in a way the translator does not understand')

    # ---------------------------------------------------------------- parse_args
    pa = norm(function_body(mainc, r'^static\s+void\s+parse_args\s*\(\s*int\s+argc\s*,\s*char\s*\*\*\s*argv\s*\)\s*\{', 'parse_args'))
    m_loop = must(r'for \(int i = 1; i < argc; i\+\+\) \{ if \(!strcmp\(argv\[i\], "-###"\)\)', pa, 'the option loop of parse_args')
    loop_start = m_loop.start()
    def arm(pattern, what):
        return must(pattern, pa[loop_start:], what)
    arm(r'if \(!strncmp\(argv\[i\], "-I", 2\)\) \{ strarray_push\(&include_paths, argv\[i\] \+ 2\); continue; \}', '-I arm')
    arm(r'if \(!strcmp\(argv\[i\], "-D"\)\) \{ define\(argv\[\+\+i\]\); continue; \}', '-D arm')
    arm(r'if \(!strncmp\(argv\[i\], "-D", 2\)\) \{ define\(argv\[i\] \+ 2\); continue; \}', '-Dx arm')
    arm(r'if \(!strcmp\(argv\[i\], "-U"\)\) \{ undef_macro\(argv\[\+\+i\]\); continue; \}', '-U arm')
    arm(r'if \(!strncmp\(argv\[i\], "-U", 2\)\) \{ undef_macro\(argv\[i\] \+ 2\); continue; \}', '-Ux arm')
    arm(r'if \(!strcmp\(argv\[i\], "-include"\)\) \{ strarray_push\(&opt_include, argv\[\+\+i\]\); continue; \}', '-include arm')
    arm(r'if \(!strcmp\(argv\[i\], "-idirafter"\)\) \{ strarray_push\(&idirafter, argv\[\+\+i\]\); continue; \}', '-idirafter arm')
    n_push_pa = len(re.findall(r'strarray_push\(&include_paths,', pa))
    idir_in_pa = re.search(r'for \(int i = 0; i < idirafter\.len; i\+\+\) strarray_push\(&include_paths, idirafter\.data\[i\]\);', pa)
    # `-I dir` as two arguments (optional arm): must stand in front of the `-Idir` arm, which would otherwise take "-I" with an empty directory
    m_isep = re.search(r'if \(!strcmp\(argv\[i\], "-I"\)\) \{ strarray_push\(&include_paths, argv\[\+\+i\]\); continue; \}', pa[loop_start:])
    m_ipre = re.search(r'if \(!strncmp\(argv\[i\], "-I", 2\)\)', pa[loop_start:])
    if m_isep and m_isep.start() > m_ipre.start():
        raise ExtractError('parse_args: the `-I dir` arm stands behind the `-Idir` arm')
    if n_push_pa != 1 + (1 if m_isep else 0) + (1 if idir_in_pa else 0):
        raise ExtractError(f'parse_args pushes onto include_paths {n_push_pa} times; expected the -I arm(s)'
                           + (' and the -idirafter loop' if idir_in_pa else ''))

    # define(): NAME=BODY / NAME -> "1"
    dbody = norm(function_body(mainc, r'^static\s+void\s+define\s*\(\s*char\s*\*\s*str\s*\)\s*\{', 'define'))
    if dbody != "char *eq = strchr(str, '='); if (eq) define_macro(strndup(str, eq - str), eq + 1); else define_macro(str, \"1\");":
        raise ExtractError('define() has a shape the translator does not understand: ' + dbody)

    # ---------------------------------------------------------------- main(): order of the pushes in the cc1 child
    mb = norm(function_body(mainc, r'^int\s+main\s*\(\s*int\s+argc\s*,\s*char\s*\*\*\s*argv\s*\)\s*\{', 'main'))
    m = must(r'init_macros\(\); parse_args\(argc, argv\); if \(opt_cc1\) \{(.*?)cc1\(\); return 0; \}', mb, 'the cc1 branch of main')
    cc1_branch = m.group(1).strip()
    segs = ['I']                                  # parse_args runs first; -I is pushed there
    if idir_in_pa:
        segs.append('after')
    pos = 0
    stmts = []
    while pos < len(cc1_branch):
        tail = cc1_branch[pos:].lstrip()
        pos = len(cc1_branch) - len(tail)
        if not tail:
            break
        m1 = re.match(r'add_default_include_paths\(argv\[0\]\);', tail)
        m2 = re.match(r'for \(int i = 0; i < idirafter\.len; i\+\+\) strarray_push\(&include_paths, idirafter\.data\[i\]\);', tail)
        if m1:
            stmts.append('sys'); pos += m1.end()
        elif m2:
            stmts.append('after'); pos += m2.end()
        else:
            raise ExtractError('cc1 branch of main(): statement of unknown shape: ' + tail[:80])
    segs += stmts
    if sorted(segs) != ['I', 'after', 'sys']:
        raise ExtractError(f'include_paths is assembled from segments {segs}; expected each of -I, system, -idirafter once')

    # ---------------------------------------------------------------- cc1(): -include files first, in order, then the main file
    cb = norm(function_body(mainc, r'^static\s+void\s+cc1\s*\(\s*void\s*\)\s*\{', 'cc1'))
    must(r'^Token \*tok = NULL; for \(int i = 0; i < opt_include\.len; i\+\+\) \{ char \*incl = opt_include\.data\[i\]; char \*path; '
         r'if \(file_exists\(incl\)\) \{ path = incl; \} else \{ path = search_include_paths\(incl\); if \(!path\) error\("-include: %s: %s", incl, strerror\(errno\)\); \} '
         r'Token \*tok2 = must_tokenize_file\(path\); tok = append_tokens\(tok, tok2\); \} '
         r'Token \*tok2 = must_tokenize_file\(base_file\); tok = append_tokens\(tok, tok2\); tok = preprocess\(tok\);', cb, 'the head of cc1')

    # ---------------------------------------------------------------- skip functions
    def names_in(fn_regex, what):
        b = norm(function_body(pp, fn_regex, what))
        return b
    s1 = names_in(r'^static\s+Token\s*\*\s*skip_cond_incl\s*\(\s*Token\s*\*\s*tok\s*\)\s*\{', 'skip_cond_incl')
    s2 = names_in(r'^static\s+Token\s*\*\s*skip_cond_incl2\s*\(\s*Token\s*\*\s*tok\s*\)\s*\{', 'skip_cond_incl2')
    null_first = 'if (is_null_directive(tok)) { tok = tok->next; continue; }'
    want1 = ('while (tok->kind != TK_EOF) { ' + null_first + ' if (is_hash(tok) && (equal(tok->next, "if") || equal(tok->next, "ifdef") || '
             'equal(tok->next, "ifndef"))) { tok = skip_cond_incl2(tok->next->next); continue; } '
             'if (is_hash(tok) && (equal(tok->next, "elif") || equal(tok->next, "else") || equal(tok->next, "endif"))) break; '
             'tok = tok->next; } return tok;')
    want2 = ('while (tok->kind != TK_EOF) { ' + null_first + ' if (is_hash(tok) && (equal(tok->next, "if") || equal(tok->next, "ifdef") || '
             'equal(tok->next, "ifndef"))) { tok = skip_cond_incl2(tok->next->next); continue; } '
             'if (is_hash(tok) && equal(tok->next, "endif")) return tok->next->next; tok = tok->next; } return tok;')
    def shape(body, what):
        """(opens, stops, null_first) of a skip loop; the control skeleton must be the known one"""
        opens = equal_names(body.split('skip_cond_incl2(tok->next->next)')[0], 'tok->next')
        stops = equal_names(body.split('skip_cond_incl2(tok->next->next)')[1], 'tok->next') if 'skip_cond_incl2(tok->next->next)' in body else []
        skeleton = re.sub(r'equal\(tok->next, "[a-z_]+"\)( \|\| equal\(tok->next, "[a-z_]+"\))*', 'NAMES', body)
        return opens, stops, body.startswith('while (tok->kind != TK_EOF) { ' + null_first), skeleton
    o1, st1, n1, sk1 = shape(s1, 'skip_cond_incl')
    o2, st2, n2, sk2 = shape(s2, 'skip_cond_incl2')
    _, _, _, wsk1 = shape(want1, '')
    _, _, _, wsk2 = shape(want2, '')
    strip_null = lambda s: s.replace(null_first + ' ', '')
    if strip_null(sk1) != strip_null(wsk1):
        raise ExtractError('skip_cond_incl has a control skeleton the translator does not understand: ' + s1)
    if strip_null(sk2) != strip_null(wsk2):
        raise ExtractError('skip_cond_incl2 has a control skeleton the translator does not understand: ' + s2)

    # ---------------------------------------------------------------- is_hash / is_null_directive / skip_line
    ih = norm(function_body(pp, r'^static\s+bool\s+is_hash\s*\(\s*Token\s*\*\s*tok\s*\)\s*\{', 'is_hash'))
    if ih not in ('return tok->at_bol && !tok->origin && equal(tok, "#");', 'return tok->at_bol && equal(tok, "#");'):
        raise ExtractError('is_hash has an unknown shape: ' + ih)
    ind = norm(function_body(pp, r'^static\s+bool\s+is_null_directive\s*\(\s*Token\s*\*\s*tok\s*\)\s*\{', 'is_null_directive'))
    if ind != 'return is_hash(tok) && tok->next->at_bol;':
        raise ExtractError('is_null_directive has an unknown shape: ' + ind)
    sl = norm(function_body(pp, r'^static\s+Token\s*\*\s*skip_line\s*\(\s*Token\s*\*\s*tok\s*\)\s*\{', 'skip_line'))
    m = re.fullmatch(r'if \(tok->at_bol\) return tok; warn_tok\(tok, "extra token"\); while \((!?)tok->at_bol\) tok = tok->next; return tok;', sl)
    if not m:
        raise ExtractError('skip_line has an unknown shape: ' + sl)
    skip_line_until_bol = m.group(1) == '!'

    # preprocess2: the null directive test comes before any directive name is looked at
    p2 = norm(function_body(pp, r'^static\s+Token\s*\*\s*preprocess2\s*\(\s*Token\s*\*\s*tok\s*\)\s*\{', 'preprocess2'))
    m = must(r'Token \*start = tok; tok = tok->next; (.*?)if \(equal\(tok, "include"\)\)', p2, 'the head of the directive dispatch in preprocess2')
    null_before_dispatch = norm(m.group(1)) == 'if (tok->at_bol) continue;'
    dispatch = equal_names(p2[m.start():], 'tok')
    # the arms of the conditional directives (text compared verbatim; the hand model transcribes exactly these)
    arms = {
        'if': 'if (equal(tok, "if")) { long val = eval_const_expr(&tok, tok); push_cond_incl(start, val); if (!val) tok = skip_cond_incl(tok); continue; }',
        'ifdef': 'if (equal(tok, "ifdef")) { if (tok->next->at_bol || tok->next->kind != TK_IDENT) error_tok(tok, "macro name must be an identifier"); bool defined = find_macro(tok->next); push_cond_incl(tok, defined); tok = skip_line(tok->next->next); if (!defined) tok = skip_cond_incl(tok); continue; }',
        'ifndef': 'if (equal(tok, "ifndef")) { if (tok->next->at_bol || tok->next->kind != TK_IDENT) error_tok(tok, "macro name must be an identifier"); bool defined = find_macro(tok->next); push_cond_incl(tok, !defined); tok = skip_line(tok->next->next); if (defined) tok = skip_cond_incl(tok); continue; }',
        'undef': 'if (equal(tok, "undef")) { tok = tok->next; if (tok->kind != TK_IDENT) error_tok(tok, "macro name must be an identifier"); undef_macro(strndup(tok->loc, tok->len)); tok = skip_line(tok->next); continue; }',
        'elif': 'if (equal(tok, "elif")) { if (!cond_incl || cond_incl->ctx == IN_ELSE) error_tok(start, "stray #elif"); cond_incl->ctx = IN_ELIF; if (!cond_incl->included && eval_const_expr(&tok, tok)) cond_incl->included = true; else tok = skip_cond_incl(tok); continue; }',
        'else': 'if (equal(tok, "else")) { if (!cond_incl || cond_incl->ctx == IN_ELSE) error_tok(start, "stray #else"); cond_incl->ctx = IN_ELSE; tok = skip_line(tok->next); if (cond_incl->included) tok = skip_cond_incl(tok); continue; }',
        'endif': 'if (equal(tok, "endif")) { if (!cond_incl) error_tok(start, "stray #endif"); cond_incl = cond_incl->next; tok = skip_line(tok->next); continue; }',
    }
    for k, v in arms.items():
        if v not in p2:
            raise ExtractError(f'preprocess2: the #{k} arm is not the one the hand model transcribes')
    pcb = norm(function_body(pp, r'^static\s+CondIncl\s*\*\s*push_cond_incl\s*\(\s*Token\s*\*\s*tok\s*,\s*bool\s+included\s*\)\s*\{', 'push_cond_incl'))
    if pcb != 'CondIncl *ci = calloc(1, sizeof(CondIncl)); ci->next = cond_incl; ci->ctx = IN_THEN; ci->tok = tok; ci->included = included; cond_incl = ci; return ci;':
        raise ExtractError('push_cond_incl has an unknown shape: ' + pcb)
    prb = norm(function_body(pp, r'^Token\s*\*\s*preprocess\s*\(\s*Token\s*\*\s*tok\s*\)\s*\{', 'preprocess'))
    if not prb.startswith('tok = preprocess2(tok); if (cond_incl) error_tok(cond_incl->tok, "unterminated conditional directive");'):
        raise ExtractError('preprocess does not start with preprocess2 + the unterminated-conditional test: ' + prb[:120])

    # ---------------------------------------------------------------- detect_include_guard
    dg = norm(function_body(pp, r'^static\s+char\s*\*\s*detect_include_guard\s*\(\s*Token\s*\*\s*tok\s*\)\s*\{', 'detect_include_guard'))
    want_dg = ('if (!is_hash(tok) || is_null_directive(tok) || !equal(tok->next, "ifndef")) return NULL; tok = tok->next->next; '
               'if (tok->kind != TK_IDENT) return NULL; char *macro = strndup(tok->loc, tok->len); tok = tok->next; '
               'if (!is_hash(tok) || is_null_directive(tok) || !equal(tok->next, "define") || !equal(tok->next->next, macro)) return NULL; '
               'int depth = 1; while (tok->kind != TK_EOF) { if (!is_hash(tok) || is_null_directive(tok)) { tok = tok->next; continue; } '
               'Token *dir = tok->next; if (equal(dir, "if") || equal(dir, "ifdef") || equal(dir, "ifndef")) depth++; '
               'else if (depth == 1 && (equal(dir, "elif") || equal(dir, "else"))) return NULL; '
               'else if (equal(dir, "endif") && --depth == 0) return (dir->next->kind == TK_EOF) ? macro : NULL; tok = dir; } return NULL;')
    if dg != want_dg:
        raise ExtractError('detect_include_guard is not the function the hand model transcribes: ' + dg)
    g_open = ['if', 'ifdef', 'ifndef']; g_reject = ['elif', 'else']; g_close = ['endif']

    # ---------------------------------------------------------------- include_file
    inf = norm(function_body(pp, r'^static\s+Token\s*\*\s*include_file\s*\(\s*Token\s*\*\s*tok\s*,\s*char\s*\*\s*path\s*,\s*Token\s*\*\s*filename_tok\s*\)\s*\{', 'include_file'))
    # since b453bf4: the nesting limit.  The test stands after the two shortcuts and before the file is opened; the depth of the new
    # File is the depth of the File of the directive's operand token + 1.  The limit itself is regenerated (Gen.includeDepthLimit).
    want_inf = ('if (hashmap_get(&pragma_once, path)) return tok; static HashMap include_guards; '
                'char *guard_name = hashmap_get(&include_guards, path); if (guard_name && hashmap_get(&macros, guard_name)) return tok; '
                'if (filename_tok->file->incl_depth >= LIMIT) error_tok(filename_tok, "#include nested too deeply"); '
                'Token *tok2 = tokenize_file(path); if (!tok2) error_tok(filename_tok, "%s: cannot open file: %s", path, strerror(errno)); '
                'tok2->file->incl_depth = filename_tok->file->incl_depth + 1; '
                'guard_name = detect_include_guard(tok2); if (guard_name) hashmap_put(&include_guards, path, guard_name); return append(tok2, tok);')
    m_lim = re.search(r'filename_tok->file->incl_depth >= (\d+)\)', inf)
    if not m_lim:
        raise ExtractError('include_file: no test of the form `filename_tok->file->incl_depth >= <number>`: ' + inf)
    depth_limit = int(m_lim.group(1))
    if inf != want_inf.replace('LIMIT', m_lim.group(1)):
        raise ExtractError('include_file is not the function the hand model transcribes: ' + inf)
    # incl_depth is written nowhere else, and a new File starts at depth 0 (calloc in new_file): main file and -include files
    hdr = strip_comments(read(repo, 'chibicc.h'))
    if not re.search(r'\bint\s+incl_depth\s*;', hdr):
        raise ExtractError('chibicc.h: File has no member `int incl_depth;`')
    tk = strip_comments(read(repo, 'tokenize.c'))
    nf = norm(function_body(tk, r'^File\s*\*\s*new_file\s*\(\s*char\s*\*\s*name\s*,\s*int\s+file_no\s*,\s*char\s*\*\s*contents\s*\)\s*\{', 'new_file'))
    if not nf.startswith('File *file = calloc(1, sizeof(File));') or 'incl_depth' in nf:
        raise ExtractError('new_file does not start from a zeroed File (incl_depth of the main file must be 0): ' + nf)
    n_uses = sum(len(re.findall(r'\bincl_depth\b', strip_comments(read(repo, f))))
                 for f in ('preprocess.c', 'tokenize.c', 'main.c', 'parse.c', 'codegen.c', 'type.c', 'hashmap.c', 'strings.c', 'unicode.c'))
    if n_uses != 3:
        raise ExtractError(f'incl_depth is used {n_uses} times in the sources; the model knows the three uses in include_file')

    # ---------------------------------------------------------------- search functions
    sp = norm(function_body(pp, r'^char\s*\*\s*search_include_paths\s*\(\s*char\s*\*\s*filename\s*\)\s*\{', 'search_include_paths'))
    want_sp = ("if (filename[0] == '/') return filename; static HashMap cache; char *cached = hashmap_get(&cache, filename); "
               'if (cached) return cached; for (int i = 0; i < include_paths.len; i++) { '
               'char *path = format("%s/%s", include_paths.data[i], filename); if (!file_exists(path)) continue; '
               'hashmap_put(&cache, filename, path); return path; } return NULL;')
    if sp != want_sp:
        raise ExtractError('search_include_paths is not the function the hand model transcribes: ' + sp)
    sn = norm(function_body(pp, r'^static\s+char\s*\*\s*search_include_next\s*\(\s*char\s*\*\s*filename\s*,\s*char\s*\*\s*cur_file\s*\)\s*\{', 'search_include_next'))
    want_sn = ("int i = 0; for (; i < include_paths.len; i++) { char *dir = include_paths.data[i]; int len = strlen(dir); "
               "if (!strncmp(dir, cur_file, len) && cur_file[len] == '/') break; } "
               'i = (i < include_paths.len) ? i + 1 : 0; for (; i < include_paths.len; i++) { '
               'char *path = format("%s/%s", include_paths.data[i], filename); if (file_exists(path)) return path; } return NULL;')
    if sn != want_sn:
        raise ExtractError('search_include_next is not the function the hand model transcribes: ' + sn)
    inc_arm = ('if (equal(tok, "include")) { bool is_dquote; char *filename = read_include_filename(&tok, tok->next, &is_dquote); '
               "if (filename[0] != '/' && is_dquote) { char *path = format(\"%s/%s\", dirname(strdup(start->file->name)), filename); "
               'if (file_exists(path)) { tok = include_file(tok, path, start->next->next); continue; } } '
               'char *path = search_include_paths(filename); tok = include_file(tok, path ? path : filename, start->next->next); continue; }')
    if inc_arm not in p2:
        raise ExtractError('preprocess2: the #include arm is not the one the hand model transcribes')
    incn_arm = ('if (equal(tok, "include_next")) { bool ignore; char *filename = read_include_filename(&tok, tok->next, &ignore); '
                'char *path = search_include_next(filename, start->file->name); '
                'tok = include_file(tok, path ? path : filename, start->next->next); continue; }')
    if incn_arm not in p2:
        raise ExtractError('preprocess2: the #include_next arm is not the one the hand model transcribes')
    once_arm = ('if (equal(tok, "pragma") && equal(tok->next, "once")) { hashmap_put(&pragma_once, tok->file->name, (void *)1); '
                'tok = skip_line(tok->next->next); continue; }')
    if once_arm not in p2:
        raise ExtractError('preprocess2: the #pragma once arm is not the one the hand model transcribes')

    # ---------------------------------------------------------------- the operand of #include (Model/IncludeOperand.lean)
    rif = norm(function_body(pp, r'^static\s+char\s*\*\s*read_include_filename\s*\(\s*Token\s*\*\*\s*rest\s*,\s*Token\s*\*\s*tok\s*,\s*bool\s*\*\s*is_dquote\s*\)\s*\{',
                            'read_include_filename'))
    want_rif = ('if (tok->kind == TK_STR) { *is_dquote = true; *rest = skip_line(tok->next); return strndup(tok->loc + 1, tok->len - 2); } '
                'if (equal(tok, "<")) { Token *start = tok; for (; !equal(tok, ">"); tok = tok->next) if (tok->at_bol || tok->kind == TK_EOF) '
                'error_tok(tok, "expected \'>\'"); *is_dquote = false; *rest = skip_line(tok->next); return join_tokens(start->next, tok); } '
                'if (tok->kind == TK_IDENT) { Token *tok2 = preprocess2(copy_line(rest, tok)); if (tok2->kind == TK_IDENT) error_tok(tok2, "expected a filename"); '
                'return read_include_filename(&tok2, tok2, is_dquote); } error_tok(tok, "expected a filename");')
    if rif != want_rif:
        raise ExtractError('read_include_filename is not the function the hand model transcribes: ' + rif)
    jt = norm(function_body(pp, r'^static\s+char\s*\*\s*join_tokens\s*\(\s*Token\s*\*\s*tok\s*,\s*Token\s*\*\s*end\s*\)\s*\{', 'join_tokens'))
    want_jt = ('int len = 1; for (Token *t = tok; t != end && t->kind != TK_EOF; t = t->next) { if (t != tok && (t->has_space || t->at_bol)) len++; len += t->len; } '
               'char *buf = calloc(1, len); int pos = 0; for (Token *t = tok; t != end && t->kind != TK_EOF; t = t->next) { '
               "if (t != tok && (t->has_space || t->at_bol)) buf[pos++] = ' '; strncpy(buf + pos, t->loc, t->len); pos += t->len; } buf[pos] = '\\0'; return buf;")
    if jt != want_jt:
        raise ExtractError('join_tokens is not the function the hand model transcribes: ' + jt)
    cl = norm(function_body(pp, r'^static\s+Token\s*\*\s*copy_line\s*\(\s*Token\s*\*\*\s*rest\s*,\s*Token\s*\*\s*tok\s*\)\s*\{', 'copy_line'))
    if cl != ('Token head = {}; Token *cur = &head; for (; !tok->at_bol && tok->kind != TK_EOF; tok = tok->next) cur = cur->next = copy_token(tok); '
              'cur->next = new_eof(tok); *rest = tok; return head.next;'):
        raise ExtractError('copy_line is not the function the hand model transcribes: ' + cl)
    fm = norm(function_body(pp, r'^static\s+Token\s*\*\s*file_macro\s*\(\s*Token\s*\*\s*tmpl\s*\)\s*\{', 'file_macro'))
    if fm != 'while (tmpl->origin) tmpl = tmpl->origin; LineMarker *m = line_marker_at(tmpl); return new_str_token(m ? m->display_name : tmpl->file->name, tmpl);':
        raise ExtractError('file_macro (__FILE__) is not the function the driver\'s expander transcribes: ' + fm)
    em = norm(function_body(pp, r'^static\s+bool\s+expand_macro\s*\(\s*Token\s*\*\*\s*rest\s*,\s*Token\s*\*\s*tok\s*\)\s*\{', 'expand_macro'))
    want_em_head = ('if (hideset_contains(tok->hideset, tok->loc, tok->len)) return false; Macro *m = find_macro(tok); if (!m) return false; '
                    'if (m->handler) { *rest = m->handler(tok); (*rest)->next = tok->next; return true; } '
                    'if (m->is_objlike) { Hideset *hs = hideset_union(tok->hideset, new_hideset(m->name)); Token *body = add_hideset(subst(m->body, NULL, true), hs); '
                    'for (Token *t = body; t->kind != TK_EOF; t = t->next) t->origin = tok; *rest = append(body, tok->next); '
                    'if (body->kind != TK_EOF) { (*rest)->at_bol = tok->at_bol; (*rest)->has_space = tok->has_space; } return true; } '
                    'if (!equal(tok->next, "(")) return false;')
    if not em.startswith(want_em_head):
        raise ExtractError('expand_macro: the object-like arm is not the one the driver\'s expander (IncludeOperand.expandObj) transcribes: ' + em[:400])

    out = HEADER.format(tool='c10incl.py', src='main.c, preprocess.c')
    out += 'namespace ChibiVerif.Gen.C10Incl\n\n'
    out += '/-- the three sources of `include_paths` entries -/\ninductive Seg where\n  | I | sys | after\n  deriving DecidableEq, Repr\n\n'
    out += '/-- order in which the cc1 child pushes the segments onto `include_paths` (parse_args, then main) -/\n'
    out += 'def pathOrder : List Seg := [' + ', '.join('.' + s for s in segs) + ']\n\n'
    out += '/-- what add_default_include_paths pushes (`$ARGV0DIR` = dirname(argv[0])) -/\n'
    out += 'def defaultDirs : List String := ' + lean_strs(defaults) + '\n\n'
    out += '/-- directive names after which skip_cond_incl starts skip_cond_incl2 / at which it stops -/\n'
    out += 'def skipOpen : List String := ' + lean_strs(o1) + '\n'
    out += 'def skipStop : List String := ' + lean_strs(st1) + '\n'
    out += '/-- directive names after which skip_cond_incl2 recurses / at which it returns -/\n'
    out += 'def skip2Open : List String := ' + lean_strs(o2) + '\n'
    out += 'def skip2Stop : List String := ' + lean_strs(st2) + '\n'
    out += '/-- both skip loops step over null directives before looking at a directive name -/\n'
    out += f'def skipNullFirst : Bool := {"true" if n1 and n2 else "false"}\n'
    out += '/-- preprocess2 tests for a null directive before it looks at a directive name -/\n'
    out += f'def dispatchNullFirst : Bool := {"true" if null_before_dispatch else "false"}\n'
    out += '/-- skip_line drops tokens until the next line-initial token (`while (!tok->at_bol)`) -/\n'
    out += f'def skipLineUntilBol : Bool := {"true" if skip_line_until_bol else "false"}\n'
    out += '/-- detect_include_guard: names that raise / reject at depth 1 / lower the depth -/\n'
    out += 'def guardOpen : List String := ' + lean_strs(g_open) + '\n'
    out += 'def guardReject : List String := ' + lean_strs(g_reject) + '\n'
    out += 'def guardClose : List String := ' + lean_strs(g_close) + '\n'
    out += '/-- directive names dispatched by preprocess2, in order -/\n'
    out += 'def dispatchOrder : List String := ' + lean_strs(dispatch) + '\n'
    out += '/-- parse_args also accepts `-I dir` as two arguments (pushed in the same command-line order) -/\n'
    out += f'def iSeparateArm : Bool := {"true" if m_isep else "false"}\n'
    out += '/-- include_file refuses an #include whose directive stands in a file of this nesting depth (main file = 0) -/\n'
    out += f'def includeDepthLimit : Nat := {depth_limit}\n\n'
    out += 'end ChibiVerif.Gen.C10Incl\n'
    return {'C10InclGen.lean': out}
