"""tokenize.c / preprocess.c / parse.c / codegen.c / type.c -> Gen/C19ConvGen.lean   (property C19, same-program half)

What the compiler proper reads of a token.  Translated (regenerated on every check run):
  tokenize.c  is_keyword: the table `kw[]` (a keyword is decided by the spelling alone: hashmap_get2(&map, tok->loc, tok->len));
              convert_pp_tokens / convert_pp_number / convert_pp_int: the Token fields read and the Token fields written through
              the token parameter, and the functions the token itself is handed to
  parse.c, codegen.c, type.c
              which of the Token fields that a second tokenize/preprocess may change without changing kind and spelling
              (at_bol, has_space, hideset, line_delta) are mentioned at all
Pinned (ExtractError otherwise):
  tokenize.c  is_keyword (table filled once, lookup by loc/len and nothing else), convert_pp_tokens (one loop: keyword test
              first, then pp-number conversion, nothing else)
(`preprocess()`: convert_pp_tokens and join_adjacent_string_literals exactly when -E is not given — pinned by c19pass.py.)
"""
import re
from common import *
from lexgen import norm, c_string, lean_chars, show

TOKEN_FIELDS = ['kind', 'next', 'val', 'fval', 'loc', 'len', 'ty', 'str', 'file', 'filename', 'line_no', 'line_delta', 'at_bol',
                'has_space', 'hideset', 'origin']
# fields of Token that no other struct of chibicc.h has and that re-reading the -E text may change
FLAG_FIELDS = ['at_bol', 'has_space', 'hideset', 'line_delta']


def field_uses(body, var):
    """(fields read, fields written) through `var->field` in a function body (comments already stripped)"""
    reads, writes = set(), set()
    for m in re.finditer(r'\b' + re.escape(var) + r'\s*->\s*([A-Za-z_]\w*)', body):
        f = m.group(1)
        if f not in TOKEN_FIELDS:
            raise ExtractError(f'unknown Token field {f}')
        rest = body[m.end():]
        if re.match(r'\s*=(?!=)', rest):
            writes.add(f)
        elif re.match(r'\s*(?:[-+*/%&|^]|<<|>>)=|\s*(?:\+\+|--)', rest) or re.search(r'(?:\+\+|--)\s*$', body[:m.start()]):
            reads.add(f)
            writes.add(f)
        else:
            reads.add(f)
    return reads, writes


def token_callees(body, var):
    """functions that receive the token itself as an argument"""
    out = set()
    for m in re.finditer(r'\b([A-Za-z_]\w*)\s*\(\s*' + re.escape(var) + r'\s*[,)]', body):
        if m.group(1) not in ('if', 'while', 'for', 'return', 'sizeof', 'switch'):
            out.add(m.group(1))
    return out


def lean_strs(xs):
    return '[' + ', '.join('"' + x + '"' for x in xs) + ']'


def generate(repo):
    src = read(repo, 'tokenize.c')
    # ---- is_keyword
    body = norm(strip_comments(function_body(src, r'^static\s+bool\s+is_keyword\s*\(\s*Token\s*\*\s*tok\s*\)\s*\{', 'is_keyword')))
    m = re.fullmatch(
        r'static HashMap map; if \(map\.capacity == 0\) \{ static char \*kw\[\] = \{(.*?),?\s*\}; '
        r'for \(int i = 0; i < sizeof\(kw\) / sizeof\(\*kw\); i\+\+\) hashmap_put\(&map, kw\[i\], \(void \*\)1\); \} '
        r'return hashmap_get2\(&map, tok->loc, tok->len\);', body)
    if not m:
        raise ExtractError('is_keyword has a shape the translator does not understand: ' + body[:300])
    lits = re.findall(r'"(?:\\.|[^"\\])*"', m.group(1))
    if norm(re.sub(r'"(?:\\.|[^"\\])*"', '', m.group(1))).replace(',', '').strip():
        raise ExtractError('is_keyword kw[]: something other than string literals in the table')
    kws = [c_string(l) for l in lits]
    if not kws or any(not k for k in kws):
        raise ExtractError('is_keyword kw[]: empty table or empty entry')
    # ---- convert_pp_tokens
    body = norm(strip_comments(function_body(src, r'^void\s+convert_pp_tokens\s*\(\s*Token\s*\*\s*tok\s*\)\s*\{', 'convert_pp_tokens')))
    if body != ('for (Token *t = tok; t->kind != TK_EOF; t = t->next) { if (is_keyword(t)) t->kind = TK_KEYWORD; '
                'else if (t->kind == TK_PP_NUM) convert_pp_number(t); }'):
        raise ExtractError('convert_pp_tokens changed (Model/C19Convert.lean was written after another text): ' + body)
    reads, writes, callees = set(), set(), set()
    r, w = field_uses(body, 't')
    reads |= r - {'next'}          # `next` is the list structure itself
    writes |= w
    callees |= token_callees(body, 't')
    for name, sig in (('convert_pp_number', r'^static\s+void\s+convert_pp_number\s*\(\s*Token\s*\*\s*tok\s*\)\s*\{'),
                      ('convert_pp_int', r'^static\s+bool\s+convert_pp_int\s*\(\s*Token\s*\*\s*tok\s*\)\s*\{'),
                      ('is_keyword', r'^static\s+bool\s+is_keyword\s*\(\s*Token\s*\*\s*tok\s*\)\s*\{')):
        b = norm(strip_comments(function_body(src, sig, name)))
        if re.search(r'\btok\b(?!\s*->)(?!\s*[,)])', b):
            raise ExtractError(f'{name}: the token parameter is used other than through `tok->field` or as a call argument')
        r, w = field_uses(b, 'tok')
        reads |= r
        writes |= w
        callees |= token_callees(b, 'tok')
    # ---- the compiler proper and the flag fields
    mentions = []
    for fn in ('parse.c', 'codegen.c', 'type.c'):
        t = strip_comments(read(repo, fn))
        for f in FLAG_FIELDS:
            if re.search(r'(?:->|\.)\s*' + f + r'\b', t):
                mentions.append(f'{fn}:{f}')
    out = HEADER.format(tool='c19conv.py', src='tokenize.c, parse.c, codegen.c, type.c')
    out += 'namespace ChibiVerif.Gen.C19Conv\n\n'
    out += '/-- tokenize.c `is_keyword`: `static char *kw[]`, in source order -/\n'
    out += 'def keywords : List (List Nat) := [\n'
    out += ',\n'.join(f'  {lean_chars(k)} /- {show(k)} -/' for k in kws)
    out += ']\n\n'
    out += ('/-- Token fields READ through the token by convert_pp_tokens, is_keyword, convert_pp_number, convert_pp_int\n'
            '    (`next`, the list structure, apart) -/\n')
    out += f'def convertReads : List String := {lean_strs(sorted(reads))}\n\n'
    out += '/-- Token fields WRITTEN by them -/\n'
    out += f'def convertWrites : List String := {lean_strs(sorted(writes))}\n\n'
    out += '/-- functions the token itself is handed to by them -/\n'
    out += f'def convertCallees : List String := {lean_strs(sorted(callees))}\n\n'
    out += ('/-- `file:field` for every field among at_bol, has_space, hideset, line_delta (Token fields no other struct has; what a\n'
            '    second tokenize/preprocess may change while kind and spelling stay) that parse.c, codegen.c or type.c mentions -/\n')
    out += f'def properFlagMentions : List String := {lean_strs(mentions)}\n\n'
    out += 'end ChibiVerif.Gen.C19Conv\n'
    return {'C19ConvGen.lean': out}
