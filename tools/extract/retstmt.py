"""parse.c stmt() `return`, codegen.c ND_RETURN / ND_FUNCALL return-value handling / epilogue -> Gen/ReturnGen.lean
(property C06: return-value conversion)

What is translated, as written in the source:

* parse.c stmt(), the arm `if (equal(tok, "return")) { ... }`: the statements between `add_type(exp);` and `node->lhs = exp;`
  become   retStep (rt e : TyD) : List TyD   - the targets of `exp = new_cast(exp, T)` in order
  (`rt` = current_fn->ty->return_ty, `e` = exp->ty after add_type);
* codegen.c gen_stmt(), `case ND_RETURN:`: what follows `gen_expr(node->lhs)` by `node->lhs->ty`
  becomes   retCopy (t : TyD) : RetCopy   (none / copy_struct_reg / copy_struct_mem)   and the jump template;
* codegen.c gen_expr(), `case ND_FUNCALL:`: the `switch (node->ty->kind)` after `depth -= stack_args;`
  becomes   retNorm (t : TyD) : Option Ins   - the instruction that normalises a narrow return value in the caller;
* codegen.c emit_text(): the lines after `.L.return.%s:` become `epilogue : List Ins`, the special rule for main
  `mainFallThrough : List Ins`.

Accepted shapes only; anything else raises ExtractError (never guessed)."""
import re
from common import *
import funcall as FC

PRIMS = FC.PRIMS


# ---------------------------------------------------------------- parse.c: the return statement

def tyref(toks, what):
    if toks in (['ty'], ['current_fn', '->', 'ty', '->', 'return_ty']):
        return 'rt'
    if toks == ['exp', '->', 'ty']:
        return 'e'
    raise ExtractError(f'retstmt: type expression of unknown shape {" ".join(toks)!r} in {what!r}')


def cond(toks, ty_bound):
    toks = FC.strip_parens(list(toks))
    text = ' '.join(toks)
    parts = FC.split_top(toks, '||')
    if len(parts) > 1:
        return '(' + ' || '.join(cond(p, ty_bound) for p in parts) + ')'
    parts = FC.split_top(toks, '&&')
    if len(parts) > 1:
        return '(' + ' && '.join(cond(p, ty_bound) for p in parts) + ')'
    if toks and toks[0] == '!':
        return '(!' + cond(toks[1:], ty_bound) + ')'
    def ref(s):
        ts = s.split(' ')
        if ts == ['ty'] and not ty_bound:
            raise ExtractError('retstmt: `ty` used before `Type *ty = current_fn->ty->return_ty;`')
        return tyref(ts, text)
    m = re.fullmatch(r'(is_integer|is_flonum|is_numeric) \( (.+) \)', text)
    if m:
        f = {'is_integer': 'isInteger', 'is_flonum': 'isFlonum', 'is_numeric': 'isNumeric'}[m.group(1)]
        return f'({f} {ref(m.group(2))})'
    m = re.fullmatch(r'(.+) -> kind (==|!=) (TY_\w+)', text)
    if m:
        return f'({ref(m.group(1))}.kind {m.group(2)} Kind.{m.group(3)})'
    m = re.fullmatch(r'(.+) -> size (<|<=|>|>=|==|!=) (\d+)', text)
    if m:
        return f'(decide ({ref(m.group(1))}.size {FC.REL[m.group(2)]} {m.group(3)}))'
    m = re.fullmatch(r'(.+) -> size (<|<=|>|>=|==|!=) (.+) -> size', text)
    if m:
        return f'(decide ({ref(m.group(1))}.size {FC.REL[m.group(2)]} {ref(m.group(3))}.size))'
    m = re.fullmatch(r'(.+) -> is_unsigned', text)
    if m:
        return f'{ref(m.group(1))}.isUnsigned'
    m = re.fullmatch(r'(.+) -> base', text)
    if m:
        return f'{ref(m.group(1))}.hasBase'
    raise ExtractError(f'retstmt: condition of unknown shape: {text!r}')


def gen_ret(stmts, casts, ty_bound, ind):
    pad = '  ' * ind
    if not stmts:
        return f'{pad}[{", ".join(casts)}]'
    s, rest = stmts[0], stmts[1:]
    if s[0] == 'block':
        return gen_ret(FC.flatten([s]) + rest, casts, ty_bound, ind)
    if s[0] == 'simple':
        text = ' '.join(s[1])
        if text == 'Type * ty = current_fn -> ty -> return_ty':
            return gen_ret(rest, casts, True, ind)
        m = re.fullmatch(r'exp = new_cast \( exp , (.+) \)', text)
        if m:
            t = m.group(1)
            if t in PRIMS:
                tt = t
            else:
                if t == 'ty' and not ty_bound:
                    raise ExtractError('retstmt: `ty` used before it is declared')
                tt = tyref(t.split(' '), text)
            return gen_ret(rest, casts + [tt], ty_bound, ind)
        raise ExtractError(f'retstmt: statement of unknown shape in the return arm: {text!r}')
    if s[0] == 'if':
        _, c, a, b = s
        then_ = FC.flatten([a]) + rest
        else_ = (FC.flatten([b]) if b is not None else []) + rest
        return (f'{pad}if {cond(c, ty_bound)} then\n' + gen_ret(then_, casts, ty_bound, ind + 1) + f'\n{pad}else\n' +
                gen_ret(else_, casts, ty_bound, ind + 1))
    raise ExtractError('retstmt: internal')


def balanced_block(text, start, what):
    """text[start] == '{' -> (inside, index after the closing brace)"""
    assert text[start] == '{'
    depth, j = 0, start
    while j < len(text):
        c = text[j]
        if c == '"':
            j += 1
            while text[j] != '"':
                if text[j] == '\\':
                    j += 1
                j += 1
        elif c == '{':
            depth += 1
        elif c == '}':
            depth -= 1
            if depth == 0:
                return text[start + 1:j], j + 1
        j += 1
    raise ExtractError(f'retstmt: unbalanced braces in {what}')


def return_arm(src):
    body = function_body(src, r'^static Node \*stmt\(Token \*\*rest, Token \*tok\)\s*\{', 'parse.c stmt()')
    m = must(r'if \(equal\(tok, "return"\)\) \{', body, 'stmt(): the `return` arm')
    arm, _ = balanced_block(body, m.end() - 1, 'the `return` arm')
    m = must(r'^\s*Node \*node = new_node\(ND_RETURN, tok\);\s*if \(consume\(rest, tok->next, ";"\)\)\s*return node;\s*'
             r'Node \*exp = expr\(&tok, tok->next\);\s*\*rest = skip\(tok, ";"\);\s*add_type\(exp\);', arm,
             'the `return` arm: node creation, `return;`, expression, add_type')
    rest = arm[m.end():]
    k = must(r'node->lhs = exp;\s*return node;\s*$', rest, 'the `return` arm: `node->lhs = exp; return node;`')
    mid = rest[:k.start()]
    return gen_ret(FC.P(FC.tokenize(mid)).stmts(), [], False, 1)


# ---------------------------------------------------------------- codegen.c

def ins_of(fmt, what):
    """println format of one instruction over registers / decimal immediates -> Lean `Ins` literal"""
    t = fmt.replace('%%', '%')
    m = re.fullmatch(r'  ([a-z][a-z0-9]*)(?: (.+))?', t)
    if not m:
        raise ExtractError(f'retstmt: {what}: not an instruction line: {fmt!r}')
    ops = []
    for o in (m.group(2).split(', ') if m.group(2) else []):
        if re.fullmatch(r'%[a-z0-9]+', o):
            ops.append(f'.r "{o}"')
        elif re.fullmatch(r'\$-?\d+', o):
            ops.append(f'.i {o[1:]}' if not o[1:].startswith('-') else f'.i ({o[1:]})')
        else:
            raise ExtractError(f'retstmt: {what}: operand {o!r} is neither a register nor a decimal immediate')
    return f'⟨"{m.group(1)}", [{", ".join(ops)}]⟩'


def nd_return(cg):
    body = function_body(cg, r'^static void gen_stmt\(Node \*node\)\s*\{', 'codegen.c gen_stmt()')
    m = must(r'case ND_RETURN:\s*if \(node->lhs\) \{', body, 'gen_stmt: case ND_RETURN')
    inner, end = balanced_block(body, m.end() - 1, 'case ND_RETURN')
    tail = body[end:]
    mj = must(r'^\s*println\("(  jmp \.L\.return\.%s)", current_fn->name\);\s*return;', tail, 'ND_RETURN: the jump to the epilogue')
    mi = must(r'^\s*gen_expr\(node->lhs\);\s*Type \*ty = node->lhs->ty;\s*switch \(ty->kind\) \{', inner,
              'ND_RETURN: gen_expr(node->lhs); Type *ty = node->lhs->ty; switch (ty->kind)')
    sw, after = balanced_block(inner, mi.end() - 1, 'ND_RETURN: switch')
    if inner[after:].strip():
        raise ExtractError(f'retstmt: ND_RETURN: statements after the switch: {inner[after:].strip()!r}')
    ms = re.fullmatch(r'\s*((?:case TY_\w+:\s*)+)if \(ty->size (<=|<|>=|>) (\d+)\)\s*(copy_struct_reg|copy_struct_mem)\(\);\s*else\s*'
                      r'(copy_struct_reg|copy_struct_mem)\(\);\s*break;\s*', sw)
    if not ms:
        raise ExtractError(f'retstmt: ND_RETURN: switch body of unknown shape: {sw.strip()!r}')
    kinds = re.findall(r'case (TY_\w+):', ms.group(1))
    rel, bound, a, b = ms.group(2), ms.group(3), ms.group(4), ms.group(5)
    tag = {'copy_struct_reg': '.reg', 'copy_struct_mem': '.mem'}
    guard = ' || '.join(f'(t.kind == Kind.{k})' for k in kinds)
    lean = (f'  if ({guard}) then\n    if (decide (t.size {FC.REL[rel]} {bound})) then {tag[a]} else {tag[b]}\n  else .none')
    return lean, mj.group(1)


def ret_norm(cg):
    body = function_body(cg, r'^static void gen_expr\(Node \*node\)\s*\{', 'codegen.c gen_expr()')
    m = must(r'println\("  call \*%%r10"\);\s*println\("  add \$%d, %%rsp", stack_args \* 8\);\s*depth -= stack_args;\s*'
             r'switch \(node->ty->kind\) \{', body, 'ND_FUNCALL: call, clean-up and the switch on the return type')
    sw, end = balanced_block(body, m.end() - 1, 'ND_FUNCALL: switch (node->ty->kind)')
    must(r'^\s*if \(node->ret_buffer && node->ty->size <= 16\) \{\s*copy_ret_buffer\(node->ret_buffer\);', body[end:],
         'ND_FUNCALL: copy_ret_buffer after the switch')
    arms = []
    pos = 0
    pat_one = re.compile(r'\s*case (TY_\w+):\s*println\("([^"]*)"\);\s*return;')
    pat_two = re.compile(r'\s*case (TY_\w+):\s*if \(node->ty->is_unsigned\)\s*println\("([^"]*)"\);\s*else\s*println\("([^"]*)"\);\s*return;')
    while sw[pos:].strip():
        m2 = pat_two.match(sw, pos)
        m1 = pat_one.match(sw, pos)
        if m2:
            arms.append((m2.group(1), ins_of(m2.group(2), 'ND_FUNCALL'), ins_of(m2.group(3), 'ND_FUNCALL')))
            pos = m2.end()
        elif m1:
            arms.append((m1.group(1), ins_of(m1.group(2), 'ND_FUNCALL'), None))
            pos = m1.end()
        else:
            raise ExtractError(f'retstmt: ND_FUNCALL: arm of unknown shape: {sw[pos:pos + 80].strip()!r}')
    seen = set()
    lines = ['  match t.kind with']
    for k, a, b in arms:
        if k in seen:
            raise ExtractError(f'retstmt: ND_FUNCALL: duplicate case {k}')
        seen.add(k)
        if b is None:
            lines.append(f'  | .{k} => some {a}')
        else:
            lines.append(f'  | .{k} => if t.isUnsigned then some {a} else some {b}')
    lines.append('  | _ => none')
    return '\n'.join(lines)


def epilogue(cg):
    body = function_body(cg, r'^static void emit_text\(Obj \*prog\)\s*\{', 'codegen.c emit_text()')
    m = must(r'gen_stmt\(fn->body\);\s*assert\(depth == 0\);', body, 'emit_text: gen_stmt(fn->body); assert(depth == 0)')
    rest = body[m.end():]
    mm = must(r'^\s*if \(strcmp\(fn->name, "main"\) == 0\)\s*println\("([^"]*)"\);\s*println\("\.L\.return\.%s:", fn->name\);', rest,
              'emit_text: the rule for main and the epilogue label')
    tail = rest[mm.end():]
    lines = []
    pos = 0
    pat = re.compile(r'\s*println\("([^"]*)"\);')
    while True:
        m3 = pat.match(tail, pos)
        if not m3:
            break
        lines.append(ins_of(m3.group(1), 'emit_text epilogue'))
        pos = m3.end()
    if tail[pos:].strip(' \n}') != '':
        raise ExtractError(f'retstmt: emit_text: text after the epilogue: {tail[pos:].strip()[:80]!r}')
    if not lines:
        raise ExtractError('retstmt: emit_text: no epilogue instructions')
    return ins_of(mm.group(1), 'emit_text main rule'), lines


# ---------------------------------------------------------------- entry

def generate(repo):
    ps = strip_comments(read(repo, 'parse.c'))
    cg = strip_comments(read(repo, 'codegen.c'))
    step = return_arm(ps)
    copy, jump = nd_return(cg)
    norm = ret_norm(cg)
    main_rule, epi = epilogue(cg)
    # new_cast: pinned by funcall.py (same function); gen_stmt reaches ND_RETURN only through this arm
    lean = HEADER.format(tool='retstmt.py', src='parse.c (stmt: return), codegen.c (ND_RETURN, ND_FUNCALL, emit_text)')
    lean += 'import ChibiVerif.Model.C01Codegen\n\nset_option linter.unusedVariables false\n\n'
    lean += ('namespace ChibiVerif.Gen.ReturnStmt\nopen ChibiVerif.Asm ChibiVerif.Gen.CommonType\n'
             'open ChibiVerif.C01Codegen (isInteger isFlonum)\n\n')
    lean += '/-- type.c `is_numeric` -/\ndef isNumeric (t : TyD) : Bool := isInteger t || isFlonum t\n\n'
    lean += ('/-- parse.c `stmt()`, `return expr;`: the targets of `exp = new_cast(exp, T)` in order; `rt` = the return type of the\n'
             '    current function, `e` = `exp->ty` after `add_type(exp)` -/\n'
             'def retStep (rt e : TyD) : List TyD :=\n' + step + '\n\n')
    lean += ('/-- what `case ND_RETURN` of `gen_stmt` calls after `gen_expr(node->lhs)` -/\n'
             'inductive RetCopy where\n  | none | reg | mem      -- nothing / copy_struct_reg() / copy_struct_mem()\n'
             '  deriving DecidableEq, Repr\n\n'
             '/-- `case ND_RETURN`: by `node->lhs->ty` -/\n'
             'def retCopy (t : TyD) : RetCopy :=\n' + copy + '\n\n')
    lean += f'/-- `case ND_RETURN`: the jump to the epilogue (`%s` = current_fn->name) -/\ndef returnJump : String := "{jump}"\n\n'
    lean += ('/-- `case ND_FUNCALL`: the instruction printed after `call` / `add $N, %rsp` by `node->ty` (none: no case) -/\n'
             'def retNorm (t : TyD) : Option Ins :=\n' + norm + '\n\n')
    lean += ('/-- `emit_text`: the instructions after the label `.L.return.<fn>:` -/\n'
             'def epilogue : List Ins := [' + ', '.join(epi) + ']\n\n')
    lean += ('/-- `emit_text`: what is printed before the epilogue label of `main` (C11 5.1.2.2.3) -/\n'
             f'def mainFallThrough : Ins := {main_rule}\n\n')
    lean += 'end ChibiVerif.Gen.ReturnStmt\n'
    return {'ReturnGen.lean': lean}


if __name__ == '__main__':
    import sys
    print(generate(sys.argv[1] if len(sys.argv) > 1 else '/repo')['ReturnGen.lean'])
