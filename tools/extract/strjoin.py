"""preprocess.c getStringKind / join_adjacent_string_literals, tokenize.c tokenize_string_literal / read_file,
type.c array_of  ->  Gen/StrJoinGen.lean      (property C11: adjacent string literals, the text the tokenizer sees)

Translated statement by statement (trees from cmini.parse_body; anything outside the shapes below raises ExtractError):

  StringKind           the enumerators of the `typedef enum { ... } StringKind;` in their order
  getStringKind        `if (!strncmp(tok->loc, "<lit>", n)) return K;` (n = strlen(lit): equality of the first n bytes) followed by
                       `switch (tok->loc[0]) { case '<c>': return K; ... } unreachable();`  -> an if-ladder in the order of the arms
  tokenize_string_literal
                       the dispatch `if (basety->size == N) t = READER(tok->loc, tok->loc[, basety]); else ...`: the readers are the
                       functions of Gen/LitReadersGen.lean (translated by literals.py) called with start = quote = tok->loc; the element
                       type each reader gives its token is read off `tok->ty = array_of(<ty>, len + 1)` in the reader; the remaining
                       statements must be `t->F = tok->F;` for fields the model does not carry (positions, `next`) and `return t;`
  array_of             `new_type(TY_ARRAY, <size expression>, base->align)`: the size expression
  join_adjacent_string_literals
                       both passes have the outer shape
                           for (Token *tok1 = tok; tok1->kind != TK_EOF;) {
                             if (tok1->kind != TK_STR || tok1->next->kind != TK_STR) { tok1 = tok1->next; continue; }
                             BODY
                             <leave the run: `while (tok1->kind == TK_STR) tok1 = tok1->next;`  |  `tok1->next = tok2; tok1 = tok2;`>
                           }
                       i.e. BODY runs once for every maximal run `tok1 :: rest` of at least two adjacent TK_STR tokens (this outer
                       shape is required literally; the iteration over the runs is Model/StrJoin.lean `joinTokens`, tied by the
                       differential run on whole token lists).  BODY is translated statement by statement into
                           joinPass1 tok1 rest : Except JoinErr (List Tok)      (the tokens of the run after the first pass)
                           joinPass2 tok1 rest : Except JoinErr Tok             (the token that replaces the run)
                       with every inner loop `for (Token *t = tok1 | tok1->next; t->kind == TK_STR | t != tok2; t = t->next)` a
                       structurally recursive function over the tokens it visits (state = the locals its body assigns; `*t = ...`
                       replaces the visited token), `int` locals as `Int`, `calloc` a list of zero bytes, `memcpy(buf + i, src, n)` a
                       bounds-checked store (`store_outside` when it leaves the allocation or reads past the source), `error_tok` an
                       `Except` outcome named after its message.
  read_file            everything after the read loop: `fflush(out); if (COND) fputc('\\n', out); fputc('\\0', out); fclose(out); return buf;`
                       with COND over `buflen` / `buf[...]` translated; the read loop (fread/fwrite through an open_memstream) is
                       required literally and stands for "the stream holds the bytes of the file" (libc, trusted).
"""
import re
from common import *
import cmini
from cursor import err_ctor, indent

PREAMBLE = '''/-- What the translated functions see of a `Token` (chibicc.h): whether `kind == TK_STR`, the text at `tok->loc` (up to the end of
    the file's text, NUL-terminated in C), `tok->ty->base`, `tok->ty->array_len`, and the `tok->ty->size` bytes at `tok->str`.
    Positions, `len`, `next` are not modelled here (a run of adjacent tokens is a `List Tok`). -/
structure Tok where
  isStr : Bool
  loc : List (BitVec 8)
  base : Ty
  arrayLen : Int
  str : List (BitVec 8)
  deriving DecidableEq, Repr

/-- outcomes other than returning: the `error_tok` sites (named after their messages), `unreachable()`, a diagnostic of a reader
    called by `tokenize_string_literal`, and a `memcpy` that does not stay inside its allocation / its source -/
inductive JoinErr
{ctors}
  | unreachable
  | read (e : ReadErr)
  | store_outside
  deriving DecidableEq, Repr

/-- the `size` bytes of one code unit in memory (little-endian: x86-64) -/
def unitBytes (size : Nat) (u : Nat) : List (BitVec 8) := (List.range size).map (fun k => BitVec.ofNat 8 (u / 256 ^ k))

/-- the bytes at `tok->str` of a string-literal token whose code units are `units`: the units followed by one zero unit (the buffer of every
    reader is `calloc`ed with room for it) -/
def strBytes (size : Nat) (units : List Nat) : List (BitVec 8) := units.flatMap (unitBytes size) ++ List.replicate size 0#8

/-- epilogue of the three readers of tokenize.c (`Token *tok = new_token(TK_STR, start, end + 1); tok->ty = array_of(<ty>, len + 1);
    tok->str = buf;`, shape checked by literals.py) for the units they stored -/
def readerTok (loc : List (BitVec 8)) (base : Ty) (units : List Nat) : Tok :=
  ⟨true, loc, base, (units.length : Int) + 1, strBytes base.size units⟩

/-- libc `calloc(size, n)`: `size * n` zero bytes (trusted; a negative `int` argument would be a huge `size_t`: modelled as no bytes, so
    that every store fails) -/
def calloc (size n : Int) : List (BitVec 8) := List.replicate (size * n).toNat 0#8

/-- libc `memcpy(buf + off, src, n)`; `none` = the copy leaves the allocation `buf` or reads past the `src` bytes -/
def memcpyAt (buf : List (BitVec 8)) (off : Int) (src : List (BitVec 8)) (n : Int) : Option (List (BitVec 8)) :=
  if 0 ≤ off ∧ 0 ≤ n ∧ n.toNat ≤ src.length ∧ off.toNat + n.toNat ≤ buf.length then
    some (buf.take off.toNat ++ (src.take n.toNat ++ buf.drop (off.toNat + n.toNat)))
  else none

'''

NON_MODELLED_FIELDS = {'file', 'filename', 'line_no', 'line_delta', 'at_bol', 'has_space', 'origin', 'hideset', 'next', 'val', 'fval'}
LEAN_TYPES = {'int': 'Int', 'kind': 'StringKind', 'ty': 'Ty', 'tok': 'Tok', 'buf': 'List (BitVec 8)'}
TY_PRIMS = {'ty_char', 'ty_short', 'ty_int', 'ty_long', 'ty_uchar', 'ty_ushort', 'ty_uint', 'ty_ulong', 'ty_bool'}


def norm(s):
    return re.sub(r'\s+', ' ', s).strip()


def mem_path(e):
    """('mem','->',('mem','->',('id','t'),'ty'),'base') -> ('t', ['ty', 'base'])"""
    path = []
    while e[0] == 'mem' and e[1] == '->':
        path.append(e[3])
        e = e[2]
    if e[0] != 'id':
        return None
    return e[1], list(reversed(path))


class Ctx:
    def __init__(self, kinds):
        self.kinds = kinds
        self.errors = []
        self.defs = []
        self.nloop = 0
        self.fname = ''

    # ------------------------------------------------------------ expressions
    def value(self, e, env):
        """-> (lean text, type in int/kind/ty/bytes/buf)"""
        k = e[0]
        if k == 'num':
            return str(e[1]), 'int'
        if k == 'id':
            if e[1] in self.kinds:
                return f'StringKind.{e[1]}', 'kind'
            if e[1] in env and env[e[1]][1] in ('int', 'kind', 'ty', 'buf'):
                return env[e[1]]
            raise ExtractError(f'{self.fname}: identifier {e[1]} not understood as a value')
        if k == 'mem':
            mp = mem_path(e)
            if mp is None:
                raise ExtractError(f'{self.fname}: member access {e!r}')
            v, path = mp
            ty = env.get(v, (None, None))[1]
            if ty == 'tok':
                x = env[v][0]
                table = {('ty', 'array_len'): (f'{x}.arrayLen', 'int'), ('ty', 'size'): (f'{x}.tySize', 'int'),
                         ('ty', 'base', 'size'): (f'({x}.base.size : Int)', 'int'), ('ty', 'base'): (f'{x}.base', 'ty'),
                         ('str',): (f'{x}.str', 'bytes')}
                if tuple(path) in table:
                    return table[tuple(path)]
            if ty == 'ty' and path == ['size']:
                return f'({env[v][0]}.size : Int)', 'int'
            raise ExtractError(f'{self.fname}: member access {v}->{"->".join(path)} not understood')
        if k == 'bin' and e[1] in ('+', '-', '*'):
            a, ta = self.value(e[2], env)
            b, tb = self.value(e[3], env)
            if ta != 'int' or tb != 'int':
                raise ExtractError(f'{self.fname}: arithmetic on {ta} and {tb}')
            return f'({a} {e[1]} {b})', 'int'
        raise ExtractError(f'{self.fname}: expression {e!r} not supported')

    def cond(self, e, env):
        k = e[0]
        if k == 'bin' and e[1] in ('&&', '||'):
            return f'({self.cond(e[2], env)} {"∧" if e[1] == "&&" else "∨"} {self.cond(e[3], env)})'
        if k == 'un' and e[1] == '!':
            return f'(¬ {self.cond(e[2], env)})'
        if k == 'bin' and e[1] in ('==', '!=', '<', '<=', '>', '>='):
            a, ta = self.value(e[2], env)
            b, tb = self.value(e[3], env)
            if ta != tb or ta not in ('int', 'kind') or (ta == 'kind' and e[1] not in ('==', '!=')):
                raise ExtractError(f'{self.fname}: comparison of {ta} with {tb}')
            op = {'==': '=', '!=': '≠', '<': '<', '<=': '≤', '>': '>', '>=': '≥'}[e[1]]
            return f'({a} {op} {b})'
        raise ExtractError(f'{self.fname}: condition {e!r} not supported')

    def error_ctor(self, msg):
        c = err_ctor(msg)
        if c not in self.errors:
            self.errors.append(c)
        return c

    # ------------------------------------------------------------ statements of a run body / loop body
    def stmts(self, ss, env, k):
        """lean text of the statements `ss` followed by the continuation `k(env)`"""
        if not ss:
            return k(env)
        s, rest = ss[0], ss[1:]
        cont = lambda env2: self.stmts(rest, env2, k)
        kind = s[0]
        if kind == 'block':
            return self.stmts(list(s[1]) + list(rest), env, k)
        if kind == 'if':
            c = self.cond(s[1], env)
            th = self.stmts(cmini.unblock(s[2]), env, cont)
            el = self.stmts(cmini.unblock(s[3]), env, cont)
            return f'if {c} then\n{indent(th)}\nelse\n{indent(el)}'
        if kind == 'decl' or (kind == 'expr' and s[1][0] == 'assign' and s[1][1] == '=' and s[1][2][0] == 'id'):
            if kind == 'decl':
                cty, name, init = s[1], s[2], s[3]
                want = {'StringKind': 'kind', 'Type*': 'ty', 'int': 'int', 'char*': 'buf'}.get(cty)
                if want is None or init is None:
                    raise ExtractError(f'{self.fname}: declaration `{cty} {name}` not supported')
            else:
                name, init = s[1][2][1], s[1][3]
                if name not in env or env[name][1] not in ('kind', 'ty', 'int'):
                    raise ExtractError(f'{self.fname}: assignment to {name} not supported')
                want = env[name][1]
            env2 = dict(env)
            env2[name] = (name, want)
            if init[0] == 'call' and init[1] == 'getStringKind' and want == 'kind':
                (a,) = init[2]
                if a[0] != 'id' or env.get(a[1], (None, None))[1] != 'tok':
                    raise ExtractError(f'{self.fname}: argument of getStringKind')
                return f'match getStringKind {env[a[1]][0]} with\n| .error e => .error e\n| .ok {name} =>\n{indent(cont(env2))}'
            if init[0] == 'call' and init[1] == 'calloc' and want == 'buf' and len(init[2]) == 2:
                a, ta = self.value(init[2][0], env)
                b, tb = self.value(init[2][1], env)
                if ta != 'int' or tb != 'int':
                    raise ExtractError(f'{self.fname}: calloc arguments')
                return f'let {name} : List (BitVec 8) := calloc {a} {b}\n{cont(env2)}'
            v, tv = self.value(init, env)
            if tv != want:
                raise ExtractError(f'{self.fname}: `{name}` of type {want} initialised/assigned with a {tv}')
            return f'let {name} : {LEAN_TYPES[want]} := {v}\n{cont(env2)}'
        if kind == 'expr' and s[1][0] == 'call' and s[1][1] == 'error_tok':
            args = s[1][2]
            if len(args) != 2 or args[1][0] != 'str':
                raise ExtractError(f'{self.fname}: error_tok call')
            return f'.error .{self.error_ctor(args[1][1])}'
        if kind == 'expr' and s[1][0] == 'call' and s[1][1] == 'memcpy':
            d, src, n = s[1][2]
            if d[0] == 'bin' and d[1] == '+' and d[2][0] == 'id' and env.get(d[2][1], (None, None))[1] == 'buf':
                bufv, (off, to) = d[2][1], self.value(d[3], env)
            elif d[0] == 'id' and env.get(d[1], (None, None))[1] == 'buf':
                bufv, (off, to) = d[1], ('0', 'int')
            else:
                raise ExtractError(f'{self.fname}: memcpy destination')
            sv, ts = self.value(src, env)
            nv, tn = self.value(n, env)
            if to != 'int' or ts != 'bytes' or tn != 'int':
                raise ExtractError(f'{self.fname}: memcpy arguments')
            return f'match memcpyAt {bufv} {off} {sv} {nv} with\n| none => .error .store_outside\n| some {bufv} =>\n{indent(cont(env))}'
        if kind == 'expr' and s[1][0] == 'assign' and s[1][1] == '=':
            lhs, rhs = s[1][2], s[1][3]
            # *t = *tokenize_string_literal(t, basety);
            if lhs[0] == 'un' and lhs[1] == '*' and lhs[2][0] == 'id' and env.get(lhs[2][1], (None, None))[1] == 'tok' \
                    and rhs[0] == 'un' and rhs[1] == '*' and rhs[2][0] == 'call':
                t = lhs[2][1]
                fn, args = rhs[2][1], rhs[2][2]
                if fn == 'tokenize_string_literal' and len(args) == 2 and args[0] == ('id', t) and args[1][0] == 'id' \
                        and env.get(args[1][1], (None, None))[1] == 'ty':
                    if not env.get('__mutable'):
                        raise ExtractError(f'{self.fname}: `*{t} = …` outside a loop over the run')
                    env2 = dict(env)
                    env2['__mutated'] = True
                    return (f'match tokenizeStringLiteral {env[t][0]} {env[args[1][1]][0]} with\n| .error e => .error e\n| .ok {t} =>\n'
                            f'{indent(cont(env2))}')
                if fn == 'copy_token' and args == [('id', t)]:
                    return f'-- *{t} = *copy_token({t});   (a copy of the same token: no modelled field changes)\n{cont(env)}'
                raise ExtractError(f'{self.fname}: `*{t} = *{fn}(…)` not supported')
            mp = mem_path(lhs)
            if mp and env.get(mp[0], (None, None))[1] == 'tok' and not env.get('__mutable'):
                x = mp[0]
                if mp[1] == ['ty'] and rhs[0] == 'call' and rhs[1] == 'array_of' and len(rhs[2]) == 2:
                    b, tb = self.value(rhs[2][0], env)
                    l, tl = self.value(rhs[2][1], env)
                    if tb != 'ty' or tl != 'int':
                        raise ExtractError(f'{self.fname}: array_of arguments')
                    return f'let {x} : Tok := {{ {x} with base := {b}, arrayLen := {l} }}      -- {x}->ty = array_of(…, …);\n{cont(env)}'
                if mp[1] == ['str']:
                    v, tv = self.value(rhs, env)
                    if tv != 'buf':
                        raise ExtractError(f'{self.fname}: {x}->str = <{tv}>')
                    return f'let {x} : Tok := {{ {x} with str := {v} }}\n{cont(env)}'
            raise ExtractError(f'{self.fname}: assignment {s!r} not supported')
        if kind == 'for':
            return self.loop(s, env, cont)
        raise ExtractError(f'{self.fname}: statement {s!r} not supported')

    # ------------------------------------------------------------ loops over the tokens of the run
    def loop(self, s, env, cont):
        init, cond, step, body = s[1], s[2], s[3], s[4]
        if not (init and init[0] == 'decl' and init[1] == 'Token*'):
            raise ExtractError(f'{self.fname}: loop initialiser')
        t = init[2]
        if init[3] == ('id', 'tok1'):
            whole = True
        elif init[3] == ('mem', '->', ('id', 'tok1'), 'next'):
            whole = False
        else:
            raise ExtractError(f'{self.fname}: loop over tokens starts at {init[3]!r}')
        ok_cond = cond == ('bin', '==', ('mem', '->', ('id', t), 'kind'), ('id', 'TK_STR')) or \
            (cond == ('bin', '!=', ('id', t), ('id', 'tok2')) and env.get('tok2') == ('', 'runend'))
        if not ok_cond or step != ('assign', '=', ('id', t), ('mem', '->', ('id', t), 'next')):
            raise ExtractError(f'{self.fname}: loop over tokens: condition/step not understood')
        if env.get('tok1', (None, None))[1] != 'tok':
            raise ExtractError(f'{self.fname}: loop over the run after the run was rewritten')
        body = cmini.unblock(body)
        assigned = []
        declared = set()

        def scan(ss):
            for x in ss:
                if x[0] == 'block':
                    scan(x[1])
                elif x[0] == 'if':
                    scan(cmini.unblock(x[2])); scan(cmini.unblock(x[3]))
                elif x[0] == 'decl':
                    declared.add(x[2])
                elif x[0] == 'expr' and x[1][0] == 'assign' and x[1][2][0] == 'id':
                    if x[1][2][1] not in declared and x[1][2][1] not in assigned:
                        assigned.append(x[1][2][1])
                elif x[0] == 'expr' and x[1][0] == 'call' and x[1][1] == 'memcpy':
                    d = x[1][2][0]
                    b = d[2][1] if d[0] == 'bin' else d[1]
                    if b not in assigned:
                        assigned.append(b)
                elif x[0] in ('for', 'while'):
                    raise ExtractError(f'{self.fname}: nested loop inside a loop over the run')
        scan(body)
        for v in assigned:
            if v not in env or env[v][1] not in ('int', 'kind', 'ty', 'buf'):
                raise ExtractError(f'{self.fname}: loop assigns {v}')
        state = [v for v in env if not v.startswith('__') and env[v][1] in ('int', 'kind', 'ty', 'buf') and v in assigned]
        mentioned = set(re.findall(r"\('id', '(\w+)'\)", repr(body)))
        params = [v for v in env if not v.startswith('__') and env[v][1] in ('int', 'kind', 'ty', 'buf') and v not in assigned and v in mentioned]
        self.nloop += 1
        name = f'{self.fname}_loop{self.nloop}'
        benv = {v: env[v] for v in state + params}
        benv[t] = (t, 'tok')
        benv['__mutable'] = True
        mutated = []

        def k_end(e2):
            if e2.get('__mutated'):
                mutated.append(True)
            return '@@CONTINUE@@'
        body_txt = self.stmts(body, benv, k_end)
        mut = bool(mutated)
        st_args = ''.join(f' {v}' for v in state)
        rec = f'{name}{"".join(" " + p for p in params)} ts{st_args}'
        tup = lambda names: names[0] if len(names) == 1 else '(' + ', '.join(names) + ')'
        if mut:
            res_names = ['ts\''] + state
            cont_txt = f'match {rec} with\n| .error e => .error e\n| .ok {tup(res_names)} => .ok {tup([f"({t} :: ts" + chr(39) + ")"] + state)}'
            nil_res = tup(['[]'] + state)
            res_ty = ' × '.join(['List Tok'] + [LEAN_TYPES[env[v][1]] for v in state])
        else:
            if not state:
                raise ExtractError(f'{self.fname}: loop without effect')
            cont_txt = rec
            nil_res = tup(state)
            res_ty = ' × '.join(LEAN_TYPES[env[v][1]] for v in state)
        # the continuation may stand at several leaves (if/else): substitute with the right indentation
        lines = []
        for ln in body_txt.split('\n'):
            if ln.strip() == '@@CONTINUE@@':
                pad = ln[:len(ln) - len(ln.lstrip())]
                lines += [pad + x for x in cont_txt.split('\n')]
            else:
                lines.append(ln)
        body_txt = '\n'.join(lines)
        sig = ''.join(f' ({p} : {LEAN_TYPES[env[p][1]]})' for p in params)
        st_tys = ''.join(f' → {LEAN_TYPES[env[v][1]]}' for v in state)
        hdr = (f'/-- {self.fname}: the loop `for (Token *{t} = {"tok1" if whole else "tok1->next"}; …; {t} = {t}->next)` over the tokens it visits'
               f'{"; state: " + ", ".join(state) if state else ""}{"; the visited token may be replaced" if mut else ""} -/\n')
        d = hdr + f'def {name}{sig} : List Tok{st_tys} → Except JoinErr ({res_ty})\n'
        d += f'  | []{"".join(", " + v for v in state)} => .ok {nil_res}\n'
        d += f'  | {t} :: ts{"".join(", " + v for v in state)} =>\n{indent(body_txt, 4)}\n'
        self.defs.append(d)
        lst = '(tok1 :: rest)' if whole else 'rest'
        call = f'{name}{"".join(" " + env[p][0] for p in params)} {lst}{"".join(" " + env[v][0] for v in state)}'
        env2 = dict(env)
        if mut:
            if not whole:
                raise ExtractError(f'{self.fname}: a loop that replaces tokens must visit the whole run')
            env2['__run'] = 'run'
            del env2['tok1']
            return f'match {call} with\n| .error e => .error e\n| .ok {tup(["run"] + state)} =>\n{indent(cont(env2))}'
        return f'match {call} with\n| .error e => .error e\n| .ok {tup(state)} =>\n{indent(cont(env2))}'


SKIP = ('if', ('bin', '||', ('bin', '!=', ('mem', '->', ('id', 'tok1'), 'kind'), ('id', 'TK_STR')),
               ('bin', '!=', ('mem', '->', ('mem', '->', ('id', 'tok1'), 'next'), 'kind'), ('id', 'TK_STR'))),
        ('block', [('expr', ('assign', '=', ('id', 'tok1'), ('mem', '->', ('id', 'tok1'), 'next'))), ('continue',)]), None)
LEAVE1 = [('while', ('bin', '==', ('mem', '->', ('id', 'tok1'), 'kind'), ('id', 'TK_STR')),
           ('expr', ('assign', '=', ('id', 'tok1'), ('mem', '->', ('id', 'tok1'), 'next'))))]
FIND_END = [('decl', 'Token*', 'tok2', ('mem', '->', ('id', 'tok1'), 'next')),
            ('while', ('bin', '==', ('mem', '->', ('id', 'tok2'), 'kind'), ('id', 'TK_STR')),
             ('expr', ('assign', '=', ('id', 'tok2'), ('mem', '->', ('id', 'tok2'), 'next'))))]
LEAVE2 = [('expr', ('assign', '=', ('mem', '->', ('id', 'tok1'), 'next'), ('id', 'tok2'))),
          ('expr', ('assign', '=', ('id', 'tok1'), ('id', 'tok2')))]


def gen_kinds(pp):
    m = re.search(r'typedef\s+enum\s*\{([^}]*)\}\s*StringKind\s*;', pp)
    if not m:
        raise ExtractError('preprocess.c: typedef enum { ... } StringKind not found')
    names = [x.strip() for x in m.group(1).split(',') if x.strip()]
    if not names or any(not re.fullmatch(r'STR_\w+', n) for n in names):
        raise ExtractError(f'StringKind enumerators {names!r} (an enumerator with a value is not supported)')
    out = '/-- preprocess.c `StringKind` -/\ninductive StringKind\n' + ''.join(f'  | {n}\n' for n in names) + '  deriving DecidableEq, Repr\n'
    return names, out


def c_char(txt):
    body = txt[1:-1]
    if body.startswith('\\'):
        if body[1] not in cmini.SIMPLE_ESC or len(body) != 2:
            raise ExtractError(f'character constant {txt}')
        return cmini.SIMPLE_ESC[body[1]]
    if len(body) != 1 or not (32 <= ord(body) < 127):
        raise ExtractError(f'character constant {txt}')
    return ord(body)


def gen_get_string_kind(pp, kinds):
    body = function_body(pp, r'^static\s+StringKind\s+getStringKind\s*\(\s*Token\s*\*\s*tok\s*\)\s*\{', 'getStringKind')
    nb = norm(body)
    m = re.fullmatch(r'((?:if \(!strncmp\(tok->loc, "(?:[^"\\]|\\.)*", \d+\)\) return \w+; )*)switch \(tok->loc\[0\]\) \{ (.*?) \} unreachable\(\);', nb)
    if not m:
        raise ExtractError('getStringKind has a shape the translator does not understand')
    arms = []
    for lit, n, kd in re.findall(r'if \(!strncmp\(tok->loc, "((?:[^"\\]|\\.)*)", (\d+)\)\) return (\w+); ', m.group(1)):
        if '\\' in lit or int(n) != len(lit) or not lit:
            raise ExtractError(f'getStringKind: strncmp(tok->loc, "{lit}", {n}): only a full comparison with a literal without escapes is understood')
        if kd not in kinds:
            raise ExtractError(f'getStringKind returns {kd}')
        test = ' ∧ '.join(f'byteAt tok.loc {i} = 0x{ord(c):X}#8' for i, c in enumerate(lit))
        arms.append((f'({test})', kd, f'if (!strncmp(tok->loc, "{lit}", {n})) return {kd};'))
    sw = m.group(2)
    cases = re.findall(r"case ('(?:[^'\\]|\\.)'): return (\w+);", sw)
    if norm(''.join(f'case {c}: return {kd}; ' for c, kd in cases)) != norm(sw) or not cases:
        raise ExtractError('getStringKind: a switch arm is not `case \'c\': return K;`')
    seen = set()
    for c, kd in cases:
        v = c_char(c)
        if v in seen or kd not in kinds:
            raise ExtractError(f'getStringKind: case {c}')
        seen.add(v)
        arms.append((f'(byteAt tok.loc 0 = 0x{v:X}#8)', kd, f'case {c}: return {kd};'))
    out = ('/-- preprocess.c `getStringKind(tok)`: the `strncmp` tests, then the `switch (tok->loc[0])` arm by arm; no arm: `unreachable()` -/\n'
           'def getStringKind (tok : Tok) : Except JoinErr StringKind :=\n')
    for i, (test, kd, src) in enumerate(arms):
        out += f'  {"if" if i == 0 else "else if"} {test} then .ok .{kd}      -- {src}\n'
    out += '  else .error .unreachable      -- unreachable();\n'
    return out


def reader_elem_types(ts):
    """element type each wide reader gives its token: a ty_* constant or its `Type *ty` parameter"""
    res = {}
    for cname, sig in (('read_utf16_string_literal', r'^static\s+Token\s*\*\s*read_utf16_string_literal\s*\(\s*char\s*\*\s*start\s*,\s*char\s*\*\s*quote\s*\)\s*\{'),
                       ('read_utf32_string_literal', r'^static\s+Token\s*\*\s*read_utf32_string_literal\s*\(\s*char\s*\*\s*start\s*,\s*char\s*\*\s*quote\s*,\s*Type\s*\*\s*ty\s*\)\s*\{')):
        nb = norm(function_body(ts, sig, cname))
        m = re.search(r'Token \*tok = new_token\(TK_STR, start, end \+ 1\); tok->ty = array_of\((\w+), len \+ 1\); tok->str = (?:\(char \*\))?buf; return tok;$', nb)
        if not m:
            raise ExtractError(f'{cname}: epilogue not understood')
        t = m.group(1)
        if t == 'ty' and cname == 'read_utf32_string_literal':
            res[cname] = 'param'
        elif t in TY_PRIMS:
            res[cname] = '.' + t
        else:
            raise ExtractError(f'{cname}: element type {t}')
    return res


def gen_tokenize_string_literal(ts, ctx):
    ctx.fname = 'tokenize_string_literal'
    body = cmini.parse_body(function_body(ts, r'^Token\s*\*\s*tokenize_string_literal\s*\(\s*Token\s*\*\s*tok\s*,\s*Type\s*\*\s*basety\s*\)\s*\{',
                                          'tokenize_string_literal'))
    elem = reader_elem_types(ts)
    if len(body) < 3 or body[0] != ('decl', 'Token*', 't', None) or body[1][0] != 'if' or body[-1] != ('ret', ('id', 't')):
        raise ExtractError('tokenize_string_literal has a shape the translator does not understand')
    for s in body[2:-1]:
        ok = (s[0] == 'expr' and s[1][0] == 'assign' and s[1][1] == '=' and s[1][2][0] == 'mem' and s[1][3][0] == 'mem'
              and s[1][2][2] == ('id', 't') and s[1][3][2] == ('id', 'tok') and s[1][2][3] == s[1][3][3] and s[1][2][3] in NON_MODELLED_FIELDS)
        if not ok:
            raise ExtractError(f'tokenize_string_literal: statement {s!r} touches a modelled field of the new token')
    env = {'tok': ('tok', 'tok'), 'basety': ('basety', 'ty')}
    LOC = ('mem', '->', ('id', 'tok'), 'loc')

    def arm(st):
        st = cmini.unblock(st)
        if len(st) != 1 or st[0][0] != 'expr' or st[0][1][0] != 'assign' or st[0][1][2] != ('id', 't') or st[0][1][3][0] != 'call':
            raise ExtractError('tokenize_string_literal: arm is not `t = READER(...)`')
        fn, args = st[0][1][3][1], st[0][1][3][2]
        if fn == 'read_utf16_string_literal' and args == [LOC, LOC]:
            lean, ety = 'readUtf16StringLiteral', elem[fn]
        elif fn == 'read_utf32_string_literal' and args == [LOC, LOC, ('id', 'basety')]:
            lean, ety = 'readUtf32StringLiteral', elem[fn]
        else:
            raise ExtractError(f'tokenize_string_literal: call {fn}({args!r}) not understood')
        ety = 'basety' if ety == 'param' else ety
        src = f'{fn}(tok->loc, tok->loc{", basety" if len(args) == 3 else ""})'
        return (f'match {lean} tok.loc 0 with      -- t = {src};\n| .error e => .error (.read e)\n'
                f'| .ok (units, _) => .ok (readerTok tok.loc {ety} units)')

    def ladder(s):
        if s[0] == 'if':
            c = ctx.cond(s[1], env)
            el = cmini.unblock(s[3])
            if len(el) == 1 and el[0][0] == 'if':
                e_txt = ladder(el[0])
            else:
                e_txt = arm(s[3])
            return f'if {c} then\n{indent(arm(s[2]))}\nelse\n{indent(e_txt)}'
        raise ExtractError('tokenize_string_literal: dispatch')
    out = ('/-- tokenize.c `tokenize_string_literal(tok, basety)`: the token text is read again, from its first byte, by the reader for the\n'
           '    element size (readers: Gen/LitReadersGen.lean); the new token keeps `loc` (= start) and stands where the old one stood -/\n'
           'def tokenizeStringLiteral (tok : Tok) (basety : Ty) : Except JoinErr Tok :=\n' + indent(ladder(body[1])) + '\n')
    return out


def gen_array_of(ys):
    nb = norm(function_body(ys, r'^Type\s*\*\s*array_of\s*\(\s*Type\s*\*\s*base\s*,\s*int\s+len\s*\)\s*\{', 'array_of'))
    m = re.fullmatch(r'Type \*ty = new_type\(TY_ARRAY, (.*?), base->align\); ty->base = base; ty->array_len = len; return ty;', nb)
    if not m:
        raise ExtractError('type.c array_of has a shape the translator does not understand')
    c = Ctx([])
    c.fname = 'array_of'
    v, t = c.value(cmini.parse_expr(m.group(1)), {'base': ('base', 'ty'), 'len': ('len', 'int')})
    if t != 'int':
        raise ExtractError('array_of: size expression')
    return ('/-- type.c `array_of(base, len)`: the `size` of the array type (its `base` and `array_len` are the arguments) -/\n'
            f'def arrayOfSize (base : Ty) (len : Int) : Int := {v}\n\n'
            '/-- `tok->ty->size` of a string-literal token (`tok->ty` is always made by `array_of`) -/\n'
            'def Tok.tySize (t : Tok) : Int := arrayOfSize t.base t.arrayLen\n')


def gen_join(pp, ctx):
    body = cmini.parse_body(function_body(pp, r'^static\s+void\s+join_adjacent_string_literals\s*\(\s*Token\s*\*\s*tok\s*\)\s*\{',
                                          'join_adjacent_string_literals'))
    want = 'join_adjacent_string_literals has a shape the translator does not understand: '
    if len(body) != 2:
        raise ExtractError(want + 'not two passes')
    passes = []
    for n, lp in enumerate(body, 1):
        if lp[0] != 'for' or lp[1] != ('decl', 'Token*', 'tok1', ('id', 'tok')) or lp[3] is not None \
                or lp[2] != ('bin', '!=', ('mem', '->', ('id', 'tok1'), 'kind'), ('id', 'TK_EOF')):
            raise ExtractError(want + f'pass {n} is not `for (Token *tok1 = tok; tok1->kind != TK_EOF;)`')
        st = cmini.unblock(lp[4])
        if not st or st[0] != SKIP:
            raise ExtractError(want + f'pass {n} does not start by skipping tokens that do not begin a run of two string literals')
        passes.append(st[1:])
    p1, p2 = passes
    if p1[-1:] != LEAVE1:
        raise ExtractError(want + 'pass 1 does not end with `while (tok1->kind == TK_STR) tok1 = tok1->next;`')
    if p2[:2] != FIND_END or p2[-2:] != LEAVE2:
        raise ExtractError(want + 'pass 2 does not find the end of the run first / does not end with `tok1->next = tok2; tok1 = tok2;`')
    cpy = norm(function_body(pp, r'^static\s+Token\s*\*\s*copy_token\s*\(\s*Token\s*\*\s*tok\s*\)\s*\{', 'copy_token'))
    if cpy != 'Token *t = calloc(1, sizeof(Token)); *t = *tok; t->next = NULL; return t;':
        raise ExtractError('copy_token no longer returns a plain copy of the token')
    env = {'tok1': ('tok1', 'tok')}
    ctx.fname, ctx.nloop = 'joinPass1', 0
    t1 = ctx.stmts(p1[:-1], env, lambda e: f'.ok {e.get("__run", "(tok1 :: rest)")}')
    defs1, ctx.defs = ctx.defs, []
    ctx.fname, ctx.nloop = 'joinPass2', 0
    env = {'tok1': ('tok1', 'tok'), 'tok2': ('', 'runend')}

    def k2(e):
        if 'tok1' not in e:
            raise ExtractError(want + 'pass 2 rewrites the run')
        return '.ok tok1'
    t2 = ctx.stmts(p2[2:-2], env, k2)
    defs2, ctx.defs = ctx.defs, []
    out = ''.join(d + '\n' for d in defs1)
    out += ('/-- preprocess.c `join_adjacent_string_literals`, first pass, on one maximal run `tok1 :: rest` of adjacent string-literal tokens\n'
            '    (the body of the outer loop between the test for a run and `while (tok1->kind == TK_STR) tok1 = tok1->next;`): the tokens of\n'
            '    the run afterwards -/\n'
            'def joinPass1 (tok1 : Tok) (rest : List Tok) : Except JoinErr (List Tok) :=\n' + indent(t1) + '\n\n')
    out += ''.join(d + '\n' for d in defs2)
    out += ('/-- preprocess.c `join_adjacent_string_literals`, second pass, on one maximal run `tok1 :: rest` (`tok2` = the token after the run;\n'
            '    the body of the outer loop up to `tok1->next = tok2; tok1 = tok2;`): the token that stands for the run afterwards -/\n'
            'def joinPass2 (tok1 : Tok) (rest : List Tok) : Except JoinErr Tok :=\n' + indent(t2) + '\n')
    return out


READ_LOOP = ('char *buf; size_t buflen; FILE *out = open_memstream(&buf, &buflen); '
             'for (;;) { char buf2[4096]; int n = fread(buf2, 1, sizeof(buf2), fp); if (n == 0) break; fwrite(buf2, 1, n, out); } '
             'if (fp != stdin) fclose(fp);')


def gen_read_file(ts):
    nb = norm(function_body(ts, r'^static\s+char\s*\*\s*read_file\s*\(\s*char\s*\*\s*path\s*\)\s*\{', 'read_file'))
    i = nb.find(READ_LOOP)
    if i < 0:
        raise ExtractError('read_file: the part that copies the file into the memory stream changed')
    head, tail = nb[:i], nb[i + len(READ_LOOP):].strip()
    if norm(head) != 'FILE *fp; if (strcmp(path, "-") == 0) { fp = stdin; } else { fp = fopen(path, "r"); if (!fp) return NULL; }':
        raise ExtractError('read_file: the part that opens the file changed')
    m = re.fullmatch(r"fflush\(out\); if \((.*)\) fputc\('\\n', out\); fputc\('\\0', out\); fclose\(out\); return buf;", tail)
    if not m:
        raise ExtractError('read_file: the statements after the read loop have a shape the translator does not understand: ' + tail[:200])

    def val(e):
        if e == ('id', 'buflen'):
            return 'buflen', 'nat'
        if e[0] == 'num':
            return str(e[1]), 'nat'
        if e[0] == 'chr':
            return f'0x{e[1]:X}#8', 'byte'
        if e[0] == 'idx' and e[1] == ('id', 'buf'):
            i, t = val(e[2])
            if t != 'nat':
                raise ExtractError('read_file: index')
            return f'byteAt out ({i})', 'byte'
        if e[0] == 'bin' and e[1] in ('+', '-'):
            a, ta = val(e[2]); b, tb = val(e[3])
            if ta != 'nat' or tb != 'nat':
                raise ExtractError('read_file: arithmetic')
            return f'{a} {e[1]} {b}', 'nat'
        raise ExtractError(f'read_file: expression {e!r}')

    def cond(e):
        if e[0] == 'bin' and e[1] in ('||', '&&'):
            return f'({cond(e[2])} {"∨" if e[1] == "||" else "∧"} {cond(e[3])})'
        if e[0] == 'un' and e[1] == '!':
            return f'(¬ {cond(e[2])})'
        if e[0] == 'bin' and e[1] in ('==', '!='):
            a, ta = val(e[2]); b, tb = val(e[3])
            if ta != tb:
                raise ExtractError('read_file: comparison')
            return f'({a} {"=" if e[1] == "==" else "≠"} {b})'
        raise ExtractError(f'read_file: condition {e!r}')
    c = cond(cmini.parse_expr(m.group(1)))
    return ('/-- tokenize.c `read_file`, after the loop that copies the file into the memory stream `out` (libc `open_memstream` / `fread` /\n'
            '    `fwrite`, trusted: the stream then holds the bytes of the file): the array the function returns, *including* the terminator.\n'
            '    `buflen - 1` is `size_t` arithmetic; it is only evaluated behind the `buflen == 0` test (short-circuit `||`). -/\n'
            'def readFileBuf (file : List (BitVec 8)) : List (BitVec 8) :=\n'
            '  let out := file\n'
            '  let buflen := out.length      -- fflush(out);\n'
            f'  let out := if {c} then out ++ [0xA#8] else out      -- if ({m.group(1)}) fputc(\'\\n\', out);\n'
            '  let out := out ++ [0#8]      -- fputc(\'\\0\', out);\n'
            '  out      -- fclose(out); return buf;\n\n'
            '/-- the C string at the start of an array: the bytes before the first NUL -/\n'
            'def cString (a : List (BitVec 8)) : List (BitVec 8) := a.takeWhile (· ≠ 0#8)\n')


def generate(repo):
    pp = strip_comments(read(repo, 'preprocess.c'))
    ts = strip_comments(read(repo, 'tokenize.c'))
    ys = strip_comments(read(repo, 'type.c'))
    kinds, kinds_txt = gen_kinds(pp)
    ctx = Ctx(kinds)
    gsk = gen_get_string_kind(pp, kinds)
    tsl = gen_tokenize_string_literal(ts, ctx)
    arr = gen_array_of(ys)
    join = gen_join(pp, ctx)
    rf = gen_read_file(ts)
    out = HEADER.format(tool='strjoin.py (+cmini.py)', src='preprocess.c, tokenize.c, type.c')
    out += 'import ChibiVerif.Gen.LitReadersGen\n\nset_option linter.unusedVariables false\n\nnamespace ChibiVerif.Gen.StrJoin\n'
    out += 'open ChibiVerif.Gen.Literals\nopen ChibiVerif.Gen.LitReaders\n\n'
    out += PREAMBLE.replace('{ctors}', '\n'.join(f'  | {c}' for c in ctx.errors))
    out += arr + '\n' + kinds_txt + '\n' + gsk + '\n' + tsl + '\n' + join + '\n'
    out += '-- ---------------------------------------------------------------- read_file\n\n' + rf + '\n'
    out += 'end ChibiVerif.Gen.StrJoin\n'
    return {'StrJoinGen.lean': out}
