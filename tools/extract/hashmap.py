"""hashmap.c -> Gen/HashMapGen.lean : constants and fnv_hash."""
import re
from common import *

def generate(repo):
    src = strip_comments(read(repo, 'hashmap.c'))
    consts = {}
    for name in ('INIT_SIZE', 'HIGH_WATERMARK', 'LOW_WATERMARK'):
        m = must(r'^\s*#\s*define\s+' + name + r'\s+(\S+)\s*$', src, f'#define {name}', re.M)
        consts[name] = c_int(m.group(1))
    body = function_body(src, r'static\s+uint64_t\s+fnv_hash\s*\(\s*char\s*\*\s*s\s*,\s*int\s+len\s*\)\s*\{', 'fnv_hash')
    norm = re.sub(r'\s+', ' ', body).strip()
    m = re.fullmatch(
        r'uint64_t hash = (0x[0-9a-fA-F]+|\d+)\s*; '
        r'for \(int i = 0; i < len; i\+\+\) \{ '
        r'hash \*= (0x[0-9a-fA-F]+|\d+)\s*; '
        r'hash \^= \(unsigned char\)s\[i\]; '
        r'\} return hash;', norm)
    if not m:
        raise ExtractError('fnv_hash has a shape the translator does not understand: ' + norm)
    offset, prime = c_int(m.group(1)), c_int(m.group(2))
    # the probe index is (hash + i) % map->capacity in both loops
    probes = re.findall(r'&map->buckets\[\(hash \+ i\) % map->capacity\]', src)
    if len(probes) != 2:
        raise ExtractError(f'expected 2 probe expressions (hash + i) % map->capacity, found {len(probes)}')
    out = HEADER.format(tool='hashmap.py', src='hashmap.c')
    out += 'namespace ChibiVerif.Gen.HashMap\n\n'
    for k, v in consts.items():
        out += f'def {k} : Nat := {v}\n'
    out += f'def FNV_OFFSET : UInt64 := 0x{offset:x}\n'
    out += f'def FNV_PRIME : UInt64 := 0x{prime:x}\n\n'
    out += '/-- `fnv_hash`: hash = OFFSET; for each byte: hash *= PRIME; hash ^= byte (uint64_t arithmetic) -/\n'
    out += 'def fnvHash (s : List UInt8) : UInt64 :=\n  s.foldl (fun h c => (h * FNV_PRIME) ^^^ c.toUInt64) FNV_OFFSET\n\n'
    out += 'end ChibiVerif.Gen.HashMap\n'
    return {'HashMapGen.lean': out}
