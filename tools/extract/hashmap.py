"""hashmap.c -> Gen/HashMapGen.lean : constants and fnv_hash.
   all nine sources -> Gen/HashSitesGen.lean : every hashmap_* call site with the convention its key follows,
   the C typing of the probe index and of the fnv step (clang-14 typed AST), pins of match/wrappers/get_ident,
   the places that release or rewrite memory a stored key may point into.
   hashmap.c -> Gen/HashMapShapeGen.lean : the inventory of the file (every function with its signature, every macro,
   nothing else at file scope), the call graph inside it, rehash() recognised statement by statement with its load
   test and doubling step translated, the load test of get_or_insert_entry translated, the two probe loops pinned."""
import re, subprocess, os
from common import *

SOURCES = ['main.c', 'tokenize.c', 'preprocess.c', 'parse.c', 'type.c', 'codegen.c', 'hashmap.c', 'strings.c', 'unicode.c']
APIS = ['get2', 'get', 'put2', 'put', 'delete2', 'delete']
CALL_RE = re.compile(r'(?<![\w.>])hashmap_(get2|get|put2|put|delete2|delete)\s*\(')


# ------------------------------------------------------------------------------------------ small C text helpers

def skip_literal(src, i):
    q = src[i]
    i += 1
    while src[i] != q:
        if src[i] == '\\':
            i += 1
        i += 1
    return i


def match_paren(src, i):
    """src[i] == '(' -> index of the matching ')'"""
    depth = 0
    n = len(src)
    while i < n:
        c = src[i]
        if c in '"\'':
            i = skip_literal(src, i)
        elif c in '([{':
            depth += 1
        elif c in ')]}':
            depth -= 1
            if depth == 0:
                return i
        i += 1
    raise ExtractError('unbalanced parenthesis')


def split_args(text):
    args, depth, cur, i = [], 0, [], 0
    while i < len(text):
        c = text[i]
        if c in '"\'':
            j = skip_literal(text, i)
            cur.append(text[i:j + 1]); i = j + 1
            continue
        if c in '([{':
            depth += 1
        elif c in ')]}':
            depth -= 1
        if c == ',' and depth == 0:
            args.append(''.join(cur).strip()); cur = []
        else:
            cur.append(c)
        i += 1
    last = ''.join(cur).strip()
    if last or args:
        args.append(last)
    return [re.sub(r'\s+', ' ', a) for a in args]


def functions(src):
    """[(name, [param names], body_start, body_end)] for definitions at file scope"""
    out = []
    i, n = 0, len(src)
    while i < n:
        c = src[i]
        if c in '"\'':
            i = skip_literal(src, i)
        elif c == '{':
            j = i - 1
            while j >= 0 and src[j].isspace():
                j -= 1
            name, params = None, []
            if j >= 0 and src[j] == ')':
                d, k = 0, j
                while k >= 0:
                    if src[k] == ')':
                        d += 1
                    elif src[k] == '(':
                        d -= 1
                        if d == 0:
                            break
                    k -= 1
                m = re.search(r'([A-Za-z_]\w*)\s*$', src[:k])
                if m:
                    name = m.group(1)
                    for p in split_args(src[k + 1:j]):
                        pm = re.search(r'([A-Za-z_]\w*)\s*(?:\[[^\]]*\])?$', p)
                        params.append(pm.group(1) if pm and p != 'void' else None)
            end = match_paren(src, i)
            if name:
                out.append((name, params, i, end))
            i = end
        i += 1
    return out


def c_string(lit):
    """bytes of a simple C string literal (one token)"""
    assert lit[0] == '"' and lit[-1] == '"'
    out, i, s = [], 0, lit[1:-1]
    simple = {'n': 10, 't': 9, 'r': 13, '0': 0, '\\': 92, '"': 34, "'": 39, 'a': 7, 'b': 8, 'f': 12, 'v': 11, 'e': 27}
    while i < len(s):
        if s[i] == '\\':
            i += 1
            if s[i] == 'x':
                j = i + 1
                while j < len(s) and s[j] in '0123456789abcdefABCDEF':
                    j += 1
                out.append(int(s[i + 1:j], 16) & 255); i = j
                continue
            if s[i] in '01234567':
                j = i
                while j < len(s) and j < i + 3 and s[j] in '01234567':
                    j += 1
                out.append(int(s[i:j], 8) & 255); i = j
                continue
            if s[i] not in simple:
                raise ExtractError('escape sequence in a key literal the translator does not understand: ' + lit)
            out.append(simple[s[i]]); i += 1
        else:
            out += list(s[i].encode('utf-8', 'surrogateescape')); i += 1
    return out


def lean_str(s):
    out = []
    for ch in s:
        o = ord(ch)
        if ch in '"\\':
            out.append('\\' + ch)
        elif 32 <= o < 127:
            out.append(ch)
        else:
            out.append('\\x%02x' % o if o < 256 else '\\u{%x}' % o)
    return '"' + ''.join(out) + '"'


def lean_bytes_lit(bs):
    """key literal as a Lean string when printable ASCII, the only case the audit accepts as is"""
    return lean_str(''.join(chr(b) for b in bs))


# ------------------------------------------------------------------------------------------ key provenance

class Prog:
    def __init__(self, repo):
        self.src = {s: strip_comments(read(repo, s)) for s in SOURCES}
        self.fns = {s: functions(self.src[s]) for s in SOURCES}
        self.byname = {}
        for s in SOURCES:
            for f in self.fns[s]:
                self.byname.setdefault(f[0], []).append((s, f))

    def enclosing(self, s, pos):
        for f in self.fns[s]:
            if f[2] <= pos <= f[3]:
                return f
        return None

    def body(self, s, f):
        return self.src[s][f[2]:f[3] + 1]

    def calls_of(self, name):
        """[(file, enclosing fn, [args])] of every call `name(...)` inside a function body"""
        out = []
        for s in SOURCES:
            for m in re.finditer(r'(?<![\w.>])' + re.escape(name) + r'\s*\(', self.src[s]):
                f = self.enclosing(s, m.start())
                if f is None:
                    continue
                close = match_paren(self.src[s], m.end() - 1)
                out.append((s, f, split_args(self.src[s][m.end():close])))
        return out


def strip_parens(e):
    e = e.strip()
    while e.startswith('(') and match_paren(e, 0) == len(e) - 1:
        e = e[1:-1].strip()
    return e


def top_level_ternary(e):
    depth, q = 0, None
    i = 0
    while i < len(e):
        c = e[i]
        if c in '"\'':
            i = skip_literal(e, i)
        elif c in '([{':
            depth += 1
        elif c in ')]}':
            depth -= 1
        elif c == '?' and depth == 0 and q is None:
            q = i
        elif c == ':' and depth == 0 and q is not None:
            return e[:q].strip(), e[q + 1:i].strip(), e[i + 1:].strip()
        i += 1
    return None


def leaves(prog, s, f, expr, seen, depth=0):
    """origins of the NUL-terminated string `expr` evaluates to, as Lean `Leaf` terms"""
    e = strip_parens(expr)
    if e == 'NULL':
        return []
    if depth > 24:
        return [f'.other {lean_str("too deep: " + e)}']
    t = top_level_ternary(e)
    if t:
        return leaves(prog, s, f, t[1], seen, depth + 1) + leaves(prog, s, f, t[2], seen, depth + 1)
    if re.fullmatch(r'"(?:\\.|[^"\\])*"', e):
        return [f'.lit {lean_bytes_lit(c_string(e))}']
    m = re.fullmatch(r'strndup\((.+)\)', e)
    if m and match_paren(e, e.index('(')) == len(e) - 1:
        a = split_args(m.group(1))
        if len(a) == 2:
            m2 = re.fullmatch(r'(.+)->loc', a[0])
            if m2 and a[1] == m2.group(1) + '->len':
                return ['.dupTokSpan']
            m2 = re.fullmatch(r'(.+)->loc \+ 1', a[0])
            if m2 and a[1] == m2.group(1) + '->len - 2':
                return ['.dupTokInner']
            m2 = re.fullmatch(r'(\w+) - (\w+)', a[1])
            if m2 and m2.group(2) == a[0]:
                return ['.dupPrefix']
        return [f'.other {lean_str(e)}']
    m = re.fullmatch(r'format\((.+)\)', e)
    if m and match_paren(e, e.index('(')) == len(e) - 1:
        a = split_args(m.group(1))
        if a and re.fullmatch(r'"(?:\\.|[^"\\])*"', a[0]):
            return [f'.fmt {lean_bytes_lit(c_string(a[0]))}']
        return [f'.other {lean_str(e)}']
    m = re.fullmatch(r'([A-Za-z_]\w*)\((.*)\)', e)
    if m and match_paren(e, e.index('(')) == len(e) - 1:
        callee = m.group(1)
        if callee == 'get_ident':
            return ['.dupTokSpan']          # body pinned below
        defs = prog.byname.get(callee, [])
        if len(defs) == 1 and not callee.startswith('hashmap_') and ('ret', callee) not in seen:
            # what a function of the compiler returns: the union of its `return e;` operands
            ds, df = defs[0]
            rets = [r.group(1).strip() for r in re.finditer(r'(?<![\w.>])return\s+([^;]+);', prog.body(ds, df))]
            rets = [r for r in rets if strip_parens(r) != 'NULL']
            if rets:
                out = []
                for r in rets:
                    out += leaves(prog, ds, df, r, seen | {('ret', callee)}, depth + 1)
                return out
        if ('ret', callee) in seen:
            return []
        return [f'.call {lean_str(callee)}']
    m = re.fullmatch(r'([A-Za-z_]\w*)\[(\w+)\]', e)
    if m and f is not None:
        body = prog.body(s, f)
        am = re.search(r'static\s+char\s*\*\s*' + re.escape(m.group(1)) + r'\s*\[\s*\]\s*=\s*\{([^}]*)\}\s*;', body)
        if am:
            items = [x for x in split_args(am.group(1)) if x]
            if all(re.fullmatch(r'"(?:\\.|[^"\\])*"', x) for x in items):
                return [f'.lit {lean_bytes_lit(c_string(x))}' for x in items]
        if m.group(1) == 'argv':
            return [f'.argv {lean_str(e)}']
        return [f'.other {lean_str(e)}']
    if re.fullmatch(r'argv\[[^\]]*\](?: \+ \d+)?', e):
        return [f'.argv {lean_str(e)}']
    if re.fullmatch(r'[A-Za-z_]\w*', e) and f is not None:
        name, params = f[0], f[1]
        body = prog.body(s, f)
        assigns = [a.group(1).strip() for a in re.finditer(r'(?<![\w.>])' + re.escape(e) + r'\s*=(?!=)\s*([^;]*);', body)]
        if re.search(r'(?<![\w.>])' + re.escape(e) + r'\s*(?:\+\+|--|[-+*/|&^]=)|(?:\+\+|--)\s*' + re.escape(e) + r'\b', body):
            return [f'.other {lean_str("modified in place: " + name + "." + e)}']
        if e in params:
            if assigns:
                return [f'.other {lean_str("parameter assigned: " + name + "." + e)}']
            key = (name, params.index(e))
            if key in seen:
                return []
            seen = seen | {key}
            callers = prog.calls_of(name)
            if not callers:
                return [f'.other {lean_str("parameter without callers: " + name + "." + e)}']
            out = []
            for cs, cf, args in callers:
                if len(args) <= key[1]:
                    out.append(f'.other {lean_str("call with too few arguments: " + name)}')
                else:
                    out += leaves(prog, cs, cf, args[key[1]], seen, depth + 1)
            return out
        if assigns:
            out = []
            for a in assigns:
                out += leaves(prog, s, f, a, seen, depth + 1)
            return out
        return [f'.other {lean_str("no definition found: " + name + "." + e)}']
    if re.fullmatch(r'[A-Za-z_]\w*(?:(?:->|\.)[A-Za-z_]\w*|\[\w+\])+', e):
        fld = re.sub(r'^[A-Za-z_]\w*', '_', e)
        return [f'.field {lean_str(fld)}']
    return [f'.other {lean_str(e)}']


def dedup(xs):
    out = []
    for x in xs:
        if x not in out:
            out.append(x)
    return out


def key_expr(prog, s, f, api, args):
    if api.endswith('2'):
        k, l = args[1], args[2]
        m = re.fullmatch(r'(.+)->loc', k)
        if m and l == m.group(1) + '->len':
            return f'.span {lean_str(m.group(1))}'
        m = re.fullmatch(r'(.+)->key', k)
        if m and l == m.group(1) + '->keylen':
            return '.entry'
        if l == f'strlen({k})':
            return '.strlenOf'
        return f'.other2 {lean_str(k)} {lean_str(l)}'
    return '.cstr [' + ', '.join(dedup(leaves(prog, s, f, args[1], frozenset()))) + ']'


# ------------------------------------------------------------------------------------------ clang cross-checks

def clang_dump(repo, cfile, fn=None):
    cmd = ['clang-14', '-std=c11', '-fsyntax-only', '-w', '-Xclang', '-ast-dump']
    if fn:
        cmd += ['-Xclang', f'-ast-dump-filter={fn}']
    cmd += ['-I', repo, os.path.join(repo, cfile)]
    p = subprocess.run(cmd, capture_output=True, text=True)
    if p.returncode != 0:
        raise ExtractError(f'clang-14 failed on {cfile}: {p.stderr[:300]}')
    return p.stdout


def shape(lines):
    """node kinds, types and cast kinds of a text AST subtree, without addresses and locations"""
    out = []
    for l in lines:
        m = re.match(r'^([ |`-]*)(\w+) 0x[0-9a-f]+ <[^>]*>(.*)$', l)
        if not m:
            raise ExtractError('unexpected AST line: ' + l)
        rest = re.sub(r'0x[0-9a-f]+', '', m.group(3))
        rest = re.sub(r"'uint64_t':'unsigned long'", "'unsigned long'", rest)
        out.append((len(m.group(1)) // 2, m.group(2), ' '.join(rest.split())))
    base = out[0][0]
    return [(d - base, k, r) for d, k, r in out]


def subtree(dump_lines, idx):
    d0 = len(re.match(r'^([ |`-]*)', dump_lines[idx]).group(1))
    out = [dump_lines[idx]]
    for l in dump_lines[idx + 1:]:
        if len(re.match(r'^([ |`-]*)', l).group(1)) <= d0:
            break
        out.append(l)
    return out


PROBE_SHAPE = [
    (0, 'BinaryOperator', "'unsigned long' '%'"),
    (1, 'ParenExpr', "'unsigned long'"),
    (2, 'BinaryOperator', "'unsigned long' '+'"),
    (3, 'ImplicitCastExpr', "'unsigned long' <LValueToRValue>"),
    (4, 'DeclRefExpr', "'unsigned long' lvalue Var 'hash' 'unsigned long'"),
    (3, 'ImplicitCastExpr', "'unsigned long' <IntegralCast>"),
    (4, 'ImplicitCastExpr', "'int' <LValueToRValue>"),
    (5, 'DeclRefExpr', "'int' lvalue Var 'i' 'int'"),
    (1, 'ImplicitCastExpr', "'unsigned long' <IntegralCast>"),
    (2, 'ImplicitCastExpr', "'int' <LValueToRValue>"),
    (3, 'MemberExpr', "'int' lvalue ->capacity"),
    (4, 'ImplicitCastExpr', "'HashMap *' <LValueToRValue>"),
    (5, 'DeclRefExpr', "'HashMap *' lvalue ParmVar 'map' 'HashMap *'"),
]

FNV_XOR_SHAPE = [
    (0, 'CompoundAssignOperator', "'unsigned long' '^=' ComputeLHSTy='unsigned long' ComputeResultTy='unsigned long'"),
    (1, 'DeclRefExpr', "'unsigned long' lvalue Var 'hash' 'unsigned long'"),
    (1, 'ImplicitCastExpr', "'unsigned long' <IntegralCast>"),
    (2, 'CStyleCastExpr', "'unsigned char' <IntegralCast>"),
    (3, 'ImplicitCastExpr', "'char' <LValueToRValue> part_of_explicit_cast"),
    (4, 'ArraySubscriptExpr', "'char' lvalue"),
    (5, 'ImplicitCastExpr', "'char *' <LValueToRValue>"),
    (6, 'DeclRefExpr', "'char *' lvalue ParmVar 's' 'char *'"),
    (5, 'ImplicitCastExpr', "'int' <LValueToRValue>"),
    (6, 'DeclRefExpr', "'int' lvalue Var 'i' 'int'"),
]


def check_typed_shapes(repo):
    for fn in ('get_entry', 'get_or_insert_entry'):
        lines = clang_dump(repo, 'hashmap.c', fn).splitlines()
        idx = [i for i, l in enumerate(lines) if re.search(r"BinaryOperator .*'%'$", l)]
        if len(idx) != 1:
            raise ExtractError(f'{fn}: expected exactly one % expression, found {len(idx)}')
        got = shape(subtree(lines, idx[0]))
        if got != PROBE_SHAPE:
            raise ExtractError(f'{fn}: the probe index expression no longer has the typing (uint64_t + int) % int: {got}')
    lines = clang_dump(repo, 'hashmap.c', 'fnv_hash').splitlines()
    idx = [i for i, l in enumerate(lines) if "CompoundAssignOperator" in l and "'^='" in l]
    if len(idx) != 1:
        raise ExtractError('fnv_hash: expected exactly one ^= statement')
    got = shape(subtree(lines, idx[0]))
    if got != FNV_XOR_SHAPE:
        raise ExtractError(f'fnv_hash: the xor operand no longer has the typing (unsigned long)(unsigned char)s[i]: {got}')
    idx = [i for i, l in enumerate(lines) if "CompoundAssignOperator" in l and "'*='" in l]
    if len(idx) != 1 or "ComputeLHSTy='unsigned long' ComputeResultTy='unsigned long'" not in lines[idx[0]]:
        raise ExtractError('fnv_hash: the multiplication is not computed in unsigned long')


def pin(prog, s, name, expected, what):
    cands = [f for f in prog.fns[s] if f[0] == name]
    if len(cands) != 1:
        raise ExtractError(f'{s}: expected one definition of {name}')
    body = prog.src[s][cands[0][2] + 1:cands[0][3]]
    norm = re.sub(r'\s+', ' ', body).strip()
    if norm != expected:
        raise ExtractError(f'{what}: {s}:{name} has a body the translator does not understand: {norm}')


# ------------------------------------------------------------------------------------------ generate

def generate_sites(repo):
    prog = Prog(repo)
    extra = sorted(f for f in os.listdir(repo) if f.endswith('.c') and f not in SOURCES and f != 'verif_dump.c')
    if extra:
        raise ExtractError(f'source files outside the audited nine: {extra}')
    check_typed_shapes(repo)
    pin(prog, 'hashmap.c', 'match',
        'return ent->key && ent->key != TOMBSTONE && ent->keylen == keylen && memcmp(ent->key, key, keylen) == 0;',
        'key comparison')
    pin(prog, 'hashmap.c', 'hashmap_get', 'return hashmap_get2(map, key, strlen(key));', 'wrapper')
    pin(prog, 'hashmap.c', 'hashmap_put', 'hashmap_put2(map, key, strlen(key), val);', 'wrapper')
    pin(prog, 'hashmap.c', 'hashmap_delete', 'hashmap_delete2(map, key, strlen(key));', 'wrapper')
    pin(prog, 'hashmap.c', 'hashmap_get2', 'HashEntry *ent = get_entry(map, key, keylen); return ent ? ent->val : NULL;', 'lookup')
    pin(prog, 'hashmap.c', 'hashmap_put2', 'HashEntry *ent = get_or_insert_entry(map, key, keylen); ent->val = val;', 'store')
    pin(prog, 'hashmap.c', 'hashmap_delete2', 'HashEntry *ent = get_entry(map, key, keylen); if (ent) ent->key = TOMBSTONE;', 'delete')
    pin(prog, 'parse.c', 'get_ident',
        'if (tok->kind != TK_IDENT) error_tok(tok, "expected an identifier"); return strndup(tok->loc, tok->len);',
        'identifier copy')
    sites = []
    for s in SOURCES:
        src = prog.src[s]
        per_api = {a: 0 for a in APIS}
        for m in CALL_RE.finditer(src):
            f = prog.enclosing(s, m.start())
            if f is None:
                continue    # the definition itself
            api = m.group(1)
            per_api[api] += 1
            close = match_paren(src, m.end() - 1)
            args = split_args(src[m.end():close])
            want = {'get': 2, 'get2': 3, 'put': 3, 'put2': 4, 'delete': 2, 'delete2': 3}[api]
            if len(args) != want:
                raise ExtractError(f'{s}:{f[0]}: hashmap_{api} with {len(args)} arguments')
            val = args[-1] if api.startswith('put') else ''
            sites.append((s, f[0], api, args[0], key_expr(prog, s, f, api, args), val))
        # no use of the API the regular expression does not see (macro expansion, address taken): clang's count must agree
        dump = clang_dump(repo, s)
        for a in APIS:
            n = len(re.findall(r"DeclRefExpr .* Function 0x[0-9a-f]+ 'hashmap_" + a + r"' ", dump))
            if n != per_api[a]:
                raise ExtractError(f'{s}: {n} references to hashmap_{a} in the typed AST, {per_api[a]} call sites in the text')
    # memory a stored key may point into: who releases memory, who rewrites a source buffer
    release = []
    writers = []
    for s in SOURCES:
        src = prog.src[s]
        for m in re.finditer(r'(?<![\w.>])(free|realloc)\s*\(', src):
            f = prog.enclosing(s, m.start())
            if f is None:
                continue
            close = match_paren(src, m.end() - 1)
            release.append((s, f[0], m.group(1), split_args(src[m.end():close])[0]))
        for w in ('canonicalize_newline', 'remove_backslash_newline', 'convert_universal_chars'):
            for m in re.finditer(r'(?<![\w.>])' + w + r'\s*\(', src):
                f = prog.enclosing(s, m.start())
                if f is None:
                    continue
                body = prog.body(s, f)
                before = 'yes' if re.search(re.escape(w) + r'\s*\(.*?(?<![\w.>_])tokenize\s*\(', body, re.S) else 'no'
                writers.append((s, f[0], w, before))
    out = HEADER.format(tool='hashmap.py', src='the nine *.c files')
    out += 'namespace ChibiVerif.Gen.HashSites\n\n'
    out += '''/-- where a NUL-terminated key string comes from -/
inductive Leaf where
  | dupTokSpan                 -- strndup(T->loc, T->len), also through get_ident(T)
  | dupTokInner                -- strndup(T->loc + 1, T->len - 2): the text between the quotes of an #include operand
  | dupPrefix                  -- strndup(str, eq - str): the part of a -D operand before '='
  | lit (s : String)           -- a string literal of the compiler's own source
  | fmt (f : String)           -- format("...", ...)
  | call (fn : String)         -- what the named function returns
  | field (path : String)      -- a struct member holding a string
  | argv (e : String)          -- a command-line word
  | other (e : String)         -- anything the translator does not classify
  deriving Repr, DecidableEq

/-- the (pointer, length) pair a call passes -/
inductive KeyExpr where
  | span (tok : String)        -- (T->loc, T->len): the bytes of a token inside its source buffer
  | cstr (from_ : List Leaf)   -- a NUL-terminated string, length by strlen (the wrappers hashmap_get/put/delete)
  | strlenOf                   -- (key, strlen(key)) inside the wrappers themselves
  | entry                      -- (ent->key, ent->keylen): a stored key re-inserted by rehash
  | other2 (k l : String)
  deriving Repr, DecidableEq

inductive Api where
  | get | get2 | put | put2 | delete | delete2
  deriving Repr, DecidableEq

structure Site where
  file : String
  fn : String
  api : Api
  table : String
  key : KeyExpr
  val : String
  deriving Repr, DecidableEq

'''
    out += '/-- every call of hashmap_get/get2/put/put2/delete/delete2 in the nine sources (text order) -/\n'
    out += 'def sites : List Site := [\n'
    out += ',\n'.join(f'  ⟨{lean_str(s)}, {lean_str(fn)}, .{api}, {lean_str(tab)}, {key}, {lean_str(val)}⟩'
                      for s, fn, api, tab, key, val in sites)
    out += ']\n\n'
    out += '/-- calls of free/realloc: (file, function, callee, first argument) -/\n'
    out += 'def releaseSites : List (String × String × String × String) := [' + ', '.join(
        f'({lean_str(a)}, {lean_str(b)}, {lean_str(c)}, {lean_str(d)})' for a, b, c, d in release) + ']\n\n'
    out += '/-- calls of the functions that rewrite a source buffer in place: (file, function, callee, "yes" if a call of\n'
    out += '    tokenize follows it in the same function) -/\n'
    out += 'def bufferWriters : List (String × String × String × String) := [' + ', '.join(
        f'({lean_str(a)}, {lean_str(b)}, {lean_str(c)}, {lean_str(d)})' for a, b, c, d in writers) + ']\n\n'
    return out


# ------------------------------------------------------------------------------------------ shape of hashmap.c

# everything defined at file scope in hashmap.c: the signatures in text order (bodies removed) and the macros
HASHMAP_SIGNATURES = [
    ('fnv_hash', 'static uint64_t fnv_hash(char *s, int len)'),
    ('rehash', 'static void rehash(HashMap *map)'),
    ('match', 'static bool match(HashEntry *ent, char *key, int keylen)'),
    ('get_entry', 'static HashEntry *get_entry(HashMap *map, char *key, int keylen)'),
    ('get_or_insert_entry', 'static HashEntry *get_or_insert_entry(HashMap *map, char *key, int keylen)'),
    ('hashmap_get', 'void *hashmap_get(HashMap *map, char *key)'),
    ('hashmap_get2', 'void *hashmap_get2(HashMap *map, char *key, int keylen)'),
    ('hashmap_put', 'void hashmap_put(HashMap *map, char *key, void *val)'),
    ('hashmap_put2', 'void hashmap_put2(HashMap *map, char *key, int keylen, void *val)'),
    ('hashmap_delete', 'void hashmap_delete(HashMap *map, char *key)'),
    ('hashmap_delete2', 'void hashmap_delete2(HashMap *map, char *key, int keylen)'),
    ('hashmap_test', 'void hashmap_test(void)'),
]
HASHMAP_MACROS = ['INIT_SIZE', 'HIGH_WATERMARK', 'LOW_WATERMARK', 'TOMBSTONE']

# rehash(), statement by statement, in order.  (step name, regex over the whitespace-normalised body)
REHASH_STEPS = [
    ('countLive',
     r'int nkeys = 0; for \(int i = 0; i < map->capacity; i\+\+\) '
     r'if \(map->buckets\[i\]\.key && map->buckets\[i\]\.key != TOMBSTONE\) nkeys\+\+; '),
    ('growWhile',
     r'int cap = map->capacity; '
     r'while \(\(nkeys \* (?P<gscale>\d+)\) / cap (?P<gcmp>>=|>) (?P<gmark>[A-Z_]+|\d+)\) cap = cap \* (?P<gfactor>\d+); '),
    ('assertCapPositive', r'assert\(cap > 0\); '),
    ('freshTable',
     r'HashMap map2 = \{\}; map2\.buckets = calloc\(cap, sizeof\(HashEntry\)\); map2\.capacity = cap; '),
    ('reinsertInBucketOrder',
     r'for \(int i = 0; i < map->capacity; i\+\+\) \{ HashEntry \*ent = &map->buckets\[i\]; '
     r'if \(ent->key && ent->key != TOMBSTONE\) hashmap_put2\(&map2, ent->key, ent->keylen, ent->val\); \} '),
    ('assertUsedEqLive', r'assert\(map2\.used == nkeys\); '),
    ('overwriteMap', r'\*map = map2; '),
]

GET_ENTRY_BODY = ('if (!map->buckets) return NULL; uint64_t hash = fnv_hash(key, keylen); '
                  'for (int i = 0; i < map->capacity; i++) { HashEntry *ent = &map->buckets[(hash + i) % map->capacity]; '
                  'if (match(ent, key, keylen)) return ent; if (ent->key == NULL) return NULL; } unreachable();')

INSERT_PREAMBLE = (r'if \(!map->buckets\) \{ map->buckets = calloc\((?P<init>[A-Z_]+|\d+), sizeof\(HashEntry\)\); '
                   r'map->capacity = (?P<init2>[A-Z_]+|\d+); \} '
                   r'else if \(\(map->used \* (?P<hscale>\d+)\) / map->capacity (?P<hcmp>>=|>) (?P<hmark>[A-Z_]+|\d+)\) '
                   r'\{ rehash\(map\); \} ')
INSERT_LOOP = ('uint64_t hash = fnv_hash(key, keylen); HashEntry *tomb = NULL; '
               'for (int i = 0; i < map->capacity; i++) { HashEntry *ent = &map->buckets[(hash + i) % map->capacity]; '
               'if (match(ent, key, keylen)) return ent; '
               'if (ent->key == TOMBSTONE) { if (!tomb) tomb = ent; continue; } '
               'if (ent->key == NULL) { if (tomb) ent = tomb; else map->used++; ent->key = key; ent->keylen = keylen; return ent; } } '
               'unreachable();')


def lean_operand(tok, consts):
    """a watermark operand of a translated condition: a macro of hashmap.c (by name, value from HashMapGen) or a literal"""
    if re.fullmatch(r'\d+', tok):
        return str(int(tok))
    if tok in consts:
        return 'ChibiVerif.Gen.HashMap.' + tok
    raise ExtractError(f'operand {tok} of a load-factor test is neither a literal nor one of {sorted(consts)}')


def generate_shape(repo, consts):
    """Gen/HashMapShapeGen.lean: what hashmap.c defines (every function, every macro), who calls whom inside it, and
    the statement sequence of rehash() with its two arithmetic conditions translated.  Anything else at file scope, a
    new function, a function with another signature, a re-shaped rehash()/probe loop raises ExtractError."""
    raw = strip_comments(read(repo, 'hashmap.c'))
    fns = functions(raw)
    names = [f[0] for f in fns]
    want = [n for n, _ in HASHMAP_SIGNATURES]
    if names != want:
        extra = [n for n in names if n not in want]
        missing = [n for n in want if n not in names]
        raise ExtractError(f'hashmap.c no longer defines exactly the functions the model covers: new {extra}, missing {missing}, '
                           f'order {names}')
    # file-scope text outside the function bodies: preprocessor lines + the signatures, nothing else
    residue, pos = [], 0
    for f in fns:
        residue.append(raw[pos:f[2]])
        pos = f[3] + 1
    residue.append(raw[pos:])
    text = ''.join(residue)
    macros, rest = [], []
    for line in text.splitlines():
        st = line.strip()
        if st.startswith('#'):
            m = re.fullmatch(r'#\s*define\s+([A-Za-z_]\w*)(\(.*?\))?\s+.*', st)
            if m:
                if m.group(2):
                    raise ExtractError(f'hashmap.c defines a function-like macro: {st}')
                macros.append(m.group(1))
            elif not re.fullmatch(r'#\s*include\s+"chibicc.h"', st):
                raise ExtractError(f'preprocessor line in hashmap.c the translator does not understand: {st}')
            if st.endswith('\\'):
                raise ExtractError(f'continued preprocessor line in hashmap.c: {st}')
        else:
            rest.append(st)
    if macros != HASHMAP_MACROS:
        raise ExtractError(f'hashmap.c defines the macros {macros}, expected {HASHMAP_MACROS}')
    sigs = re.sub(r'\s+', ' ', ' '.join(rest)).strip()
    if sigs != ' '.join(s for _, s in HASHMAP_SIGNATURES):
        raise ExtractError(f'file-scope text of hashmap.c outside the function bodies is not the twelve signatures: {sigs}')
    body = {f[0]: re.sub(r'\s+', ' ', raw[f[2] + 1:f[3]]).strip() for f in fns}
    # rehash(): the statement sequence
    rest_, got, steps = body['rehash'] + ' ', {}, []
    for name, rx in REHASH_STEPS:
        m = re.match(rx, rest_)
        if not m:
            raise ExtractError(f'rehash(): statement `{name}` not found where the translator expects it; remaining text: {rest_[:160]}')
        got.update(m.groupdict())
        steps.append(name)
        rest_ = rest_[m.end():]
    if rest_.strip():
        raise ExtractError(f'rehash(): statements after `*map = map2;` the translator does not understand: {rest_[:160]}')
    # the probe loops
    if body['get_entry'] != GET_ENTRY_BODY:
        raise ExtractError('get_entry has a body the translator does not understand: ' + body['get_entry'])
    m = re.match(INSERT_PREAMBLE, body['get_or_insert_entry'] + ' ')
    if not m:
        raise ExtractError('get_or_insert_entry: allocation / load-factor preamble not understood: ' + body['get_or_insert_entry'][:240])
    got.update(m.groupdict())
    if body['get_or_insert_entry'][m.end():].strip() != INSERT_LOOP:
        raise ExtractError('get_or_insert_entry: probe loop not understood: ' + body['get_or_insert_entry'][m.end():])
    if got['init'] != got['init2'] or lean_operand(got['init'], consts) != 'ChibiVerif.Gen.HashMap.INIT_SIZE':
        raise ExtractError(f"get_or_insert_entry allocates {got['init']} buckets but sets capacity = {got['init2']} (expected INIT_SIZE twice)")
    # who calls whom inside hashmap.c (hashmap_test left out: it is the suite's test, not table code)
    graph = []
    for n in want:
        if n == 'hashmap_test':
            continue
        callees = [c for c in want if c != 'hashmap_test' and re.search(r'(?<![\w.>])' + c + r'\s*\(', body[n])]
        graph.append((n, callees))
    cmpl = {'>=': '≥', '>': '>'}
    out = HEADER.format(tool='hashmap.py', src='hashmap.c')
    out += 'import ChibiVerif.Gen.HashMapGen\n\nnamespace ChibiVerif.Gen.HashMapShape\n\n'
    out += '/-- every function hashmap.c defines, in text order (signatures are pinned by the translator) -/\n'
    out += 'def functionsDefined : List String := [' + ', '.join(lean_str(n) for n in names) + ']\n\n'
    out += '/-- every macro hashmap.c defines (all object-like) -/\n'
    out += 'def macrosDefined : List String := [' + ', '.join(lean_str(n) for n in macros) + ']\n\n'
    out += '/-- calls from one function of hashmap.c to another (caller, callees in definition order) -/\n'
    out += 'def callGraph : List (String × List String) := [\n' + ',\n'.join(
        f'  ({lean_str(n)}, [' + ', '.join(lean_str(c) for c in cs) + '])' for n, cs in graph) + ']\n\n'
    out += '/-- the statements of `rehash`, in order, as recognised one by one by the translator -/\n'
    out += 'inductive RehashStep where\n'
    out += '  | countLive              -- nkeys = number of buckets whose key is neither NULL nor TOMBSTONE\n'
    out += '  | growWhile              -- cap = capacity; while (rehashGrowCond nkeys cap) cap = rehashGrowNext cap\n'
    out += '  | assertCapPositive      -- assert(cap > 0)\n'
    out += '  | freshTable             -- HashMap map2 = {}; calloc(cap, ...) buckets; map2.capacity = cap\n'
    out += '  | reinsertInBucketOrder  -- for i = 0 … capacity-1: live entries go through hashmap_put2(&map2, …)\n'
    out += '  | assertUsedEqLive       -- assert(map2.used == nkeys)\n'
    out += '  | overwriteMap           -- *map = map2\n'
    out += '  deriving Repr, DecidableEq\n\n'
    out += 'def rehashSteps : List RehashStep := [' + ', '.join('.' + s for s in steps) + ']\n\n'
    out += f"/-- `while ((nkeys * {got['gscale']}) / cap {got['gcmp']} {got['gmark']})` of rehash -/\n"
    out += (f"def rehashGrowCond (nkeys cap : Nat) : Bool :=\n  decide (nkeys * {int(got['gscale'])} / cap "
            f"{cmpl[got['gcmp']]} {lean_operand(got['gmark'], consts)})\n\n")
    out += f"/-- `cap = cap * {got['gfactor']};` of rehash -/\n"
    out += f"def rehashGrowNext (cap : Nat) : Nat := cap * {int(got['gfactor'])}\n\n"
    out += f"/-- `else if ((map->used * {got['hscale']}) / map->capacity {got['hcmp']} {got['hmark']})` of get_or_insert_entry -/\n"
    out += (f"def needRehash (used cap : Nat) : Bool :=\n  decide (used * {int(got['hscale'])} / cap "
            f"{cmpl[got['hcmp']]} {lean_operand(got['hmark'], consts)})\n\n")
    out += 'end ChibiVerif.Gen.HashMapShape\n'
    return out


def generate(repo):
    src = strip_comments(read(repo, 'hashmap.c'))
    consts = {}
    for name in ('INIT_SIZE', 'HIGH_WATERMARK', 'LOW_WATERMARK'):
        m = must(r'^\s*#\s*define\s+' + name + r'\s+(\S+)\s*$', src, f'#define {name}', re.M)
        consts[name] = c_int(m.group(1))
    body = function_body(src, r'static\s+uint64_t\s+fnv_hash\s*\(\s*char\s*\*\s*s\s*,\s*int\s+len\s*\)\s*\{', 'fnv_hash')
    norm = re.sub(r'\s+', ' ', body).strip()
    m = re.fullmatch(
        r'uint64_t hash = (0x[0-9a-fA-F]+|\d+)\s*; '
        r'for \(int i = 0; i < len; i\+\+\) \{ '
        r'hash \*= (0x[0-9a-fA-F]+|\d+)\s*; '
        r'hash \^= \(unsigned char\)s\[i\]; '
        r'\} return hash;', norm)
    if not m:
        raise ExtractError('fnv_hash has a shape the translator does not understand: ' + norm)
    offset, prime = c_int(m.group(1)), c_int(m.group(2))
    # the probe index is (hash + i) % map->capacity in both loops
    probes = re.findall(r'&map->buckets\[\(hash \+ i\) % map->capacity\]', src)
    if len(probes) != 2:
        raise ExtractError(f'expected 2 probe expressions (hash + i) % map->capacity, found {len(probes)}')
    out = HEADER.format(tool='hashmap.py', src='hashmap.c')
    out += 'namespace ChibiVerif.Gen.HashMap\n\n'
    for k, v in consts.items():
        out += f'def {k} : Nat := {v}\n'
    out += f'def FNV_OFFSET : UInt64 := 0x{offset:x}\n'
    out += f'def FNV_PRIME : UInt64 := 0x{prime:x}\n\n'
    out += '/-- `fnv_hash`: hash = OFFSET; for each byte: hash *= PRIME; hash ^= byte (uint64_t arithmetic) -/\n'
    out += 'def fnvHash (s : List UInt8) : UInt64 :=\n  s.foldl (fun h c => (h * FNV_PRIME) ^^^ c.toUInt64) FNV_OFFSET\n\n'
    out += 'end ChibiVerif.Gen.HashMap\n'
    sites = generate_sites(repo)
    sites += f'''/-- `(hash + i) % map->capacity` with the types clang assigns: `hash : uint64_t`, `i` and `capacity : int`, both
    converted to `unsigned long` (sign extension), sum and remainder computed modulo 2^64 -/
def probeIndexC (hash : UInt64) (i cap : Int32) : UInt64 :=
  (hash + i.toInt64.toUInt64) % cap.toInt64.toUInt64

/-- one round of `fnv_hash` with the types clang assigns: `s[i] : char` (signed on x86-64) is converted to
    `unsigned char` by the explicit cast and then to `unsigned long` (zero extension) -/
def fnvStepC (hash : UInt64) (c : Int8) : UInt64 :=
  (hash * 0x{prime:x}) ^^^ c.toUInt8.toUInt64

def fnvHashC (s : List Int8) : UInt64 := s.foldl fnvStepC 0x{offset:x}

end ChibiVerif.Gen.HashSites
'''
    return {'HashMapGen.lean': out, 'HashSitesGen.lean': sites, 'HashMapShapeGen.lean': generate_shape(repo, consts)}
