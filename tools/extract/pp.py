"""tokenize.c / preprocess.c -> Gen/PPGen.lean  (property C09)

Translated (regenerated on every check run, compared with the committed cache):
  tokenize.c    read_punct: the multi-character punctuator list `kw[]` in source order (first match wins)
  preprocess.c  init_macros: the predefined object-like macros (name, replacement text) and the built-in
                handler macros (name, handler function); read_macro_params: the name given to a bare `...`
Pinned (hand-modelled in Model/PP.lean; the translator checks that the source still has the shape the hand model
was written after and raises ExtractError otherwise): the order of the arms of subst(), the hide-set expressions
of expand_macro(), the flag propagation guards, join_tokens' spacing test, is_hash(), the whole arm "parameter followed
by ##" of subst() with the placemarker loop of `fix:` 5a15c0f (Model/PP.lean skipEmptyOperands), the copy loop of stringize()
(which tokens are escaped: TK_STR and TK_NUM, the latter being character constants while the preprocessor runs).
"""
import re
from common import *


def norm(s):
    return re.sub(r'\s+', ' ', s).strip()


def lean_str(s):
    out = '"'
    for ch in s:
        if ch == '"' or ch == '\\':
            out += '\\' + ch
        elif ch == '\n':
            out += '\\n'
        elif 32 <= ord(ch) < 127:
            out += ch
        else:
            raise ExtractError(f'non-printable character {ch!r} in a string the translator has to copy')
    return out + '"'


def c_string(lit):
    """value of a C string literal without octal/hex escapes"""
    assert lit[0] == '"' and lit[-1] == '"'
    s, i, out = lit[1:-1], 0, ''
    while i < len(s):
        if s[i] == '\\':
            i += 1
            m = {'n': '\n', 't': '\t', '\\': '\\', '"': '"'}
            if s[i] not in m:
                raise ExtractError(f'unsupported escape \\{s[i]} in {lit}')
            out += m[s[i]]
        else:
            out += s[i]
        i += 1
    return out


PINNED = [
    # (function, regex that must match the comment-stripped, whitespace-normalised body, what it pins)
    ('subst', r'if \(equal\(tok, "#"\) && !is_objlike\) \{.*?'
              r'if \(equal\(tok, ","\) && equal\(tok->next, "##"\)\) \{.*?'
              r'if \(equal\(tok, "##"\)\) \{ if \(cur == &head\) error_tok\(.*?if \(tok->next->kind == TK_EOF\) error_tok\(.*?'
              r'MacroArg \*arg = find_arg\(args, tok\); if \(arg && equal\(tok->next, "##"\)\) \{ Token \*rhs = tok->next->next; '
              r'if \(rhs->kind == TK_EOF\) error_tok\(tok->next, "\'##\' cannot appear at end of macro expansion"\); '
              # the arm "parameter with an EMPTY argument before ##" after `fix:` 5a15c0f, whole: the placemarker loop
              # (Model/PP.lean skipEmptyOperands), then the copy of the operand the loop stops at, then tok = rhs->next
              r'if \(arg->tok->kind == TK_EOF\) \{ MacroArg \*arg2 = find_arg\(args, rhs\); '
              r'while \(arg2 && arg2->tok->kind == TK_EOF && equal\(rhs->next, "##"\) && rhs->next->next->kind != TK_EOF\) \{ '
              r'rhs = rhs->next->next; arg2 = find_arg\(args, rhs\); \} '
              r'if \(arg2\) \{ for \(Token \*t = arg2->tok; t->kind != TK_EOF; t = t->next\) cur = cur->next = copy_token\(t\); \} '
              r'else \{ cur = cur->next = copy_token\(rhs\); \} tok = rhs->next; continue; \} '
              # the non-empty argument: copied unexpanded, the `##` stays for the next iteration
              r'Token \*prev = cur; for \(Token \*t = arg->tok; t->kind != TK_EOF; t = t->next\) cur = cur->next = copy_token\(t\); '
              r'prev->next->at_bol = tok->at_bol; prev->next->has_space = tok->has_space; tok = tok->next; continue; \} '
              r'if \(equal\(tok, "__VA_OPT__"\) && equal\(tok->next, "\("\)\) \{.*?subst\(arg->tok, args, false\).*?'
              r'if \(arg\) \{ if \(!arg->expanded\) arg->expanded = preprocess2\(add_hideset\(arg->tok, NULL\)\);.*?'
              r'cur = cur->next = copy_token\(tok\); tok = tok->next; continue; \} cur->next = tok; return head\.next;',
     'order and guards of the arms of subst; the whole arm "parameter before ##" with the placemarker loop'),
    ('expand_macro', r'if \(hideset_contains\(tok->hideset, tok->loc, tok->len\)\) return false; '
                     r'Macro \*m = find_macro\(tok\); if \(!m\) return false; '
                     r'if \(m->handler\) \{ \*rest = m->handler\(tok\); \(\*rest\)->next = tok->next; return true; \} '
                     r'if \(m->is_objlike\) \{ Hideset \*hs = hideset_union\(tok->hideset, new_hideset\(m->name\)\); '
                     r'Token \*body = add_hideset\(subst\(m->body, NULL, true\), hs\); .*?'
                     r'\*rest = append\(body, tok->next\); if \(body->kind != TK_EOF\) \{ \(\*rest\)->at_bol = tok->at_bol; '
                     r'\(\*rest\)->has_space = tok->has_space; \} return true; \} '
                     r'if \(!equal\(tok->next, "\("\)\) return false; .*?'
                     r'Hideset \*hs = hideset_intersection\(macro_token->hideset, rparen->hideset\); '
                     r'hs = hideset_union\(hs, new_hideset\(m->name\)\); '
                     r'Token \*body = subst\(m->body, args, false\); body = add_hideset\(body, hs\); .*?'
                     r'\*rest = append\(body, tok->next\); if \(body->kind != TK_EOF\) \{ \(\*rest\)->at_bol = macro_token->at_bol; '
                     r'\(\*rest\)->has_space = macro_token->has_space; \} return true;',
     'hide-set rules and flag propagation of expand_macro'),
    ('is_hash', r'return tok->at_bol && !tok->origin && equal\(tok, "#"\);', 'is_hash'),
    ('hideset_union', r'for \(; hs1; hs1 = hs1->next\) cur = cur->next = new_hideset\(hs1->name\); cur->next = hs2; return head\.next;',
     'hideset_union = copy of hs1 followed by hs2'),
    ('hideset_intersection', r'for \(; hs1; hs1 = hs1->next\) if \(hideset_contains\(hs2, hs1->name, strlen\(hs1->name\)\)\) '
                             r'cur = cur->next = new_hideset\(hs1->name\); return head\.next;', 'hideset_intersection = filter of hs1'),
    ('join_tokens', r'if \(t != tok && \(t->has_space \|\| t->at_bol\)\) buf\[pos\+\+\] = \' \';', 'join_tokens spacing test'),
    ('paste', r'if \(tok->kind == TK_EOF \|\| tok->next->kind != TK_EOF\) error_tok\(.*?tok->at_bol = lhs->at_bol; tok->has_space = lhs->has_space; tok->line_no = lhs->line_no; return tok;',
     'paste: single-token test and flags of the result'),
    ('read_macro_arg_one', r'if \(level == 0 && equal\(tok, "\)"\)\) break; if \(level == 0 && !read_rest && equal\(tok, ","\)\) break; '
                           r'if \(tok->kind == TK_EOF\) error_tok\(tok, "premature end of input"\); '
                           r'if \(equal\(tok, "\("\)\) level\+\+; else if \(equal\(tok, "\)"\)\) level--;', 'read_macro_arg_one loop'),
    ('read_macro_definition', r'if \(!tok->has_space && !tok->at_bol && equal\(tok, "\("\)\) \{', 'function-like rule of read_macro_definition'),
    ('quote_string', r'if \(str\[i\] == \'\\\\\' \|\| str\[i\] == \'"\'\) \*p\+\+ = \'\\\\\'; \*p\+\+ = str\[i\];', 'quote_string escaping'),
    # stringize after `fix:` 6fecbd6: the whole copy loop and the tail (Model/PP.lean strzLoop / strzCopy / stringize)
    ('stringize', r'char \*buf = calloc\(1, len\); int pos = 0; buf\[pos\+\+\] = \'"\'; '
                  r'for \(Token \*t = arg; t->kind != TK_EOF; t = t->next\) \{ '
                  r'if \(t != arg && \(t->has_space \|\| t->at_bol\)\) buf\[pos\+\+\] = \' \'; '
                  r'for \(int i = 0; i < t->len; i\+\+\) \{ '
                  r'if \(\(t->kind == TK_STR \|\| t->kind == TK_NUM\) && \(t->loc\[i\] == \'\\\\\' \|\| t->loc\[i\] == \'"\'\)\) buf\[pos\+\+\] = \'\\\\\'; '
                  r'buf\[pos\+\+\] = t->loc\[i\]; \} \} buf\[pos\+\+\] = \'"\'; buf\[pos\] = \'\\0\'; '
                  r'Token \*tok = tokenize\(new_file\(hash->file->name, hash->file->file_no, buf\)\); '
                  r'tok->line_no = hash->line_no; return tok;$',
     'stringize: the copy loop (escape only inside TK_STR / TK_NUM tokens, one space for has_space || at_bol) and the result token'),
]

SIGS = {
    'subst': r'static\s+Token\s*\*\s*subst\s*\(\s*Token\s*\*\s*tok\s*,\s*MacroArg\s*\*\s*args\s*,\s*bool\s+is_objlike\s*\)\s*\{',
    'expand_macro': r'static\s+bool\s+expand_macro\s*\(\s*Token\s*\*\*\s*rest\s*,\s*Token\s*\*\s*tok\s*\)\s*\{',
    'is_hash': r'static\s+bool\s+is_hash\s*\(\s*Token\s*\*\s*tok\s*\)\s*\{',
    'hideset_union': r'static\s+Hideset\s*\*\s*hideset_union\s*\(\s*Hideset\s*\*\s*hs1\s*,\s*Hideset\s*\*\s*hs2\s*\)\s*\{',
    'hideset_intersection': r'static\s+Hideset\s*\*\s*hideset_intersection\s*\(\s*Hideset\s*\*\s*hs1\s*,\s*Hideset\s*\*\s*hs2\s*\)\s*\{',
    'join_tokens': r'static\s+char\s*\*\s*join_tokens\s*\(\s*Token\s*\*\s*tok\s*,\s*Token\s*\*\s*end\s*\)\s*\{',
    'paste': r'static\s+Token\s*\*\s*paste\s*\(\s*Token\s*\*\s*lhs\s*,\s*Token\s*\*\s*rhs\s*\)\s*\{',
    'read_macro_arg_one': r'static\s+MacroArg\s*\*\s*read_macro_arg_one\s*\(\s*Token\s*\*\*\s*rest\s*,\s*Token\s*\*\s*tok\s*,\s*bool\s+read_rest\s*\)\s*\{',
    'read_macro_definition': r'static\s+void\s+read_macro_definition\s*\(\s*Token\s*\*\*\s*rest\s*,\s*Token\s*\*\s*tok\s*\)\s*\{',
    'quote_string': r'static\s+char\s*\*\s*quote_string\s*\(\s*char\s*\*\s*str\s*\)\s*\{',
    'stringize': r'static\s+Token\s*\*\s*stringize\s*\(\s*Token\s*\*\s*hash\s*,\s*Token\s*\*\s*arg\s*\)\s*\{',
}


def generate(repo):
    tsrc = strip_comments(read(repo, 'tokenize.c'))
    psrc = strip_comments(read(repo, 'preprocess.c'))

    # ---- read_punct
    body = function_body(tsrc, r'static\s+int\s+read_punct\s*\(\s*char\s*\*\s*p\s*\)\s*\{', 'read_punct')
    nb = norm(body)
    m = re.fullmatch(r'static char \*kw\[\] = \{ (.*?),? \}; '
                     r'for \(int i = 0; i < sizeof\(kw\) / sizeof\(\*kw\); i\+\+\) '
                     r'if \(startswith\(p, kw\[i\]\)\) return strlen\(kw\[i\]\); '
                     r'return ispunct\(\*p\) \? 1 : 0;', nb)
    if not m:
        raise ExtractError('read_punct has a shape the translator does not understand: ' + nb[:200])
    kws = re.findall(r'"(?:\\.|[^"\\])*"', m.group(1))
    if norm(', '.join(kws)) != norm(m.group(1)):
        raise ExtractError('read_punct: kw[] is not a plain list of string literals')
    kws = [c_string(k) for k in kws]

    # ---- init_macros
    body = function_body(psrc, r'void\s+init_macros\s*\(\s*void\s*\)\s*\{', 'init_macros')
    predefined, builtins = [], []
    for stmt in [norm(s) for s in body.split(';')]:
        if not stmt:
            continue
        m = re.fullmatch(r'define_macro\(("(?:\\.|[^"\\])*"), ("(?:\\.|[^"\\])*")\)', stmt)
        if m:
            predefined.append((c_string(m.group(1)), c_string(m.group(2))))
            continue
        m = re.fullmatch(r'define_macro\(("(?:\\.|[^"\\])*"), (format_date|format_time)\(tm\)\)', stmt)
        if m:
            predefined.append((c_string(m.group(1)), '"?"'))      # a string literal whose text depends on the clock
            continue
        m = re.fullmatch(r'add_builtin\(("(?:\\.|[^"\\])*"), (\w+)\)', stmt)
        if m:
            builtins.append((c_string(m.group(1)), m.group(2)))
            continue
        if re.fullmatch(r'time_t now = time\(NULL\)|struct tm \*tm = localtime\(&now\)', stmt):
            continue
        raise ExtractError('init_macros: statement the translator does not understand: ' + stmt[:120])
    known_handlers = {'file_macro', 'line_macro', 'counter_macro', 'timestamp_macro', 'base_file_macro'}
    for n, h in builtins:
        if h not in known_handlers:
            raise ExtractError(f'init_macros: unknown built-in handler {h} for {n}')

    # ---- counter_macro: starts at 0, post-increment
    cb = norm(function_body(psrc, r'static\s+Token\s*\*\s*counter_macro\s*\(\s*Token\s*\*\s*tmpl\s*\)\s*\{', 'counter_macro'))
    m = re.fullmatch(r'static int i = (\d+); return new_num_token\(i\+\+, tmpl\);', cb)
    if not m:
        raise ExtractError('counter_macro has a shape the translator does not understand: ' + cb)
    counter_start = int(m.group(1))

    # ---- read_macro_params: name of a bare `...`
    pb = norm(function_body(psrc, r'static\s+MacroParam\s*\*\s*read_macro_params\s*\(', 'read_macro_params'))
    m = re.search(r'if \(equal\(tok, "\.\.\."\)\) \{ \*va_args_name = ("(?:\\.|[^"\\])*");', pb)
    if not m:
        raise ExtractError('read_macro_params: cannot find the name given to a bare `...`')
    va_name = c_string(m.group(1))
    hb = norm(function_body(psrc, r'static\s+bool\s+has_varargs\s*\(', 'has_varargs'))
    m = re.search(r'if \(!strcmp\(ap->name, ("(?:\\.|[^"\\])*")\)\) return ap->tok->kind != TK_EOF;', hb)
    if not m:
        raise ExtractError('has_varargs has a shape the translator does not understand')
    has_va_name = c_string(m.group(1))

    # ---- token kinds while the preprocessor runs: the one TK_NUM token tokenize() makes is the character constant
    #      (numbers are TK_PP_NUM until convert_pp_tokens); Model/PP.lean `Kind.other` = that TK_NUM, `Kind.num` = TK_PP_NUM
    if len(re.findall(r'new_token\(TK_NUM\b', tsrc)) != 1 or len(re.findall(r'new_token\(TK_PP_NUM\b', tsrc)) != 1:
        raise ExtractError('tokenize.c: expected exactly one new_token(TK_NUM, ..) and one new_token(TK_PP_NUM, ..)')
    cl = norm(function_body(tsrc, r'static\s+Token\s*\*\s*read_char_literal\s*\(', 'read_char_literal'))
    if 'new_token(TK_NUM, start, end + 1)' not in cl:
        raise ExtractError('read_char_literal no longer makes the TK_NUM token (stringize escapes inside TK_STR and TK_NUM tokens)')

    # ---- pinned shapes
    for fn, rx, what in PINNED:
        b = norm(function_body(psrc, SIGS[fn], fn))
        if not re.search(rx, b):
            raise ExtractError(f'{fn}: the source no longer has the shape the hand model was written after ({what})')

    out = HEADER.format(tool='pp.py', src='tokenize.c, preprocess.c')
    out += 'namespace ChibiVerif.Gen.PP\n\n'
    out += '/-- tokenize.c `read_punct`: multi-character punctuators in source order (first match wins) -/\n'
    out += 'def punctKw : List String := [' + ', '.join(lean_str(k) for k in kws) + ']\n\n'
    out += '/-- preprocess.c `init_macros`: predefined object-like macros (name, replacement text) -/\n'
    out += 'def predefined : List (String × String) := [\n'
    out += ',\n'.join(f'  ({lean_str(n)}, {lean_str(v)})' for n, v in predefined) + '\n]\n\n'
    out += '/-- preprocess.c `init_macros`: built-in macros (name, handler function) -/\n'
    out += 'def builtins : List (String × String) := [' + ', '.join(f'({lean_str(n)}, {lean_str(h)})' for n, h in builtins) + ']\n\n'
    out += '/-- `counter_macro`: first value (post-incremented on every expansion) -/\n'
    out += f'def counterStart : Nat := {counter_start}\n\n'
    out += '/-- `read_macro_params`: the parameter name given to a bare `...` -/\n'
    out += f'def vaArgsName : String := {lean_str(va_name)}\n\n'
    out += '/-- `has_varargs`: the argument name it looks for -/\n'
    out += f'def hasVarargsName : String := {lean_str(has_va_name)}\n\n'
    out += 'end ChibiVerif.Gen.PP\n'
    return {'PPGen.lean': out}
