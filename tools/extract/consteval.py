"""parse.c eval / eval2 / eval3 / eval_truth / eval_double / eval_double2 / is_const_expr, type.c is_integer / is_flonum
and the consumers of constant values -> Gen/ConstEvalGen.lean          (property C07)

The translation works on clang-14's *typed* AST (every implicit conversion is an explicit node), so each
operator is emitted with the width and signedness the host compiler computes with:
`(uint64_t)lhs / rhs` becomes `divU h (castS 64 v_lhs) (castS 64 v_rhs)`, `-(uint64_t)lhs` a total
unsigned negation, `eval(l) + eval(r)` the *signed* `addS h` (host-undefined on overflow), the wrapper's
`(int64_t)(uint8_t)val` the ladder `castU 64 (castS 8 v_val)`.  `error_tok` becomes `Fail.diag`.

Floating host operations (`(float)lhs + (float)rhs`, `(uint64_t)eval_double(..)`, `lhs < eval_double(..)`, the implicit
conversions clang inserts) become applications of the fields of `HostFp` (Model/HostFp.lean) at the width clang computed:
`A.add32 (A.f80to32 v_lhs) (A.f80to32 v_rhs)` widened by `A.f32to80`.

Evaluation order: C leaves the order of the operands of a binary operator unspecified.  The translator therefore REFUSES
(ExtractError) an operator both of whose operands can produce a diagnostic (two calls of the folder in one expression):
the generated model is left-to-right only because the source sequences the calls in separate statements.

`eval2`, `eval3`, `eval_double`, `eval_double2` call each other on the SAME node; they are inlined into the two mutually
recursive definitions `eval2` / `evalDouble`, whose recursive calls are all on children (structural recursion).  A chain of
same-node calls that re-enters a function (eval3 -> eval_double -> eval -> eval2 -> eval3: taken iff is_flonum and
is_integer both hold) is unbounded recursion in C and becomes `Fail.crash`.

Only a small C subset is understood; anything else raises ExtractError (the check then reports the tie as
broken).  The address-constant arms (ND_ADDR, ND_LABEL_VAL, ND_MEMBER, ND_VAR) are not given integer
semantics: their source text is pinned and they translate to `Fail.unmodelled` (after the `!label`
diagnostic they start with)."""
import re, json, os
from common import *

INT_TYPES = {
    'long': (64, True), 'int64_t': (64, True), 'long long': (64, True),
    'unsigned long': (64, False), 'uint64_t': (64, False), 'unsigned long long': (64, False),
    'int': (32, True), 'int32_t': (32, True), 'unsigned int': (32, False), 'uint32_t': (32, False),
    'short': (16, True), 'int16_t': (16, True), 'unsigned short': (16, False), 'uint16_t': (16, False),
    'signed char': (8, True), 'int8_t': (8, True), 'char': (8, True),
    'unsigned char': (8, False), 'uint8_t': (8, False),
}
FLOAT_TYPES = {'float': 32, 'double': 64, 'long double': 80}
NODE_FIELDS = {'kind': ('kind', ('enum', 'NodeKind')), 'ty': ('ty', ('ty',)), 'val': ('nval', ('i', 64, True)),
               'fval': ('nfval', ('f', 80)),
               'lhs': ('lhs', ('node',)), 'rhs': ('rhs', ('node',)), 'cond': ('cond', ('node',)),
               'then': ('thn', ('node',)), 'els': ('els', ('node',)), 'tok': ('tok', ('tok',))}
CHILDREN = {'lhs', 'rhs', 'cond', 'thn', 'els'}

ALIGN_MSG = 'alignment must be a power of two no larger than 2^28'

# address-constant arms of eval3: normalised source text -> Lean
PINNED = {
    'ND_ADDR': ('case ND_ADDR: return eval_rval(node->lhs, label);',
                '.error (.unmodelled "address constant (&x)")'),
    'ND_LABEL_VAL': ('case ND_LABEL_VAL: if (!label) error_tok(node->tok, "not a compile-time constant"); '
                     '*label = &node->unique_label; return 0;',
                     'if !{L} then .error (.diag "not a compile-time constant") else '
                     '.error (.unmodelled "address constant (&&label)")'),
    'ND_MEMBER': ('case ND_MEMBER: if (!label) error_tok(node->tok, "not a compile-time constant"); '
                  'if (node->ty->kind != TY_ARRAY) error_tok(node->tok, "invalid initializer"); '
                  'return eval_rval(node->lhs, label) + node->member->offset;',
                  'if !{L} then .error (.diag "not a compile-time constant") else '
                  'if ty.kind != TypeKind.TY_ARRAY then .error (.diag "invalid initializer") else '
                  '.error (.unmodelled "address constant (member)")'),
    'ND_VAR': ('case ND_VAR: if (!label) error_tok(node->tok, "not a compile-time constant"); '
               'if (node->var->ty->kind != TY_ARRAY && node->var->ty->kind != TY_FUNC) error_tok(node->tok, "invalid initializer"); '
               '*label = &node->var->name; return 0;',
               'if !{L} then .error (.diag "not a compile-time constant") else '
               '.error (.unmodelled "address constant (variable)")'),
}


class V:
    """a translated expression: `binds` are the effectful sub-computations in evaluation order
    [(name, Lean term of type Except Fail _)], `text` a pure Lean term over those names"""
    def __init__(self, text, cty, binds=None):
        self.text, self.cty, self.binds = text, cty, list(binds or [])

    @property
    def pure(self):
        return not self.binds


def qual(n):
    t = n.get('type', {})
    return t.get('desugaredQualType', t.get('qualType', ''))


def cty_of(n):
    q = qual(n).replace('const ', '').strip()
    if q in INT_TYPES:
        return ('i',) + INT_TYPES[q]
    if q in ('bool', '_Bool'):
        return ('bool',)
    if q in ('NodeKind', 'TypeKind', 'enum NodeKind', 'enum TypeKind'):
        return ('enum', q.replace('enum ', ''))
    if q == 'Node *':
        return ('node',)
    if q == 'Type *':
        return ('ty',)
    if q == 'Token *':
        return ('tok',)
    if q == 'char ***':
        return ('label',)
    if q in FLOAT_TYPES:
        return ('f', FLOAT_TYPES[q])
    if q == 'void':
        return ('void',)
    raise ExtractError(f'type {q!r} is outside the translated subset')


def is_float(n):
    q = qual(n).replace('const ', '').strip()
    return q in FLOAT_TYPES


def strip(n, kinds=('ParenExpr', 'ConstantExpr'), casts=('LValueToRValue', 'NoOp')):
    while True:
        if n['kind'] in kinds:
            n = n['inner'][0]
        elif n['kind'] in ('ImplicitCastExpr', 'CStyleCastExpr') and n.get('castKind') in casts:
            n = n['inner'][0]
        else:
            return n


def callee(n):
    if n['kind'] != 'CallExpr':
        return None
    f = strip(n['inner'][0], casts=('LValueToRValue', 'NoOp', 'FunctionToPointerDecay'))
    if f['kind'] != 'DeclRefExpr':
        raise ExtractError('indirect call')
    return f['referencedDecl']['name']


def find_fn(repo, cfile, name):
    for d in clang_ast(repo, cfile, name):
        if d.get('kind') == 'FunctionDecl' and d.get('name') == name and d.get('inner') \
                and d['inner'][-1]['kind'] == 'CompoundStmt':
            return d
    raise ExtractError(f'{cfile}: no definition of {name}')


class Tr:
    """translator of one function body"""

    def __init__(self, gen, fname, node_param=None, node_mode='pattern', node_text='node', pure_fn=False,
                 ty_param=None, self_call=None, label_text='label', stack=()):
        self.g = gen
        self.fname = fname
        self.node_param = node_param      # name of the `Node *` parameter
        self.node_mode = node_mode        # 'pattern': fields are bound by the match; 'opaque': accessor functions
        self.node_text = node_text
        self.ty_param = ty_param
        self.pure_fn = pure_fn
        self.locals = {}                  # clang decl id -> (Lean name, cty)
        self.names = set()
        self.n = 0
        self.self_call = self_call
        self.label_text = label_text      # Lean text of `label != NULL` ('false' when inlined through eval(node))
        self.stack = tuple(stack) + (fname,)   # functions being inlined on the matched node, outermost first

    def fresh(self):
        self.g.counter += 1
        return f't{self.g.counter}'

    # ---------------------------------------------------------------- monadic glue
    def mon(self, mtext, cty, binds=None):
        """an effectful computation: bind it to a fresh name"""
        if self.pure_fn:
            raise ExtractError(f'{self.fname}: effectful expression in a function translated as pure')
        t = self.fresh()
        return V(t, cty, list(binds or []) + [(t, mtext)])

    def mbind(self, vals, f):
        """combine operands left to right; f maps their pure texts to a V.  C does not sequence the operands of an
        operator: if more than one of them is effectful (can end in a diagnostic) the model would have to pick an order."""
        binds = []
        if sum(1 for v in vals if v.binds) > 1:
            raise ExtractError(f'{self.fname}: two operands of one operator both call the folder: C leaves their order of '
                               'evaluation unspecified, so which of two diagnostics is reported depends on the host compiler '
                               '(evaluate the left operand in a statement of its own)')
        for v in vals:
            binds += v.binds
        r = f([v.text for v in vals])
        return V(r.text, r.cty, binds + r.binds)

    def render(self, v):
        """the whole computation as one Lean term of type Except Fail _"""
        if self.pure_fn:
            if v.binds:
                raise ExtractError('effect in pure function')
            return v.text
        binds = list(v.binds)
        if binds and binds[-1][0] == v.text:
            body = binds.pop()[1]
        else:
            body = f'pure {v.text}'
        for t, m in reversed(binds):
            body = f'({m} >>= fun {t} => {body})'
        return body

    def lift(self, v):
        return self.render(v)

    # ---------------------------------------------------------------- expressions
    def const_int(self, e):
        """value of a literal expression (IntegerLiteral, unary minus, integral casts of those), or None"""
        k = e['kind']
        if k in ('ParenExpr', 'ConstantExpr'):
            return self.const_int(e['inner'][0])
        if k == 'IntegerLiteral':
            return int(e['value'])
        if k == 'UnaryOperator' and e['opcode'] == '-':
            v = self.const_int(e['inner'][0])
            c = cty_of(e)
            if v is None or c[0] != 'i':
                return None
            if c[2]:
                if -v < -(1 << (c[1] - 1)):
                    raise ExtractError('literal negation overflows')
                return -v
            return (-v) % (1 << c[1])
        if k in ('ImplicitCastExpr', 'CStyleCastExpr') and e.get('castKind') == 'IntegralCast':
            v = self.const_int(e['inner'][0])
            c = cty_of(e)
            if v is None or c[0] != 'i':
                return None
            v %= (1 << c[1])
            if c[2] and v >= (1 << (c[1] - 1)):
                v -= (1 << c[1])
            return v
        return None

    def tr(self, e):
        k = e['kind']
        cv = self.const_int(e)
        if cv is not None:
            c = cty_of(e)
            if c[0] != 'i':
                raise ExtractError('integer literal of non-integer type')
            return V(f'({cv % (1 << c[1])}#{c[1]})', c)
        if k in ('ParenExpr', 'ConstantExpr'):
            return self.tr(e['inner'][0])
        if k in ('ImplicitCastExpr', 'CStyleCastExpr'):
            return self.tr_cast(e)
        if k == 'IntegerLiteral':
            c = cty_of(e)
            if c[0] != 'i':
                raise ExtractError('integer literal of non-integer type')
            return V(f'({int(e["value"])}#{c[1]})', c)
        if k == 'DeclRefExpr':
            return self.tr_ref(e)
        if k == 'MemberExpr':
            return self.tr_member(e)
        if k == 'UnaryOperator':
            return self.tr_unary(e)
        if k == 'BinaryOperator':
            return self.tr_binary(e)
        if k == 'ConditionalOperator':
            return self.tr_condop(e)
        if k == 'CallExpr':
            return self.tr_call(e)
        raise ExtractError(f'{self.fname}: expression kind {k} is outside the translated subset')

    def tr_cast(self, e):
        ck = e.get('castKind')
        inner = e['inner'][0]
        if ck in ('LValueToRValue', 'NoOp'):
            return self.tr(inner)
        if ck == 'NullToPointer':
            z = strip(inner, casts=('LValueToRValue', 'NoOp', 'NullToPointer'))
            if z['kind'] == 'IntegerLiteral' and z['value'] == '0' and cty_of(e) == ('label',):
                return V('false', ('label',))
            raise ExtractError('NullToPointer of something other than NULL / to a non-label pointer')
        if ck == 'IntegralCast':
            dst = cty_of(e)
            src = self.tr(inner)
            if dst[0] != 'i':
                raise ExtractError(f'IntegralCast to {dst}')
            if src.cty[0] == 'bool':
                return self.mbind([src], lambda a: V(f'(boolTo {dst[1]} {a[0]})', dst))
            if src.cty[0] != 'i':
                raise ExtractError(f'IntegralCast from {src.cty} (enum operands are only understood in ==, != and switch)')
            if src.cty[1] == dst[1]:
                return V(src.text, dst, src.binds)      # same width: the bits are unchanged
            fn = 'castS' if src.cty[2] else 'castU'
            return self.mbind([src], lambda a: V(f'({fn} {dst[1]} {a[0]})', dst))
        if ck == 'IntegralToBoolean':
            return self.tr_cond(inner)
        if ck == 'FloatingToIntegral':
            dst = cty_of(e)
            src = self.tr(inner)
            if src.cty != ('f', 80) or dst not in (('i', 64, True), ('i', 64, False)):
                raise ExtractError(f'floating -> integer conversion {src.cty} -> {dst} is outside the translated subset')
            fn = 'cvtI64' if dst[2] else 'cvtU64'
            return self.mbind([src], lambda a: self.mon(f'({fn} h A {a[0]})', dst))
        if ck == 'FloatingCast':
            dst = cty_of(e)
            src = self.tr(inner)
            if src.cty[0] != 'f' or dst[0] != 'f':
                raise ExtractError(f'FloatingCast {src.cty} -> {dst}')
            if src.cty == dst:
                return src
            return self.mbind([src], lambda a: V(f'(A.f{src.cty[1]}to{dst[1]} {a[0]})', dst))
        if ck == 'IntegralToFloating':
            dst = cty_of(e)
            src = self.tr(inner)
            if dst != ('f', 80) or src.cty not in (('i', 64, True), ('i', 64, False), ('i', 32, True)):
                raise ExtractError(f'integer -> floating conversion {src.cty} -> {dst} is outside the translated subset')
            fn = ('i' if src.cty[2] else 'u') + str(src.cty[1]) + 'to80'
            return self.mbind([src], lambda a: V(f'(A.{fn} {a[0]})', dst))
        raise ExtractError(f'{self.fname}: cast kind {ck} is outside the translated subset')

    def tr_ref(self, e):
        d = e['referencedDecl']
        name = d['name']
        if d['kind'] == 'EnumConstantDecl':
            if name.startswith('ND_'):
                return V(f'NodeKind.{name}', ('enum', 'NodeKind'))
            if name.startswith('TY_'):
                return V(f'TypeKind.{name}', ('enum', 'TypeKind'))
            raise ExtractError(f'enum constant {name}')
        if d['kind'] == 'ParmVarDecl':
            if name == self.node_param:
                return V(self.node_text, ('node',))
            if name == self.ty_param:
                return V('ty', ('ty',))
            if name == 'label':
                return V(self.label_text, ('label',))
            raise ExtractError(f'{self.fname}: parameter {name}')
        if d['kind'] == 'VarDecl':
            if d['id'] not in self.locals:
                raise ExtractError(f'{self.fname}: variable {name} is not a local of the translated function')
            return V(*self.locals[d['id']])
        raise ExtractError(f'reference to {d["kind"]} {name}')

    def tr_member(self, e):
        if not e.get('isArrow'):
            raise ExtractError('member access with .')
        name = e['name']
        base = strip(e['inner'][0])
        b = self.tr(base)
        if b.cty == ('node',):
            if base['kind'] == 'DeclRefExpr' and self.node_mode == 'pattern':
                if name not in NODE_FIELDS:
                    raise ExtractError(f'{self.fname}: node->{name} is outside the translated subset')
                t, c = NODE_FIELDS[name]
                return V(t, c)
            if name == 'ty':
                return self.mbind([b], lambda a: self.mon(f'(CNode.tyOf {a[0]})', ('ty',)))
            raise ExtractError(f'{self.fname}: {b.text}->{name} is outside the translated subset')
        if b.cty == ('ty',):
            fld = {'size': ('size', ('i', 32, True)), 'is_unsigned': ('isUnsigned', ('bool',)),
                   'kind': ('kind', ('enum', 'TypeKind'))}
            if name not in fld:
                raise ExtractError(f'{self.fname}: type->{name} is outside the translated subset')
            t, c = fld[name]
            if cty_of(e) != c:
                raise ExtractError(f'field {name} has type {qual(e)}, the model assumes {c}')
            return self.mbind([b], lambda a: V(f'{a[0]}.{t}', c))
        raise ExtractError(f'{self.fname}: member of {b.cty}')

    def tr_unary(self, e):
        op = e['opcode']
        if op == '!':
            c = self.tr_cond(e['inner'][0])
            r = self.mbind([c], lambda a: V(f'(!{a[0]})', ('bool',)))
            return self.mbind([r], lambda a: V(f'(b2i {a[0]})', ('i', 32, True)))
        a = self.tr(e['inner'][0])
        c = cty_of(e)
        if a.cty[0] == 'f' and c == a.cty and op == '-':
            return self.mbind([a], lambda x: V(f'(A.neg{c[1]} {x[0]})', c))
        if a.cty[0] != 'i' or c != a.cty:
            raise ExtractError(f'unary {op} on {a.cty} giving {c}')
        if op == '-':
            if c[2]:
                return self.mbind([a], lambda x: self.mon(f'(negS h {x[0]})', c))
            return self.mbind([a], lambda x: V(f'(-{x[0]})', c))
        if op == '~':
            return self.mbind([a], lambda x: V(f'(~~~{x[0]})', c))
        raise ExtractError(f'unary operator {op}')

    def tr_binary(self, e):
        op = e['opcode']
        if op in ('==', '!=', '<', '<=', '>', '>=', '&&', '||'):
            c = self.tr_cond(e)
            return self.mbind([c], lambda a: V(f'(b2i {a[0]})', ('i', 32, True)))
        l, r = e['inner']
        a, b = self.tr(l), self.tr(r)
        c = cty_of(e)
        if c[0] == 'f':
            if a.cty != c or b.cty != c or op not in ('+', '-', '*', '/'):
                raise ExtractError(f'floating binary {op}: operand types {a.cty},{b.cty}, result {c}')
            fn = {'+': 'add', '-': 'sub', '*': 'mul', '/': 'div'}[op] + str(c[1])
            return self.mbind([a, b], lambda x: V(f'(A.{fn} {x[0]} {x[1]})', c))
        if c[0] != 'i' or a.cty[0] != 'i' or b.cty[0] != 'i':
            raise ExtractError(f'binary {op} on {a.cty}, {b.cty}')
        if op in ('<<', '>>'):
            if a.cty != c:
                raise ExtractError('shift result type differs from the promoted left operand')
            fn = {'<<': 'shl', '>>': 'shr'}[op] + ('S' if c[2] else 'U')
            cnt = (lambda t: f'{t}.toInt') if b.cty[2] else (lambda t: f'({t}.toNat : Int)')
            return self.mbind([a, b], lambda x: self.mon(f'({fn} h {x[0]} {cnt(x[1])})', c))
        if a.cty != c or b.cty != c:
            raise ExtractError(f'binary {op}: operand types {a.cty},{b.cty} differ from result {c} (missing conversion?)')
        if op in ('+', '-', '*'):
            if c[2]:
                fn = {'+': 'addS', '-': 'subS', '*': 'mulS'}[op]
                return self.mbind([a, b], lambda x: self.mon(f'({fn} h {x[0]} {x[1]})', c))
            return self.mbind([a, b], lambda x: V(f'({x[0]} {op} {x[1]})', c))
        if op in ('/', '%'):
            fn = {'/': 'div', '%': 'mod'}[op] + ('S' if c[2] else 'U')
            return self.mbind([a, b], lambda x: self.mon(f'({fn} h {x[0]} {x[1]})', c))
        if op in ('&', '|', '^'):
            lop = {'&': '&&&', '|': '|||', '^': '^^^'}[op]
            return self.mbind([a, b], lambda x: V(f'({x[0]} {lop} {x[1]})', c))
        raise ExtractError(f'binary operator {op}')

    def tr_cond(self, e):
        """translate a C scalar used as a truth value to a Lean Bool"""
        while True:
            if e['kind'] in ('ParenExpr', 'ConstantExpr'):
                e = e['inner'][0]
            elif e['kind'] == 'ImplicitCastExpr' and e.get('castKind') in ('IntegralToBoolean', 'NoOp'):
                e = e['inner'][0]
            elif e['kind'] == 'ImplicitCastExpr' and e.get('castKind') == 'IntegralCast' \
                    and qual(e['inner'][0]) in ('bool', '_Bool'):
                e = e['inner'][0]
            elif e['kind'] == 'ImplicitCastExpr' and e.get('castKind') == 'FloatingToBoolean':
                # C11 6.3.1.2: the result is 0 if the value compares equal to 0
                v = self.tr(e['inner'][0])
                if v.cty != ('f', 80):
                    raise ExtractError(f'truth value of {v.cty}')
                return self.mbind([v], lambda a: V(f'(!(A.eq80 {a[0]} (A.i32to80 (0#32))))', ('bool',)))
            else:
                break
        k = e['kind']
        if k == 'UnaryOperator' and e['opcode'] == '!':
            c = self.tr_cond(e['inner'][0])
            return self.mbind([c], lambda a: V(f'(!{a[0]})', ('bool',)))
        if k == 'BinaryOperator' and e['opcode'] in ('&&', '||'):
            a, b = self.tr_cond(e['inner'][0]), self.tr_cond(e['inner'][1])
            op = e['opcode']
            if b.pure:
                return self.mbind([a], lambda x: V(f'({x[0]} {op} {b.text})', ('bool',)))
            if self.pure_fn:
                raise ExtractError('effectful operand in a pure function')
            # short circuit: the right operand is evaluated only when needed
            if op == '&&':
                return self.mbind([a], lambda x: self.mon(f'(if {x[0]} then {self.render(b)} else pure false)', ('bool',)))
            return self.mbind([a], lambda x: self.mon(f'(if {x[0]} then pure true else {self.render(b)})', ('bool',)))
        if k == 'BinaryOperator' and e['opcode'] in ('==', '!=', '<', '<=', '>', '>='):
            return self.tr_compare(e)
        v = self.tr(e)
        if v.cty == ('bool',):
            return v
        if v.cty == ('label',):
            return v                      # non-NULL
        if v.cty[0] == 'i':
            return self.mbind([v], lambda a: V(f'({a[0]} != 0)', ('bool',)))
        if v.cty == ('f', 80):
            # C11 6.5.15p4 / 6.8.4.1p2: the operand is compared with 0
            return self.mbind([v], lambda a: V(f'(!(A.eq80 {a[0]} (A.i32to80 (0#32))))', ('bool',)))
        raise ExtractError(f'{self.fname}: truth value of {v.cty}')

    def tr_compare(self, e):
        op = e['opcode']
        l, r = e['inner']
        # floating comparisons: the host's quiet comparison of two long doubles
        if is_float(l) or is_float(r):
            a, b = self.tr(l), self.tr(r)
            if a.cty != ('f', 80) or b.cty != ('f', 80):
                raise ExtractError(f'floating comparison of {a.cty} with {b.cty}')
            if op == '==':
                return self.mbind([a, b], lambda x: V(f'(A.eq80 {x[0]} {x[1]})', ('bool',)))
            if op == '!=':
                return self.mbind([a, b], lambda x: V(f'(!(A.eq80 {x[0]} {x[1]}))', ('bool',)))
            fn = {'<': 'lt80', '<=': 'le80', '>': 'lt80', '>=': 'le80'}[op]
            if op in ('<', '<='):
                return self.mbind([a, b], lambda x: V(f'(A.{fn} {x[0]} {x[1]})', ('bool',)))
            return self.mbind([a, b], lambda x: V(f'(A.{fn} {x[1]} {x[0]})', ('bool',)))
        # enum comparisons (both sides converted to unsigned int by clang)
        sl = strip(l, casts=('LValueToRValue', 'NoOp', 'IntegralCast'))
        sr = strip(r, casts=('LValueToRValue', 'NoOp', 'IntegralCast'))
        tl = self.try_enum(sl)
        trr = self.try_enum(sr)
        if tl is not None or trr is not None:
            if tl is None or trr is None or tl.cty != trr.cty or op not in ('==', '!='):
                raise ExtractError('enum value in a comparison other than ==/!= with the same enum')
            return self.mbind([tl, trr], lambda a: V(f'({a[0]} {op} {a[1]})', ('bool',)))
        a, b = self.tr(l), self.tr(r)
        if a.cty[0] != 'i' or a.cty != b.cty:
            raise ExtractError(f'comparison of {a.cty} with {b.cty}')
        s = a.cty[2]
        if op in ('==', '!='):
            return self.mbind([a, b], lambda x: V(f'({x[0]} {op} {x[1]})', ('bool',)))
        fn = {'<': 'lt', '<=': 'le', '>': 'lt', '>=': 'le'}[op]
        fn = ('s' if s else 'u') + fn
        if op in ('<', '<='):
            return self.mbind([a, b], lambda x: V(f'(BitVec.{fn} {x[0]} {x[1]})', ('bool',)))
        return self.mbind([a, b], lambda x: V(f'(BitVec.{fn} {x[1]} {x[0]})', ('bool',)))

    def try_enum(self, e):
        try:
            c = cty_of(e)
        except ExtractError:
            return None
        if e['kind'] == 'DeclRefExpr' and e['referencedDecl']['kind'] == 'EnumConstantDecl':
            return self.tr(e)
        if c[0] == 'enum':
            return self.tr(e)
        return None

    def tr_condop(self, e):
        c, a, b = e['inner']
        cv = self.tr_cond(c)
        av, bv = self.tr(a), self.tr(b)
        rc = cty_of(e)
        if av.cty != rc or bv.cty != rc:
            raise ExtractError(f'?: arms of types {av.cty},{bv.cty}, result {rc}')
        if av.pure and bv.pure:
            return self.mbind([cv], lambda x: V(f'(if {x[0]} then {av.text} else {bv.text})', rc))
        return self.mbind([cv], lambda x: self.mon(f'(if {x[0]} then {self.lift(av)} else {self.lift(bv)})', rc))

    def node_arg(self, e, f):
        """apply f (text -> V) to a `Node *` argument, distributing over ?:"""
        s = strip(e)
        if s['kind'] == 'ConditionalOperator':
            c = self.tr_cond(s['inner'][0])
            a = self.node_arg(s['inner'][1], f)
            b = self.node_arg(s['inner'][2], f)
            if a.cty != b.cty:
                raise ExtractError('?: over nodes with different results')
            return self.mbind([c], lambda x: self.mon(f'(if {x[0]} then {self.lift(a)} else {self.lift(b)})', a.cty))
        x = self.tr(e)
        if x.cty != ('node',) or not x.pure:
            raise ExtractError('node argument of an unexpected shape')
        return f(x.text)

    def rec_ok(self, x):
        """recursive calls must be on children of the matched node (structural recursion)"""
        if self.node_mode == 'pattern' and x not in CHILDREN:
            raise ExtractError(f'{self.fname}: recursive call on {x}, not on a child of the node')

    def same_node(self, x):
        """is the Lean text x the node this function body is matched on (pattern mode)?"""
        return self.node_mode == 'pattern' and x == self.node_text

    def tr_call(self, e):
        name = callee(e)
        args = e['inner'][1:]
        g = self.g
        if name == 'eval' and len(args) == 1:
            g.need_eval_wrapper()
            def f(x):
                if self.same_node(x):
                    # eval(node) = eval2(node, NULL) on the matched node: inlined
                    return self.mon('(' + g.inline('eval2', self.stack, 'false') + ')', ('i', 64, True))
                self.rec_ok(x)
                return self.mon(f'(eval2 h A {x} false)', ('i', 64, True))
            return self.node_arg(args[0], f)
        if name == 'eval2' and len(args) == 2:
            lab = self.tr(args[1])
            if lab.cty != ('label',) or not lab.pure:
                raise ExtractError('eval2: label argument')
            def f(x):
                if self.same_node(x):
                    raise ExtractError(f'{self.fname}: eval2 called on the node itself')
                self.rec_ok(x)
                return self.mon(f'(eval2 h A {x} {lab.text})', ('i', 64, True))
            return self.node_arg(args[0], f)
        if name == 'eval3' and len(args) == 2:
            a, lab = self.tr(args[0]), self.tr(args[1])
            if self.fname != 'eval2' or not self.same_node(a.text) or lab.text != self.label_text:
                raise ExtractError('eval3 is only understood as eval3(node, label) inside eval2')
            return self.mon('(' + g.inline('eval3', self.stack, self.label_text) + ')', ('i', 64, True))
        if name == 'eval_double' and len(args) == 1:
            def f(x):
                if self.same_node(x):
                    return self.mon('(' + g.inline('eval_double', self.stack, self.label_text) + ')', ('f', 80))
                self.rec_ok(x)
                return self.mon(f'(evalDouble h A {x})', ('f', 80))
            return self.node_arg(args[0], f)
        if name == 'eval_double2' and len(args) == 1:
            a = self.tr(args[0])
            if self.fname != 'eval_double' or not self.same_node(a.text):
                raise ExtractError('eval_double2 is only understood as eval_double2(node) inside eval_double')
            return self.mon('(' + g.inline('eval_double2', self.stack, self.label_text) + ')', ('f', 80))
        if name == 'eval_truth' and len(args) == 1:
            return self.node_arg(args[0], lambda x: self.mon('(' + g.eval_truth_body(x) + ')', ('bool',)))
        if name == 'is_const_expr' and len(args) == 1:
            def f(x):
                self.rec_ok(x)
                return self.mon(f'(isConstExpr h A {x})', ('bool',))
            return self.node_arg(args[0], f)
        if name in ('is_integer', 'is_flonum') and len(args) == 1:
            t = self.tr(args[0])
            if t.cty != ('ty',):
                raise ExtractError(f'{name}: argument')
            ln = {'is_integer': 'isInteger', 'is_flonum': 'isFlonum'}[name]
            g.need_pred(name)
            return self.mbind([t], lambda a: V(f'({ln} {a[0]})', ('bool',)))
        raise ExtractError(f'{self.fname}: call of {name} is outside the translated subset')

    # ---------------------------------------------------------------- statements
    def is_error_tok(self, s):
        if s['kind'] == 'CallExpr' and callee(s) == 'error_tok':
            a = s['inner'][1:]
            if len(a) != 2:
                raise ExtractError('error_tok with format arguments')
            t = self.tr(a[0])
            m = strip(a[1], casts=('ArrayToPointerDecay', 'LValueToRValue', 'NoOp'))
            if t.cty != ('tok',) or m['kind'] != 'StringLiteral':
                raise ExtractError('error_tok arguments')
            return json.loads(m['value'])
        return None

    def block(self, stmts, cont, ind):
        """stmts: list of AST statements; cont: () -> text for what follows (None: control must not get here)"""
        pad = '  ' * ind
        if not stmts:
            if cont is None:
                raise ExtractError(f'{self.fname}: control can fall off the end of an arm / the function')
            return cont()
        s, rest = stmts[0], stmts[1:]
        k = s['kind']
        after = (lambda: self.block(rest, cont, ind))
        if k == 'CompoundStmt':
            return self.block(list(s.get('inner', [])) + rest, cont, ind)
        if k == 'ReturnStmt':
            if rest:
                raise ExtractError(f'{self.fname}: statements after return')
            v = self.tr_ret(s['inner'][0])
            return v
        msg = self.is_error_tok(s)
        if msg is not None:
            if rest:
                raise ExtractError(f'{self.fname}: statements after error_tok (noreturn)')
            if self.pure_fn:
                raise ExtractError('error_tok in a pure function')
            return f'.error (.diag {json.dumps(msg)})'
        if k == 'CallExpr' and callee(s) == 'add_type':
            a = self.tr(s['inner'][1])
            if a.text != self.node_text or not self.first_stmt:
                raise ExtractError('add_type is only understood as the first statement, applied to the parameter')
            self.first_stmt = False
            return '/- add_type(node): nodes of the model are typed -/ ' + after()
        self.first_stmt = False
        if k == 'DeclStmt':
            if len(s['inner']) != 1 or s['inner'][0]['kind'] != 'VarDecl' or 'inner' not in s['inner'][0]:
                raise ExtractError('declaration without initialiser / of several variables')
            d = s['inner'][0]
            c = cty_of(d)
            v = self.tr(d['inner'][0])
            if v.cty != c:
                raise ExtractError(f'initialiser of {d["name"]} has type {v.cty}, variable {c}')
            nm = 'v_' + d['name']
            k2 = 1
            while nm in self.names:           # a second declaration of the same name (another block)
                k2 += 1
                nm = f'v_{d["name"]}_{k2}'
            self.names.add(nm)
            self.locals[d['id']] = (nm, c)
            binds = list(v.binds)
            if binds and binds[-1][0] == v.text:
                binds[-1] = (nm, binds[-1][1])
                tail = ''
            else:
                tail = f'let {nm} := {v.text}\n{pad}'
            return ''.join(f'{m} >>= fun {t} =>\n{pad}' for t, m in binds) + tail + after()
        if k == 'IfStmt':
            parts = s['inner']
            c = self.tr_cond(parts[0])
            th = self.block([parts[1]], after, ind + 1)
            el = self.block([parts[2]] if len(parts) > 2 else [], after, ind + 1)
            pre = ''.join(f'{m} >>= fun {t} =>\n{pad}' for t, m in c.binds)
            return pre + f'if {c.text} then\n{pad}  {th}\n{pad}else\n{pad}  {el}'
        if k == 'SwitchStmt':
            return self.switch(s, after, ind)
        raise ExtractError(f'{self.fname}: statement kind {k} is outside the translated subset')

    def tr_ret(self, e):
        v = self.tr(e)
        want = self.ret_cty
        if v.cty != want:
            raise ExtractError(f'{self.fname}: return of {v.cty}, function returns {want}')
        return self.render(v)

    def arms(self, body):
        """group the statements of a switch body into arms: ([labels], [statements])"""
        out = []
        for s in body['inner']:
            if s['kind'] == 'CaseStmt':
                labels = []
                cur = s
                while cur['kind'] == 'CaseStmt':
                    labels.append(cur['inner'][0])
                    begin = cur['range']['begin']['offset']
                    cur = cur['inner'][-1]
                out.append({'labels': labels, 'stmts': [cur], 'begin': s['range']['begin'].get('offset')})
            elif s['kind'] == 'DefaultStmt':
                if s is not body['inner'][-1]:
                    raise ExtractError('default: label that is not the last arm')
                out.append({'labels': None, 'stmts': [s['inner'][-1]], 'begin': s['range']['begin'].get('offset')})
            else:
                if not out:
                    raise ExtractError('statement before the first case label')
                out[-1]['stmts'].append(s)
        return out

    def switch(self, s, after, ind):
        pad = '  ' * ind
        cond = s['inner'][0]
        body = s['inner'][-1]
        if body['kind'] != 'CompoundStmt':
            raise ExtractError('switch body')
        arms = self.arms(body)
        end = body['range']['end'].get('offset')
        sc = strip(cond, casts=('LValueToRValue', 'NoOp', 'IntegralCast'))
        ev = self.try_enum(sc)
        if ev is not None:
            if not ev.pure:
                raise ExtractError('switch on an effectful enum expression')
            out = f'(match {ev.text} with'
            seen = set()
            default = None
            if arms and arms[-1]['labels'] is None:
                default = arms.pop()
            for i, arm in enumerate(arms):
                saved_names = set(self.names)
                names = []
                for l in arm['labels']:
                    r = strip(l, casts=('LValueToRValue', 'NoOp', 'IntegralCast'))
                    if r['kind'] != 'DeclRefExpr' or r['referencedDecl']['kind'] != 'EnumConstantDecl':
                        raise ExtractError('case label is not an enum constant')
                    names.append(r['referencedDecl']['name'])
                for nme in names:
                    if nme in seen:
                        raise ExtractError(f'duplicate case {nme}')
                    seen.add(nme)
                nxt = arms[i + 1]['begin'] if i + 1 < len(arms) else (default['begin'] if default else end)
                pinned = [nme for nme in names if nme in PINNED and self.fname == 'eval3']
                if pinned:
                    if len(names) != 1:
                        raise ExtractError('address-constant arm shares its body')
                    if arm['begin'] is None or nxt is None:
                        raise ExtractError('address-constant arm inside a macro expansion')
                    src = re.sub(r'\s+', ' ', strip_comments(self.g.srcb[arm['begin']:nxt].decode('utf-8', 'replace'))).strip()
                    want, lean = PINNED[names[0]]
                    if src != want:
                        raise ExtractError(f'eval3 arm {names[0]} changed: {src!r}')
                    txt = lean.replace('{L}', self.label_text)
                else:
                    txt = self.block(arm['stmts'], None, ind + 2)
                pats = ' | '.join('.' + nme for nme in names)
                out += f'\n{pad}| {pats} =>\n{pad}    {txt}'
                self.names = saved_names
            if default is not None:
                out += f'\n{pad}| _ =>\n{pad}    ' + self.block(default['stmts'], None, ind + 2) + ')'
            else:
                out += f'\n{pad}| _ =>\n{pad}    ' + self.block([], after, ind + 2) + ')'
            return out
        v = self.tr(cond)
        if v.cty[0] != 'i' or not v.pure:
            raise ExtractError('switch on a non-integer / effectful expression')
        out = ''
        for arm in arms:
            conds = []
            if arm['labels'] is None:
                raise ExtractError('default: in a switch on an integer')
            for l in arm['labels']:
                r = strip(l, casts=('LValueToRValue', 'NoOp', 'IntegralCast'))
                if r['kind'] != 'IntegerLiteral':
                    raise ExtractError('case label is not an integer literal')
                conds.append(f'{v.text} == ({int(r["value"])}#{v.cty[1]})')
            txt = self.block(arm['stmts'], None, ind + 1)
            out += f'if {" || ".join(conds)} then\n{pad}  {txt}\n{pad}else '
        out += self.block([], after, ind)
        return out

    def function(self, fn, ret_cty):
        self.ret_cty = ret_cty
        self.first_stmt = True
        body = fn['inner'][-1]
        return self.block([body], None, 2)


class Gen:
    def __init__(self, repo):
        self.repo = repo
        self.src = read(repo, 'parse.c')
        self.srcb = open(os.path.join(repo, 'parse.c'), 'rb').read()      # clang offsets are byte offsets
        self.counter = 0
        self.fns = {}
        self.preds = set()
        self.eval_checked = False

    def fn(self, cfile, name):
        key = (cfile, name)
        if key not in self.fns:
            self.fns[key] = find_fn(self.repo, cfile, name)
        return self.fns[key]

    def params(self, fn):
        return [(p['name'], qual(p)) for p in fn['inner'] if p['kind'] == 'ParmVarDecl']

    def need_eval_wrapper(self):
        """`eval(node)` must be `return eval2(node, NULL);`"""
        if self.eval_checked:
            return
        fn = self.fn('parse.c', 'eval')
        if self.params(fn) != [('node', 'Node *')]:
            raise ExtractError('eval: parameters')
        t = Tr(self, 'eval', node_param='node', node_mode='opaque', node_text='node')
        t.rec_ok = lambda x: None
        txt = t.function(fn, ('i', 64, True))
        if txt != '(eval2 h A node false)':
            raise ExtractError(f'eval is not `return eval2(node, NULL);` but {txt}')
        self.eval_checked = True

    def need_pred(self, name):
        self.preds.add(name)

    INLINED = {'eval2': ([('node', 'Node *'), ('label', 'char ***')], ('i', 64, True)),
               'eval3': ([('node', 'Node *'), ('label', 'char ***')], ('i', 64, True)),
               'eval_double': ([('node', 'Node *')], ('f', 80)),
               'eval_double2': ([('node', 'Node *')], ('f', 80))}

    def inline(self, name, stack, label_text):
        """the body of `name` applied to the matched node (pattern mode), as a Lean term of type Except Fail _.
        `stack`: the functions already being inlined on this node; re-entering one of them is unbounded recursion in C."""
        if name in stack:
            chain = ' -> '.join(list(stack[stack.index(name):]) + [name])
            return f'.error (.crash "unbounded recursion on one node: {chain}")'
        fn = self.fn('parse.c', name)
        params, ret = self.INLINED[name]
        if self.params(fn) != params:
            raise ExtractError(f'{name}: parameters')
        t = Tr(self, name, node_param='node', label_text=label_text, stack=stack)
        return t.function(fn, ret)

    def eval_truth_body(self, x):
        fn = self.fn('parse.c', 'eval_truth')
        if self.params(fn) != [('node', 'Node *')]:
            raise ExtractError('eval_truth: parameters')
        t = Tr(self, 'eval_truth', node_param='node', node_mode='opaque', node_text=x)
        if x in CHILDREN:
            t.rec_ok = lambda y: None
        txt = t.function(fn, ('bool',))
        return re.sub(r'\s*\n\s*', ' ', txt)

    def pred(self, name, lean):
        fn = self.fn('type.c', name)
        if self.params(fn) != [('ty', 'Type *')]:
            raise ExtractError(f'{name}: parameters')
        t = Tr(self, name, ty_param='ty', pure_fn=True)
        return f'/-- type.c `{name}` -/\ndef {lean} (ty : CTy) : Bool :=\n    ' + t.function(fn, ('bool',)) + '\n'

    def enum(self, name):
        h = strip_comments(read(self.repo, 'chibicc.h'))
        m = must(r'typedef\s+enum\s*\{([^}]*)\}\s*' + name + r'\s*;', h, f'enum {name}')
        items = [x.strip() for x in m.group(1).split(',') if x.strip()]
        for it in items:
            if not re.fullmatch(r'[A-Z_][A-Z0-9_]*', it):
                raise ExtractError(f'enum {name}: enumerator {it!r} with an explicit value')
        return items

    # ---------------------------------------------------------------- consumers
    def consumers(self):
        """every place outside the folder where a folded constant is stored: the conversion applied to the int64"""
        sites = [('declspec', 'n'), ('array_dimensions', 'array_of(len)'), ('enum_specifier', 'val'),
                 ('array_designator', '*begin'), ('array_designator', '*end'), ('stmt', 'begin'), ('stmt', 'end'),
                 ('struct_members', 'mem->bit_width'), ('attribute_list', 'n'),
                 ('count_array_init_elements', 'i'), ('write_gvar_data', 'val'), ('write_gvar_data', 'newval')]
        # declspec: the folded _Alignas operand is validated as an int64_t, goes to the local `int align`, then the strictest
        # specifier wins (C11 6.7.5p6); attribute_list: aligned(n) likewise, 0 requests nothing
        body = re.sub(r'\s+', ' ', function_body(strip_comments(self.src), r'^static\s+Type\s*\*\s*declspec\s*\([^;{]*\)\s*\{', 'declspec'))
        chk = f'if (n < 0 || n > (1 << 28) || (n & (n - 1))) error_tok(start, "{ALIGN_MSG}");'
        if ('int align; if (is_typename(tok)) { align = typename(&tok, tok)->align; } else { Token *start = tok; '
                'int64_t n = const_expr(&tok, tok); ' + chk + ' align = n; } attr->align = MAX(attr->align, align);') not in body:
            raise ExtractError('declspec: the _Alignas arm no longer validates the int64_t and stores MAX(attr->align, (int)n)')
        body = re.sub(r'\s+', ' ', function_body(strip_comments(self.src), r'^static\s+Token\s*\*\s*attribute_list\s*\([^;{]*\)\s*\{', 'attribute_list'))
        if ('Token *start = tok; int64_t n = const_expr(&tok, tok); ' + chk + ' if (n) ty->align = n;') not in body:
            raise ExtractError('attribute_list: aligned(n) no longer validates the int64_t and stores (int)n')
        found = []
        for fname in sorted({s[0] for s in sites}):
            fn = self.fn('parse.c', fname)
            self.walk_consumers(fn['inner'][-1], [], fname, found)
        # every textual call of const_expr / eval / eval2 outside the folder itself must be one of the sites found
        txt = strip_comments(self.src)
        for fn_name, sig in (('eval', r'^static\s+int64_t\s+eval\s*\(Node'), ('eval2', r'^static\s+int64_t\s+eval2\s*\(Node'),
                             ('eval3', r'^static\s+int64_t\s+eval3\s*\(Node'), ('eval_truth', r'^static\s+bool\s+eval_truth\s*\(Node'),
                             ('eval_rval', r'^static\s+int64_t\s+eval_rval\s*\(Node'), ('is_const_expr', r'^static\s+bool\s+is_const_expr\s*\(Node'),
                             ('eval_double', r'^static\s+long\s+double\s+eval_double\s*\(Node'),
                             ('eval_double2', r'^static\s+long\s+double\s+eval_double2\s*\(Node'),
                             ('const_expr', r'^int64_t\s+const_expr\s*\(')):
            b = function_body(txt, sig + r'[^;{]*\{', fn_name)
            txt = txt.replace(b, '', 1)
        calls = [m for m in re.finditer(r'(?<![\w>.])(const_expr|eval|eval2)\s*\(', txt)
                 if not re.search(r'int64_t\s+$', txt[max(0, m.start() - 12):m.start()])]
        if len(calls) != len(found):
            raise ExtractError(f'parse.c has {len(calls)} uses of const_expr/eval/eval2 outside the folder, the consumer table explains {len(found)}')
        uniq = []
        for f in found:
            if f not in uniq:
                uniq.append(f)
        found = uniq
        got = {(f[0], f[1]) for f in found}
        for s in sites:
            if s not in got:
                raise ExtractError(f'consumer {s[0]}: `{s[1]}` no longer receives a folded constant')
        for f in found:
            if (f[0], f[1]) not in sites:
                raise ExtractError(f'new consumer of a folded constant in {f[0]}: {f[1]}')
        return found

    def align_check(self, fname):
        """the condition under which `int64_t n` (the folded alignment) is rejected in `fname`, over `v : BitVec 64`,
        translated from the typed AST: a Lean term of type Except Fail Bool"""
        fn = self.fn('parse.c', fname)
        decls, ifs = [], []

        def walk(n):
            if not isinstance(n, dict):
                return
            if n.get('kind') == 'VarDecl' and n.get('name') == 'n' and n.get('inner'):
                c = strip(n['inner'][0])
                if c['kind'] == 'CallExpr' and callee(c) == 'const_expr':
                    decls.append(n)
            if n.get('kind') == 'IfStmt' and len(n.get('inner', [])) == 2:
                c = n['inner'][1]
                if c.get('kind') == 'CallExpr' and callee(c) == 'error_tok':
                    m = strip(c['inner'][2], casts=('ArrayToPointerDecay', 'LValueToRValue', 'NoOp'))
                    if m['kind'] == 'StringLiteral' and json.loads(m['value']) == ALIGN_MSG:
                        ifs.append(n)
            for c in n.get('inner', []):
                walk(c)
        walk(fn['inner'][-1])
        if len(decls) != 1 or len(ifs) != 1 or cty_of(decls[0]) != ('i', 64, True):
            raise ExtractError(f'{fname}: expected one `int64_t n = const_expr(..)` and one alignment check')
        t = Tr(self, fname, node_mode='opaque')
        t.locals[decls[0]['id']] = ('v', ('i', 64, True))
        return re.sub(r'\s*\n\s*', ' ', t.render(t.tr_cond(ifs[0]['inner'][0])))

    def walk_consumers(self, n, parents, fname, found):
        if n.get('kind') == 'CallExpr' and callee(n) in ('const_expr', 'eval', 'eval2'):
            # climb the conversions applied to the int64_t result
            casts = []
            i = len(parents) - 1
            while i >= 0 and parents[i]['kind'] in ('ImplicitCastExpr', 'CStyleCastExpr', 'ParenExpr'):
                if parents[i]['kind'] != 'ParenExpr':
                    if parents[i].get('castKind') != 'IntegralCast':
                        raise ExtractError(f'{fname}: folded constant converted by {parents[i].get("castKind")}')
                    casts.append(cty_of(parents[i]))
                i -= 1
            p = parents[i]
            if p['kind'] == 'VarDecl':
                dest = p['name']
                dcty = cty_of(p)
            elif p['kind'] == 'BinaryOperator' and p['opcode'] == '=':
                lhs = p['inner'][0]
                dest = re.sub(r'\s+', '', self.srcb[lhs['range']['begin']['offset']:
                                                    lhs['range']['end']['offset'] + lhs['range']['end'].get('tokLen', 1)].decode('utf-8', 'replace'))
                dcty = cty_of(lhs)
            elif p['kind'] == 'CallExpr' and callee(p) == 'array_of':
                dest = 'array_of(len)'
                dcty = casts[-1] if casts else ('i', 64, True)
            elif p['kind'] == 'ReturnStmt' and fname == 'eval':
                return
            else:
                raise ExtractError(f'{fname}: folded constant used in {p["kind"]}')
            cur = ('i', 64, True)
            txt = 'v'
            for c in casts:
                if c[1] != cur[1]:
                    txt = f'({"castS" if cur[2] else "castU"} {c[1]} {txt})'
                cur = c
            if cur != dcty:
                raise ExtractError(f'{fname}: {dest} has type {dcty}, conversions end at {cur}')
            found.append((fname, dest, dcty, txt))
            return
        for c in n.get('inner', []):
            if isinstance(c, dict) and c.get('kind'):
                self.walk_consumers(c, parents + [n], fname, found)

    def store_gvar(self):
        """the scalar tail of write_gvar_data: what is stored for a floating / an integer- or pointer-typed object"""
        src = strip_comments(read(self.repo, 'parse.c'))
        m = must(r'if \(!init->expr\)\s*return cur;(.*?)char \*\*label = NULL;\s*uint64_t val = eval2\(init->expr, &label\);\s*if \(!label\) \{(.*?)\}\s*Relocation \*rel',
                 src, 'scalar tail of write_gvar_data', re.S)
        fl = re.sub(r'\s+', ' ', m.group(1)).strip()
        wantf = ' '.join(f'if (ty->kind == {k}) {{ *({t} *)(buf + offset) = eval_double(init->expr); return cur; }}'
                         for k, t in (('TY_FLOAT', 'float'), ('TY_DOUBLE', 'double'), ('TY_LDOUBLE', 'long double')))
        wantf += (' add_type(init->expr); if (is_flonum(init->expr->ty) && ty->is_unsigned && ty->size == 8) '
                  '{ write_buf(buf + offset, (uint64_t)eval_double(init->expr), 8); return cur; }')
        if fl != wantf:
            raise ExtractError(f'write_gvar_data floating stores changed: {fl}')
        body = re.sub(r'\s+', ' ', m.group(2)).strip()
        want = ('if (ty->kind == TY_BOOL) val = is_flonum(init->expr->ty) ? eval_double(init->expr) != 0 : val != 0; '
                'write_buf(buf + offset, val, ty->size); return cur;')
        if body != want:
            raise ExtractError(f'write_gvar_data scalar store changed: {body}')
        return ('/-- `write_gvar_data`, object of type float / double / long double: `*(T *)(buf + offset) = eval_double(init->expr)`,\n'
                '    the host conversion of the folded long double to the object type -/\n'
                'def storeGvarF32 (h : HostMode) (A : FpEnv) (expr : CNode) : Except Fail (BitVec 32) :=\n'
                '  (evalDouble h A expr) >>= fun d => pure (A.f80to32 d)\n'
                'def storeGvarF64 (h : HostMode) (A : FpEnv) (expr : CNode) : Except Fail (BitVec 64) :=\n'
                '  (evalDouble h A expr) >>= fun d => pure (A.f80to64 d)\n'
                'def storeGvarF80 (h : HostMode) (A : FpEnv) (expr : CNode) : Except Fail (BitVec 80) :=\n'
                '  (evalDouble h A expr)\n\n'
                '/-- `write_gvar_data`, scalar case without relocation: `val` is `eval2(init->expr, &label)`; conversion to `_Bool`\n'
                '    compares with zero, every other type keeps the low `ty->size` bytes (`write_buf`) -/\n'
                'def storeGvar (h : HostMode) (A : FpEnv) (ty : CTy) (expr : CNode) (val : BitVec 64) : Except Fail (BitVec 64) :=\n'
                '  (if ty.kind == TypeKind.TY_BOOL then\n'
                '     (CNode.tyOf expr) >>= fun t => if isFlonum t then ((evalDouble h A expr) >>= fun d => pure (boolTo 64 (!(A.eq80 d (A.i32to80 (0#32))))))\n'
                '                                     else pure (boolTo 64 (val != (0#64)))\n'
                '   else pure val) >>= fun v => writeBuf v ty.size\n\n'
                '/-- `write_gvar_data`, object of integer type, the whole scalar path without relocation: a floating initializer of an\n'
                '    unsigned 8-byte object is converted with `(uint64_t)eval_double(init->expr)`; otherwise `eval2(init->expr, &label)`\n'
                '    followed by `storeGvar` -/\n'
                'def storeGvarScalar (h : HostMode) (A : FpEnv) (ty : CTy) (expr : CNode) : Except Fail (BitVec 64) :=\n'
                '  (CNode.tyOf expr) >>= fun t =>\n'
                '    if (isFlonum t && ty.isUnsigned) && (ty.size == (8#32)) then\n'
                '      ((evalDouble h A expr) >>= fun d => (cvtU64 h A d) >>= fun v => writeBuf v (8#32))\n'
                '    else ((eval2 h A expr true) >>= fun val => storeGvar h A ty expr val)\n')

    def write_buf(self):
        src = strip_comments(read(self.repo, 'parse.c'))
        body = re.sub(r'\s+', ' ', function_body(src, r'static\s+void\s+write_buf\s*\(\s*char\s*\*\s*buf\s*,\s*uint64_t\s+val\s*,\s*int\s+sz\s*\)\s*\{', 'write_buf')).strip()
        want = ('if (sz == 1) *buf = val; else if (sz == 2) *(uint16_t *)buf = val; else if (sz == 4) *(uint32_t *)buf = val; '
                'else if (sz == 8) *(uint64_t *)buf = val; else unreachable();')
        if body != want:
            raise ExtractError(f'write_buf changed: {body}')
        return ('/-- `write_buf(buf, val, sz)`: the object representation stored (zero-extended to 64 bits for display);\n'
                '    any other size reaches `unreachable()` -/\n'
                'def writeBuf (val : BitVec 64) (sz : BitVec 32) : Except Fail (BitVec 64) :=\n'
                '  if sz == 1#32 then .ok (castU 64 (castU 8 val))\n'
                '  else if sz == 2#32 then .ok (castU 64 (castU 16 val))\n'
                '  else if sz == 4#32 then .ok (castU 64 (castU 32 val))\n'
                '  else if sz == 8#32 then .ok val\n'
                '  else .error (.crash "unreachable() in write_buf")\n')


def lean_name(fname, dest):
    d = re.sub(r'[^A-Za-z0-9]+', '_', dest).strip('_')
    return 'store_' + fname + '_' + d


def generate(repo):
    g = Gen(repo)
    node_kinds = g.enum('NodeKind')
    type_kinds = g.enum('TypeKind')
    # ---- eval2 / evalDouble: the four C functions inlined into two mutually recursive definitions
    eval2_body = g.inline('eval2', (), 'label')
    evald_body = g.inline('eval_double', (), 'false')
    # ---- is_const_expr
    fnc = g.fn('parse.c', 'is_const_expr')
    if g.params(fnc) != [('node', 'Node *')]:
        raise ExtractError('is_const_expr: parameters')
    tc = Tr(g, 'is_const_expr', node_param='node')
    const_body = tc.function(fnc, ('bool',))
    truth_standalone = g.eval_truth_body('node')
    # const_expr = eval(conditional(...))
    body = re.sub(r'\s+', ' ', function_body(strip_comments(g.src), r'^int64_t\s+const_expr\s*\(', 'const_expr')).strip()
    if body != 'Node *node = conditional(rest, tok); return eval(node);':
        raise ExtractError(f'const_expr changed: {body}')
    cons = g.consumers()

    out = HEADER.format(tool='consteval.py', src='parse.c (eval, eval2, eval3, eval_truth, eval_double, eval_double2, is_const_expr, const_expr, write_buf, consumers), type.c (is_integer, is_flonum), chibicc.h (NodeKind, TypeKind)')
    out += 'import ChibiVerif.Model.HostFp\n'
    out += 'set_option maxRecDepth 4096\nset_option linter.unusedVariables false\n'
    out += 'namespace ChibiVerif.Gen.ConstEval\nopen ChibiVerif.Host\n\n'
    out += '/-- `NodeKind` of chibicc.h -/\ninductive NodeKind where\n' + ''.join(f'  | {k}\n' for k in node_kinds) + '  deriving DecidableEq, Repr\n\n'
    out += '/-- `TypeKind` of chibicc.h -/\ninductive TypeKind where\n' + ''.join(f'  | {k}\n' for k in type_kinds) + '  deriving DecidableEq, Repr\n\n'
    out += ('/-- what the folder reads of a `Type`: kind, size (C `int`), is_unsigned -/\n'
            'structure CTy where\n  kind : TypeKind\n  size : BitVec 32\n  isUnsigned : Bool\n  deriving DecidableEq, Repr\n\n'
            '/-- what the folder reads of a `Node`: kind, ty, val (`int64_t`), fval (`long double`, as its 80-bit datum), the five\n'
            '    children (NULL is a constructor: dereferencing it is an explicit crash) -/\n'
            'inductive CNode where\n  | null\n  | mk (kind : NodeKind) (ty : CTy) (val : BitVec 64) (fval : BitVec 80) (lhs rhs cond thn els : CNode)\n  deriving Repr\n\n'
            '/-- `node->ty` -/\n'
            'def CNode.tyOf : CNode → Except Fail CTy\n  | .null => .error (.crash "NULL node dereferenced")\n  | .mk _ ty _ _ _ _ _ _ _ => .ok ty\n\n'
            '/-- C truth value of `bool` converted to an integer type -/\n'
            'def boolTo (n : Nat) (b : Bool) : BitVec n := if b then 1#n else 0#n\n\n'
            '/-- the floating arithmetic of the host that runs the folder (Model/HostFp.lean): every floating operation of\n'
            '    `eval_double` / `eval_double2` / `eval3` is one application of a field -/\n'
            'abbrev FpEnv := ChibiVerif.Host.HostFp\n\n')
    for name, lean in (('is_integer', 'isInteger'), ('is_flonum', 'isFlonum')):
        if name not in g.preds:
            raise ExtractError(f'{name} is no longer used by the folder')
        out += g.pred(name, lean) + '\n'
    out += ('mutual\n'
            '/-- parse.c `eval2(node, label)`; `label` is `label != NULL`.  `eval3`, `eval_truth` and (for a node of floating type)\n'
            '    `eval_double` / `eval_double2` are inlined so that the recursion is structural; `eval(n)` is `eval2 n false`.\n'
            '    `h` selects the host integer arithmetic (Model/HostInt.lean), `A` is the host floating arithmetic. -/\n'
            'def eval2 (h : HostMode) (A : FpEnv) : CNode → Bool → Except Fail (BitVec 64)\n'
            '  | .null, _ => .error (.crash "NULL node dereferenced")\n'
            '  | .mk kind ty nval nfval lhs rhs cond thn els, label =>\n    ' + eval2_body + '\n\n')
    out += ('/-- parse.c `eval_double(node)` with `eval_double2` (and, for a node of integer type, `eval` = `eval2`/`eval3`) inlined;\n'
            '    the result is the `long double` as its 80-bit datum -/\n'
            'def evalDouble (h : HostMode) (A : FpEnv) : CNode → Except Fail (BitVec 80)\n'
            '  | .null => .error (.crash "NULL node dereferenced")\n'
            '  | .mk kind ty nval nfval lhs rhs cond thn els =>\n    ' + evald_body + '\nend\n\n')
    out += '/-- parse.c `eval(node)` -/\ndef eval (h : HostMode) (A : FpEnv) (node : CNode) : Except Fail (BitVec 64) := eval2 h A node false\n\n'
    out += ('/-- parse.c `eval_truth(node)` (this text is what is inlined at its call sites) -/\n'
            'def evalTruth (h : HostMode) (A : FpEnv) (node : CNode) : Except Fail Bool :=\n    ' + truth_standalone + '\n\n')
    out += ('/-- parse.c `is_const_expr(node)` -/\n'
            'def isConstExpr (h : HostMode) (A : FpEnv) : CNode → Except Fail Bool\n'
            '  | .null => .error (.crash "NULL node dereferenced")\n'
            '  | .mk kind ty nval nfval lhs rhs cond thn els =>\n    ' + const_body + '\n\n')
    out += g.write_buf() + '\n'
    out += g.store_gvar() + '\n'
    out += '/-- the places where a folded constant is stored, with the conversion applied to the `int64_t` (function, destination, bits, signed) -/\n'
    out += 'def consumers : List (String × String × Nat × Bool) := [\n'
    ALIGN = {('declspec', 'n'): 'align', ('attribute_list', 'n'): 'ty->align'}
    rows = []
    for f, d, c, _ in cons:
        if (f, d) in ALIGN:
            rows.append((f, ALIGN[(f, d)], 32, True))
        else:
            rows.append((f, d, c[1], c[2]))
    out += ',\n'.join(f'  ({json.dumps(f)}, {json.dumps(d)}, {b}, {"true" if sg else "false"})' for f, d, b, sg in rows) + ']\n\n'
    for f, d, c, txt in cons:
        if (f, d) in ALIGN:
            if c != ('i', 64, True) or txt != 'v':
                raise ExtractError(f'{f}: the folded alignment is no longer kept as an int64_t before the check')
            nm = lean_name(f, ALIGN[(f, d)])
            out += (f'/-- `{d}` in `{f}`: the condition under which the folded alignment is rejected -/\n'
                    f'def reject_{nm[6:]} (h : HostMode) (v : BitVec 64) : Except Fail Bool :=\n  {g.align_check(f)}\n'
                    f'/-- `{ALIGN[(f, d)]}` in `{f}`: the validated `int64_t` converted to `int` (0 requests nothing) -/\n'
                    f'def {nm} (h : HostMode) (v : BitVec 64) : Except Fail (BitVec 32) :=\n'
                    f'  (reject_{nm[6:]} h v) >>= fun bad => if bad then .error (.diag {json.dumps(ALIGN_MSG)}) else pure (castS 32 v)\n')
        else:
            out += f'/-- `{d}` in `{f}` -/\ndef {lean_name(f, d)} (v : BitVec 64) : BitVec {c[1]} := {txt}\n'
    out += '\nend ChibiVerif.Gen.ConstEval\n'
    return {'ConstEvalGen.lean': out}
