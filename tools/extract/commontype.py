"""type.c -> Gen/CommonTypeGen.lean

* the primitive `Type` literals (ty_int ...), `pointer_to`, `enum_type` as (kind,size,unsigned,hasBase) descriptors,
* `get_common_type` as a Lean decision function on such descriptors, statement by statement as written
  (pointer / function / floating arms included),
* the typing rule of every arm of `add_type`'s `switch (node->kind)` as a table NK -> Rule.

Every statement must have one of the shapes below; anything else raises ExtractError."""
import re
from common import *

# ---------------------------------------------------------------- small expression translators

def tr_cond(c):
    """C condition over ty1/ty2 -> Lean Bool expression"""
    c = c.strip()
    # strip one pair of enclosing parentheses
    while c.startswith('(') and matching(c, 0) == len(c) - 1:
        c = c[1:-1].strip()
    parts = split_top(c, '||')
    if len(parts) > 1:
        return '(' + ' || '.join(tr_cond(p) for p in parts) + ')'
    parts = split_top(c, '&&')
    if len(parts) > 1:
        return '(' + ' && '.join(tr_cond(p) for p in parts) + ')'
    m = re.fullmatch(r'(ty[12])->base', c)
    if m:
        return f'{m.group(1)}.hasBase'
    m = re.fullmatch(r'(ty[12])->is_unsigned', c)
    if m:
        return f'{m.group(1)}.isUnsigned'
    m = re.fullmatch(r'(ty[12])->kind\s*(==|!=)\s*(TY_\w+)', c)
    if m:
        op = '==' if m.group(2) == '==' else '!='
        return f'({m.group(1)}.kind {op} Kind.{m.group(3)})'
    m = re.fullmatch(r'(ty[12])->size\s*(<|<=|>|>=|==|!=)\s*(\d+)', c)
    if m:
        return f'(decide ({m.group(1)}.size {lean_rel(m.group(2))} {m.group(3)}))'
    m = re.fullmatch(r'(ty[12])->size\s*(<|<=|>|>=|==|!=)\s*(ty[12])->size', c)
    if m:
        return f'(decide ({m.group(1)}.size {lean_rel(m.group(2))} {m.group(3)}.size))'
    raise ExtractError(f'get_common_type: condition of unknown shape: {c!r}')

def lean_rel(op):
    return {'<': '<', '<=': '≤', '>': '>', '>=': '≥', '==': '=', '!=': '≠'}[op]

def matching(s, i):
    depth = 0
    for j in range(i, len(s)):
        if s[j] == '(':
            depth += 1
        elif s[j] == ')':
            depth -= 1
            if depth == 0:
                return j
    return -1

def split_top(s, sep):
    out, depth, cur, i = [], 0, '', 0
    while i < len(s):
        if s[i] == '(':
            depth += 1
        elif s[i] == ')':
            depth -= 1
        if depth == 0 and s.startswith(sep, i):
            out.append(cur)
            cur = ''
            i += len(sep)
            continue
        cur += s[i]
        i += 1
    out.append(cur)
    return [x.strip() for x in out]

def tr_ret(e, prims):
    e = e.strip()
    m = re.fullmatch(r'pointer_to\((ty[12])->base\)', e)
    if m:
        return f'.ptrToBaseOf {m.group(1)}'
    m = re.fullmatch(r'pointer_to\((ty[12])\)', e)
    if m:
        return f'.ptrTo {m.group(1)}'
    m = re.fullmatch(r'(ty[12])', e)
    if m:
        return f'.ty {m.group(1)}'
    m = re.fullmatch(r'(ty_\w+)', e)
    if m:
        if m.group(1) not in prims:
            raise ExtractError(f'get_common_type returns unknown primitive {e}')
        return f'.ty {m.group(1)}'
    m = re.fullmatch(r'\((.*)\)\s*\?\s*(\S+)\s*:\s*(\S+)', e)
    if m:
        return f'if {tr_cond(m.group(1))} then {tr_ret(m.group(2), prims)} else {tr_ret(m.group(3), prims)}'
    raise ExtractError(f'get_common_type: return expression of unknown shape: {e!r}')

# ---------------------------------------------------------------- statements

def statements(body):
    """split a brace-free body into `if (c) stmt;` / `stmt;` items -> list of (cond or None, stmt)"""
    s = re.sub(r'\s+', ' ', body).strip()
    out = []
    i = 0
    while i < len(s):
        if s[i] == ' ':
            i += 1
            continue
        cond = None
        if s.startswith('if (', i) or s.startswith('if(', i):
            j = s.index('(', i)
            k = matching(s, j)
            if k < 0:
                raise ExtractError('unbalanced parenthesis in get_common_type')
            cond = s[j + 1:k]
            i = k + 1
        j = s.find(';', i)
        if j < 0:
            raise ExtractError('statement without ; in get_common_type: ' + s[i:i + 60])
        st = s[i:j].strip()
        if st.startswith('if') or st.startswith('else') or '{' in st:
            raise ExtractError('nested control flow in get_common_type: ' + st)
        out.append((cond, st))
        i = j + 1
    return out

def gen_common_type(src, prims):
    body = function_body(src, r'static\s+Type\s*\*\s*get_common_type\s*\(\s*Type\s*\*\s*ty1\s*,\s*Type\s*\*\s*ty2\s*\)\s*\{',
                         'get_common_type')
    if '{' in body or 'else' in body or 'while' in body or 'for' in body.replace('format', ''):
        raise ExtractError('get_common_type contains blocks/loops/else: shape not understood')
    sts = statements(body)
    lines = []
    closed = False
    for cond, st in sts:
        if closed:
            raise ExtractError('statement after the final return of get_common_type: ' + st)
        m = re.fullmatch(r'return (.*)', st)
        if m:
            r = tr_ret(m.group(1), prims)
            if cond is None:
                lines.append(f'  {r}')
                closed = True
            else:
                lines.append(f'  if {tr_cond(cond)} then {r} else')
            continue
        m = re.fullmatch(r'(ty[12]) = (ty_\w+)', st)
        if m and cond is not None:
            if m.group(2) not in prims:
                raise ExtractError('assignment of unknown primitive in get_common_type: ' + st)
            lines.append(f'  let {m.group(1)} := if {tr_cond(cond)} then {m.group(2)} else {m.group(1)}')
            continue
        raise ExtractError(f'get_common_type: statement of unknown shape: if ({cond}) {st}')
    if not closed:
        raise ExtractError('get_common_type does not end in an unconditional return')
    return 'def getCommonType (ty1 ty2 : TyD) : Res :=\n' + '\n'.join(lines) + '\n'

# ---------------------------------------------------------------- add_type rules

N = lambda s: re.sub(r'\s+', ' ', s).strip()

RULES = [
    ('int', r'node->ty = ty_int; return;'),
    ('usualArith', r'usual_arith_conv\(&node->lhs, &node->rhs\); node->ty = node->lhs->ty; return;'),
    ('usualArithInt', r'usual_arith_conv\(&node->lhs, &node->rhs\); node->ty = ty_int; return;'),
    ('promoteLhs', r'\{ Type \*ty = get_common_type\(ty_int, node->lhs->ty\); node->lhs = new_cast\(node->lhs, ty\); '
                   r'node->ty = ty; return; \}'),
    ('assign', r'if \(node->lhs->ty->kind == TY_ARRAY\) error_tok\(node->lhs->tok, "not an lvalue"\); '
               r'if \(node->lhs->ty->kind != TY_STRUCT\) node->rhs = new_cast\(node->rhs, node->lhs->ty\); '
               r'node->ty = node->lhs->ty; return;'),
    ('cond', r'if \(node->then->ty->kind == TY_VOID \|\| node->els->ty->kind == TY_VOID\) \{ node->ty = ty_void; \} '
             r'else \{ usual_arith_conv\(&node->then, &node->els\); node->ty = node->then->ty; \} return;'),
    ('comma', r'node->ty = node->rhs->ty; return;'),
    ('funcall', r'node->ty = node->func_ty->return_ty; return;'),
    ('var', r'node->ty = node->var->ty; return;'),
    ('member', r'node->ty = node->member->ty; return;'),
]
# arms whose exact shape C01 depends on: they must match one of RULES
STRICT = ['ND_NUM', 'ND_ADD', 'ND_SUB', 'ND_MUL', 'ND_DIV', 'ND_MOD', 'ND_BITAND', 'ND_BITOR', 'ND_BITXOR', 'ND_NEG',
          'ND_ASSIGN', 'ND_EQ', 'ND_NE', 'ND_LT', 'ND_LE', 'ND_NOT', 'ND_LOGOR', 'ND_LOGAND', 'ND_BITNOT', 'ND_SHL',
          'ND_SHR', 'ND_COND', 'ND_COMMA', 'ND_VAR', 'ND_FUNCALL']

def gen_add_type(src):
    body = function_body(src, r'^void\s+add_type\s*\(\s*Node\s*\*\s*node\s*\)\s*\{', 'add_type')
    # the recursive descent into the children must precede the switch (types are assigned bottom-up)
    pre, sw = body.split('switch (node->kind)', 1) if 'switch (node->kind)' in body else (None, None)
    if pre is None:
        raise ExtractError('add_type: no switch (node->kind)')
    pren = N(pre)
    for child in ('lhs', 'rhs', 'cond', 'then', 'els'):
        if f'add_type(node->{child});' not in pren:
            raise ExtractError(f'add_type does not type node->{child} before the switch')
    if 'if (!node || node->ty) return;' not in pren:
        raise ExtractError('add_type: guard `if (!node || node->ty) return;` not found')
    sw = sw[sw.index('{') + 1:]
    # cut at the closing brace of the switch
    depth, end = 1, None
    for i, ch in enumerate(sw):
        if ch == '{':
            depth += 1
        elif ch == '}':
            depth -= 1
            if depth == 0:
                end = i
                break
    sw = sw[:end]
    # split into arms at top-level `case X:` labels
    toks = re.split(r'(\bcase\s+ND_\w+\s*:)', sw)
    if N(toks[0]):
        raise ExtractError('add_type: text before first case label: ' + N(toks[0])[:80])
    arms = []   # (labels, bodytext)
    labels = []
    for i in range(1, len(toks), 2):
        lab = re.search(r'ND_\w+', toks[i]).group(0)
        labels.append(lab)
        b = N(toks[i + 1])
        if b:
            arms.append((labels, b))
            labels = []
    if labels:
        raise ExtractError('add_type: trailing case labels without body')
    table = {}
    for labs, b in arms:
        rule = None
        for name, pat in RULES:
            if re.fullmatch(pat, b):
                rule = name
                break
        if not b.endswith('return;') and not b.endswith('return; }'):
            raise ExtractError(f'add_type: arm {labs} may fall through: {b[-60:]}')
        for lab in labs:
            if lab in table:
                raise ExtractError(f'add_type: duplicate case {lab}')
            if rule is None and lab in STRICT:
                raise ExtractError(f'add_type: arm of {lab} has a shape the translator does not understand: {b[:200]}')
            table[lab] = rule or 'other'
    for lab in STRICT:
        if lab not in table:
            raise ExtractError(f'add_type: no case for {lab}')
    # usual_arith_conv itself
    uac = N(function_body(src, r'static\s+void\s+usual_arith_conv\s*\(\s*Node\s*\*\*\s*lhs\s*,\s*Node\s*\*\*\s*rhs\s*\)\s*\{',
                          'usual_arith_conv'))
    if uac != ('Type *ty = get_common_type((*lhs)->ty, (*rhs)->ty); *lhs = new_cast(*lhs, ty); *rhs = new_cast(*rhs, ty);'):
        raise ExtractError('usual_arith_conv has a shape the translator does not understand: ' + uac)
    return table

# ---------------------------------------------------------------- primitives

def gen_prims(src, hdr):
    kinds = must(r'typedef\s+enum\s*\{([^}]*)\}\s*TypeKind\s*;', hdr, 'enum TypeKind', re.S).group(1)
    kinds = [k.strip() for k in strip_comments(kinds).split(',') if k.strip()]
    for k in kinds:
        if not re.fullmatch(r'TY_\w+', k):
            raise ExtractError(f'TypeKind enumerator of unknown shape: {k}')
    prims = {}
    for m in re.finditer(r'^Type\s*\*\s*(ty_\w+)\s*=\s*&\(Type\)\s*\{([^}]*)\}\s*;', src, re.M):
        f = [x.strip() for x in m.group(2).split(',')]
        if len(f) not in (3, 4) or f[0] not in kinds or (len(f) == 4 and f[3] != 'true'):
            raise ExtractError(f'primitive type literal of unknown shape: {m.group(0)}')
        prims[m.group(1)] = (f[0], c_int(f[1]), c_int(f[2]), len(f) == 4)
    for need in ('ty_bool', 'ty_char', 'ty_short', 'ty_int', 'ty_long', 'ty_uchar', 'ty_ushort', 'ty_uint', 'ty_ulong',
                 'ty_float', 'ty_double', 'ty_ldouble', 'ty_void'):
        if need not in prims:
            raise ExtractError(f'primitive {need} not found in type.c')
    pt = N(function_body(src, r'^Type\s*\*\s*pointer_to\s*\(\s*Type\s*\*\s*base\s*\)\s*\{', 'pointer_to'))
    m = re.fullmatch(r'Type \*ty = new_type\(TY_PTR, (\d+), (\d+)\); ty->base = base; ty->is_unsigned = true; return ty;', pt)
    if not m:
        raise ExtractError('pointer_to has a shape the translator does not understand: ' + pt)
    ptr = ('TY_PTR', int(m.group(1)), int(m.group(2)), True)
    et = N(function_body(src, r'^Type\s*\*\s*enum_type\s*\(\s*void\s*\)\s*\{', 'enum_type'))
    m = re.fullmatch(r'return new_type\(TY_ENUM, (\d+), (\d+)\);', et)
    if not m:
        raise ExtractError('enum_type has a shape the translator does not understand: ' + et)
    enum = ('TY_ENUM', int(m.group(1)), int(m.group(2)), False)
    nt = N(function_body(src, r'static\s+Type\s*\*\s*new_type\s*\(\s*TypeKind\s+kind\s*,\s*int\s+size\s*,\s*int\s+align\s*\)\s*\{', 'new_type'))
    if nt != 'Type *ty = calloc(1, sizeof(Type)); ty->kind = kind; ty->size = size; ty->align = align; return ty;':
        raise ExtractError('new_type has a shape the translator does not understand: ' + nt)
    return kinds, prims, ptr, enum

def generate(repo):
    src = strip_comments(read(repo, 'type.c'))
    hdr = read(repo, 'chibicc.h')
    kinds, prims, ptr, enum = gen_prims(src, hdr)
    table = gen_add_type(src)
    out = HEADER.format(tool='commontype.py', src='type.c, chibicc.h')
    out += 'namespace ChibiVerif.Gen.CommonType\n\n'
    out += '/-- `TypeKind` of chibicc.h -/\ninductive Kind where\n'
    out += ''.join(f'  | {k}\n' for k in kinds) + '  deriving DecidableEq, Repr\n\n'
    out += ('/-- what `get_common_type` looks at in a `Type`: kind, size, is_unsigned, and whether `base` is non-NULL -/\n'
            'structure TyD where\n  kind : Kind\n  size : Nat\n  isUnsigned : Bool\n  hasBase : Bool\n  deriving DecidableEq, Repr\n\n')
    b = lambda x: 'true' if x else 'false'
    for name, (k, size, align, uns) in prims.items():
        out += f'def {name} : TyD := ⟨.{k}, {size}, {b(uns)}, false⟩\n'
    out += f'/-- `pointer_to(base)` -/\ndef ty_ptr : TyD := ⟨.{ptr[0]}, {ptr[1]}, {b(ptr[3])}, true⟩\n'
    out += f'/-- `enum_type()` -/\ndef ty_enum : TyD := ⟨.{enum[0]}, {enum[1]}, {b(enum[3])}, false⟩\n\n'
    out += ('/-- result of `get_common_type`: an existing type object, or a freshly built pointer type -/\n'
            'inductive Res where\n  | ty (t : TyD)\n  | ptrToBaseOf (t : TyD)\n  | ptrTo (t : TyD)\n  deriving DecidableEq, Repr\n\n')
    out += '/-- `get_common_type`, statement by statement -/\n' + gen_common_type(src, prims) + '\n'
    rules = [r for r, _ in RULES] + ['other']
    out += '/-- typing rules of the arms of `add_type` -/\ninductive Rule where\n'
    docs = {'int': 'node->ty = ty_int', 'usualArith': 'usual_arith_conv(lhs, rhs); ty = lhs->ty',
            'usualArithInt': 'usual_arith_conv(lhs, rhs); ty = ty_int',
            'promoteLhs': 'ty = get_common_type(ty_int, lhs->ty); lhs = cast(lhs, ty)  (rhs untouched)',
            'assign': 'rhs = cast(rhs, lhs->ty); ty = lhs->ty', 'cond': 'usual_arith_conv(then, els); ty = then->ty (void if either is void)',
            'comma': 'ty = rhs->ty', 'funcall': 'ty = return type', 'var': 'ty = declared type', 'member': 'ty = member type',
            'other': 'an arm C01 does not depend on'}
    for r in rules:
        out += f'  | {r}    -- {docs[r]}\n'
    out += '  deriving DecidableEq, Repr\n\n'
    out += '/-- the case labels of `switch (node->kind)` in `add_type` -/\ninductive NK where\n'
    out += ''.join(f'  | {k}\n' for k in table) + '  deriving DecidableEq, Repr\n\n'
    out += 'def opRule : NK → Rule\n' + ''.join(f'  | .{k} => .{v}\n' for k, v in table.items())
    out += '\nend ChibiVerif.Gen.CommonType\n'
    return {'CommonTypeGen.lean': out}
