"""Translator for "cursor functions" of tokenize.c: small functions that walk a `char *p` over a NUL-terminated text
(`*p`, `p[k]`, `*p++`, `p++`, `p += k`), keep a few integer locals, and leave through `return`, `error_at(...)` or the end.
Used by literals.py for from_hex, read_escaped_char, read_universal_char, string_literal_end (property C11).

The statement trees come from cmini.parse_body, every expression is emitted by cmini.Emitter (so the C typing —
promotion of `char`, `unsigned` casts, width of shifts — is the translator's, not a hand model's).  Control flow is
translated by symbolic execution with continuation duplication (an `if` without `else` is followed, in both branches, by
the rest of the function), which is exact for the loop-free parts; loops become structurally recursive Lean functions:

  * cursor loop    `for (; COND; p++) BODY` / `while (COND) BODY`   -> `f_loopK p … : fuel → i → locals → R`; one unit of
                   fuel per iteration; the caller passes `p.length + 1` (every iteration consumes at least one byte and no
                   loop of the subset continues at the terminator; the Lean side proves the fuel sufficient where it matters);
                   when the fuel is exhausted the loop behaves as if its condition were false
  * counted loop   `for (int v = 0; v < N; v++) BODY` with `N` a parameter -> recursion on the remaining count (exact)

Anything else raises ExtractError.
"""
import re
from common import ExtractError
import cmini
from cmini import Emitter, unblock

LOCAL_TYPES = {'int': 'i32', 'unsigned': 'u32', 'unsigned int': 'u32', 'uint32_t': 'u32', 'int32_t': 'i32'}
LEAN_TY = {'i32': 'BitVec 32', 'u32': 'BitVec 32', 'i64': 'BitVec 64', 'u64': 'BitVec 64', 'idx': 'Nat', 'nat': 'Nat'}


def err_ctor(msg):
    return re.sub(r'\W+', '_', msg).strip('_')


class State:
    def __init__(self, base, k, env, newpos=None):
        self.base, self.k, self.env, self.newpos = base, k, dict(env), newpos

    def copy(self):
        return State(self.base, self.k, self.env, self.newpos)


def idx_text(base, k):
    if not base:
        return str(k)
    return base if k == 0 else f'{base} + {k}'


class CursorFn:
    """One C function.  `params`: list of (c_name, kind) after the cursor `p`, kind in {'nat', 'i32', 'u32', 'byte'};
    `ret`: 'value:<ty>' (plain value), 'pos' (returns a position of the text), 'value+newpos' (returns an int and sets *new_pos);
    `base`: '' if the list starts at `p`, else the name of the Lean parameter holding the start index;
    `can_fail`: the result is `Except ReadErr …`."""

    def __init__(self, name, lean_name, params, ret, base, can_fail, calls, final=None):
        self.name, self.lean_name, self.params, self.ret, self.base = name, lean_name, params, ret, base
        self.can_fail, self.calls, self.final = can_fail, calls, final
        self.loops = []          # emitted auxiliary definitions
        self.errors = []         # constructor names used
        self.nloop = 0

    # ------------------------------------------------------------ types
    def result_type(self):
        if self.ret == 'pos':
            t = 'Nat'
        elif self.ret == 'value+newpos':
            t = 'BitVec 32 × Nat'
        else:
            t = LEAN_TY[self.ret.split(':')[1]]
        return f'Except ReadErr ({t})' if self.can_fail else t

    def ok(self, txt):
        return f'.ok ({txt})' if self.can_fail else txt

    # ------------------------------------------------------------ expressions
    def emitter(self, st, effects):
        fn = self

        def index(e):
            # *p | p[k] | p[v] (v an index variable) | *p++
            if e == ('un', '*', ('id', 'p')):
                return f'byteAt p ({idx_text(st.base, st.k)})', 'char'
            if e == ('un', '*', ('postinc', ('id', 'p'))):
                if effects is None:
                    raise ExtractError(f'{fn.name}: `*p++` inside a condition')
                txt = f'byteAt p ({idx_text(st.base, st.k)})'
                effects.append(1)
                st.k += 1
                return txt, 'char'
            if e[0] == 'idx' and e[1] == ('id', 'p'):
                if e[2][0] == 'num':
                    return f'byteAt p ({idx_text(st.base, st.k + e[2][1])})', 'char'
                if e[2][0] == 'id' and st.env.get(e[2][1], (None, None))[1] == 'idx':
                    v = st.env[e[2][1]][0]
                    b = idx_text(st.base, st.k)
                    return (f'byteAt p ({v})' if b == '0' else f'byteAt p ({b} + {v})'), 'char'
            raise ExtractError(f'{fn.name}: memory access {e} not understood')
        env = {k: v for k, v in st.env.items() if v[1] in cmini.WIDTH or v[1] in ('char', 'uchar', 'bool')}
        return Emitter(env, index, calls=self.calls)

    def value(self, st, e, effects):
        return self.emitter(st, effects).value(e)

    def cond(self, st, e):
        return self.emitter(st, None).cond(e)

    # ------------------------------------------------------------ statements
    def assigned(self, stmts):
        out = set()

        def walk_e(e):
            if not isinstance(e, tuple):
                return
            if e[0] == 'assign' and e[2][0] == 'id':
                out.add(e[2][1])
            if e[0] in ('postinc', 'postdec', 'preinc', 'predec') and e[1][0] == 'id':
                out.add(e[1][1])
            for x in e[1:]:
                if isinstance(x, tuple):
                    walk_e(x)
                elif isinstance(x, list):
                    for y in x:
                        walk_e(y)

        def walk(s):
            if s is None:
                return
            for x in s[1:]:
                if isinstance(x, tuple):
                    walk(x) if x and x[0] in ('block', 'if', 'for', 'while', 'expr', 'decl', 'ret') else walk_e(x)
                elif isinstance(x, list):
                    for y in x:
                        walk(y)
        for s in stmts:
            walk(s)
        return out

    def run(self, stmts, st, loop=None):
        """lean text for `stmts` executed from state `st`; `loop` = (name, params_text, carried) when inside a loop body"""
        if not stmts:
            if loop is not None:
                raise ExtractError(f'{self.name}: loop body falls off without the step')
            if self.final is None:
                raise ExtractError(f'{self.name}: control reaches the end of the translated part')
            return self.final(self, st)
        s, rest = stmts[0], stmts[1:]
        k = s[0]
        if k == 'block':
            return self.run(list(s[1]) + rest, st, loop)
        if k == '__continue__':
            name, fixed, carried = loop
            args = ' '.join(f'({st.env[v][0]})' for v in carried)
            return f'{name} p{fixed} fuel ({idx_text(st.base, st.k)}) {args}'.rstrip()
        if k == '__count_continue__':
            name, fixed, carried, var = loop
            args = ' '.join(f'({st.env[v][0]})' for v in carried)
            return f'{name} p{fixed} rem ({st.env[var][0]} + 1) {args}'.rstrip()
        if k == 'decl':
            ty, name, init = s[1], s[2], s[3]
            if ty == 'char*':
                if init != ('id', 'p'):
                    raise ExtractError(f'{self.name}: pointer declaration {name} not understood')
                st.env[name] = (None, 'ptr')                      # only allowed as an argument of error_at
                return self.run(rest, st, loop)
            if ty not in LOCAL_TYPES:
                raise ExtractError(f'{self.name}: local of type {ty} not supported')
            if init is None:
                st.env[name] = (None, LOCAL_TYPES[ty])
            else:
                eff = []
                txt, t = self.value(st, init, eff)
                st.env[name] = (self.emitter(st, None).convert(txt, t, LOCAL_TYPES[ty]), LOCAL_TYPES[ty])
            return self.run(rest, st, loop)
        if k == 'expr':
            e = s[1]
            if e == ('postinc', ('id', 'p')) or e == ('preinc', ('id', 'p')):
                st.k += 1
                return self.run(rest, st, loop)
            if e[0] == 'assign' and e[2] == ('id', 'p') and e[1] == '+=' and e[3][0] == 'num':
                st.k += e[3][1]
                return self.run(rest, st, loop)
            if e[0] == 'assign' and e[2] == ('un', '*', ('id', 'new_pos')) and e[1] == '=':
                r = e[3]
                if r == ('id', 'p'):
                    st.newpos = (st.base, st.k)
                elif r[0] == 'bin' and r[1] == '+' and r[2] == ('id', 'p') and r[3][0] == 'num':
                    st.newpos = (st.base, st.k + r[3][1])
                else:
                    raise ExtractError(f'{self.name}: *new_pos = {r} not understood')
                return self.run(rest, st, loop)
            if e[0] == 'assign' and e[2][0] == 'id' and e[2][1] in st.env and st.env[e[2][1]][1] in cmini.WIDTH:
                name = e[2][1]
                ty = st.env[name][1]
                rhs = e[3] if e[1] == '=' else ('bin', e[1][:-1], e[2], e[3])
                eff = []
                txt, t = self.value(st, rhs, eff)
                if len(eff) > 1:
                    raise ExtractError(f'{self.name}: more than one `*p++` in one expression')
                st.env[name] = (self.emitter(st, None).convert(txt, t, ty), ty)
                return self.run(rest, st, loop)
            if e[0] == 'call' and e[1] == 'error_at':
                return self.error_leaf(e)
            raise ExtractError(f'{self.name}: expression statement {e} not supported')
        if k == 'if':
            c = self.cond(st, s[1])
            a = self.run(unblock(s[2]) + rest, st.copy(), loop)
            b = self.run(unblock(s[3]) + rest, st.copy(), loop)
            return f'if {c} then\n{indent(a)}\nelse\n{indent(b)}'
        if k == 'ret':
            return self.ret_leaf(st, s[1])
        if k == 'continue':
            if loop is None:
                raise ExtractError(f'{self.name}: continue outside a loop')
            return self.run(self._step + [self._cont], st, loop)
        if k in ('for', 'while'):
            return self.loop(s, rest, st, loop)
        raise ExtractError(f'{self.name}: statement {k} not supported')

    def error_leaf(self, e):
        if not self.can_fail:
            raise ExtractError(f'{self.name}: error_at in a function translated as total')
        args = e[2]
        if len(args) < 2 or args[1][0] != 'str':
            raise ExtractError(f'{self.name}: error_at without a literal message')
        c = err_ctor(args[1][1])
        if c not in self.errors:
            self.errors.append(c)
        return f'.error .{c}'

    def ret_leaf(self, st, e):
        if self.ret == 'pos':
            if e != ('id', 'p'):
                raise ExtractError(f'{self.name}: return {e}: a position was expected')
            return self.ok(idx_text(st.base, st.k))
        eff = []
        txt, t = self.value(st, e, eff)
        if eff:
            raise ExtractError(f'{self.name}: side effect in a return expression')
        if self.ret == 'value+newpos':
            if st.newpos is None:
                raise ExtractError(f'{self.name}: return before *new_pos is set')
            txt = self.emitter(st, None).convert(txt, t, 'i32')
            return self.ok(f'{txt}, {idx_text(*st.newpos)}')
        want = self.ret.split(':')[1]
        return self.ok(self.emitter(st, None).convert(txt, t, want))

    # ------------------------------------------------------------ loops
    def fixed_params(self):
        """function parameters passed unchanged to the loop functions: (binder text, argument text)"""
        b = ''.join(f' ({n} : {LEAN_TY[kd]})' for n, kd in self.params)
        a = ''.join(f' {n}' for n, kd in self.params)
        return b, a

    def loop(self, s, rest, st, outer):
        if outer is not None:
            raise ExtractError(f'{self.name}: nested loops are not supported')
        self.nloop += 1
        lname = f'{self.lean_name}_loop{self.nloop}'
        fb, fa = self.fixed_params()
        if s[0] == 'while':
            init, cnd, step, body = None, s[1], None, s[2]
        else:
            init, cnd, step, body = s[1], s[2], s[3], s[4]
        locals_ = [v for v, (t, ty) in st.env.items() if ty in cmini.WIDTH and v not in dict(self.params)]
        for v in locals_:
            if st.env[v][0] is None:
                raise ExtractError(f'{self.name}: local {v} is live into a loop without a value')
        # ---- counted loop: for (int v = 0; v < N; v++)
        if (init is not None and init[0] == 'decl' and init[1] == 'int' and init[3] == ('num', 0, '') and cnd is not None
                and cnd[0] == 'bin' and cnd[1] == '<' and cnd[2] == ('id', init[2]) and cnd[3][0] == 'id'
                and dict(self.params).get(cnd[3][1]) == 'nat' and step == ('postinc', ('id', init[2]))):
            var, bound = init[2], cnd[3][1]
            if var in self.assigned([body]):
                raise ExtractError(f'{self.name}: the loop counter {var} is assigned in the loop body')
            inner = State(st.base, st.k, {v: (v, st.env[v][1]) for v in locals_})
            for n, kd in self.params:
                inner.env[n] = (n, kd)
            inner.env[var] = (var, 'idx')
            self._step, self._cont = [], ('__count_continue__',)
            lp = (lname, fa, locals_, var)
            body_txt = self.run(unblock(body) + [('__count_continue__',)], inner.copy(), lp)
            exit_txt = self.run(rest, inner.copy(), None)
            binders = ''.join(f' → {LEAN_TY[st.env[v][1]]}' for v in locals_)
            pats = ''.join(f', {v}' for v in locals_)
            d = f'def {lname} (p : List (BitVec 8)){fb} : Nat → Nat{binders} → {self.result_type()}\n'
            d += f'  | 0, {var}{pats} =>\n{indent(exit_txt, 4)}\n'
            d += f'  | rem + 1, {var}{pats} =>\n{indent(body_txt, 4)}\n'
            self.loops.append(d)
            args = ' '.join(f'({st.env[v][0]})' for v in locals_)
            return f'{lname} p{fa} {bound} 0 {args}'.rstrip()
        # ---- cursor loop: for (; COND; p++) BODY   |   while (COND) BODY
        if init is not None:
            raise ExtractError(f'{self.name}: loop initialiser {init} not supported')
        if step is not None and step != ('postinc', ('id', 'p')):
            raise ExtractError(f'{self.name}: loop step {step} not supported')
        inner = State('i', 0, {v: (v, st.env[v][1]) for v in locals_})
        for n, kd in self.params:
            inner.env[n] = (n, kd)
        for v, (t, ty) in st.env.items():
            if ty == 'ptr':
                inner.env[v] = (t, ty)
        self._step = [('expr', ('postinc', ('id', 'p')))] if step is not None else []
        self._cont = ('__continue__',)
        lp = (lname, fa, locals_)
        c_txt = self.cond(inner, cnd)
        body_txt = self.run(unblock(body) + self._step + [('__continue__',)], inner.copy(), lp)
        exit_txt = self.run(rest, inner.copy(), None)
        binders = ''.join(f' → {LEAN_TY[st.env[v][1]]}' for v in locals_)
        pats = ''.join(f', {v}' for v in locals_)
        d = f'def {lname} (p : List (BitVec 8)){fb} : Nat → Nat{binders} → {self.result_type()}\n'
        d += f'  | 0, i{pats} =>\n{indent(exit_txt, 4)}\n'
        d += f'  | fuel + 1, i{pats} =>\n    if {c_txt} then\n{indent(body_txt, 6)}\n    else\n{indent(exit_txt, 6)}\n'
        self.loops.append(d)
        args = ' '.join(f'({st.env[v][0]})' for v in locals_)
        return f'{lname} p{fa} (p.length + 1) ({idx_text(st.base, st.k)}) {args}'.rstrip()

    # ------------------------------------------------------------ whole function
    def translate(self, stmts, doc):
        env = {}
        for n, kd in self.params:
            env[n] = (n, 'char' if kd == 'byte' else kd)
        st = State(self.base, 0, env)
        body = self.run(list(stmts), st, None)
        binders = ''.join(f' ({n} : {"BitVec 8" if kd == "byte" else LEAN_TY[kd]})' for n, kd in self.params)
        start = f' ({self.base} : Nat)' if self.base else ''
        ptxt = ' (p : List (BitVec 8))' if self.uses_text else ''
        out = ''.join(d + '\n' for d in self.loops)
        out += f'/-- {doc} -/\n'
        out += f'def {self.lean_name}{ptxt}{start}{binders} : {self.result_type()} :=\n{indent(body)}\n'
        return out

    uses_text = True


def indent(txt, n=2):
    pad = ' ' * n
    return '\n'.join(pad + l if l else l for l in txt.split('\n'))


# ---------------------------------------------------------------- in-place rewriting loops (canonicalize_newline, remove_backslash_newline)

REWRITE_PREAMBLE = '''/-- `p[j] = v` on the array that holds a NUL-terminated text (`buf` = the bytes before the terminator); `none` = the store
    is not inside the text (it would overwrite the terminator or lie outside the array) -/
def storeAt (buf : List (BitVec 8)) (j : Nat) (v : BitVec 8) : Option (List (BitVec 8)) :=
  if j < buf.length then some (buf.set j v) else none

/-- `for (; n > 0; n--) p[j++] = v;` -/
def fillAt (v : BitVec 8) : Nat → List (BitVec 8) → Nat → Option (List (BitVec 8))
  | 0, buf, _ => some buf
  | n + 1, buf, j =>
    match storeAt buf j v with
    | none => none
    | some buf => fillAt v n buf (j + 1)

/-- `p[j] = '\\\\0';` as the last statement: the text is what stands before index `j` -/
def terminateAt (buf : List (BitVec 8)) (j : Nat) : Option (List (BitVec 8)) :=
  if j ≤ buf.length then some (buf.take j) else none

'''


class RewriteFn(CursorFn):
    """`static void f(char *p)` that rewrites the text in place through `int` index variables: reads `p[i]`, `p[i + k]`,
    `p[i++]`; stores `p[j++] = e`; `for (; n > 0; n--) p[j++] = c;`; one `while (p[i])` loop; ends with `p[j] = '\\0';`.
    Translated with the exact array semantics (the buffer is threaded through, a store outside the text is `none`), so the
    Lean side proves — not assumes — that the writes stay behind the reads.  The index variables are `Nat` (files < 2 GiB)."""

    def __init__(self, name, lean_name, index_vars):
        super().__init__(name, lean_name, [], 'buffer', '', True, {})
        self.index_vars = index_vars

    def result_type(self):
        return 'Option (List (BitVec 8))'

    def nat(self, st, e):
        """lean text of an index expression"""
        if e[0] == 'num':
            return str(e[1])
        if e[0] == 'id' and st.env.get(e[1], (None, None))[1] == 'idx':
            return st.env[e[1]][0]
        if e[0] == 'bin' and e[1] == '+' and e[3][0] == 'num':
            return f'{self.nat(st, e[2])} + {e[3][1]}'
        raise ExtractError(f'{self.name}: index expression {e} not understood')

    def emitter(self, st, effects):
        fn = self

        def index(e):
            if e[0] == 'idx' and e[1] == ('id', 'p'):
                ix = e[2]
                if ix[0] == 'postinc' and ix[1][0] == 'id' and st.env.get(ix[1][1], (None, None))[1] == 'idx':
                    if effects is None:
                        raise ExtractError(f'{fn.name}: `p[i++]` inside a condition')
                    v = ix[1][1]
                    txt = f'byteAt buf ({st.env[v][0]})'
                    st.env[v] = (f'{st.env[v][0]} + 1', 'idx')
                    effects.append(v)
                    return txt, 'char'
                return f'byteAt buf ({fn.nat(st, ix)})', 'char'
            raise ExtractError(f'{fn.name}: memory access {e} not understood')
        return Emitter({}, index)

    def cond(self, st, e):
        if e[0] == 'bin' and e[1] in ('>', '<', '>=', '<=', '==', '!=') and e[2][0] == 'id' and st.env.get(e[2][1], (None, None))[1] == 'idx':
            op = {'>': '>', '<': '<', '>=': '≥', '<=': '≤', '==': '=', '!=': '≠'}[e[1]]
            return f'({st.env[e[2][1]][0]} {op} {self.nat(st, e[3])})'
        return super().cond(st, e)

    def byte_value(self, st, e, effects):
        em = self.emitter(st, effects)
        txt, ty = em.value_nopromote(e)
        if ty in ('char', 'uchar'):
            return txt
        if cmini.WIDTH.get(ty) != 32:
            raise ExtractError(f'{self.name}: stored value of type {ty}')
        return f'({txt}).setWidth 8'

    def run(self, stmts, st, loop=None):
        if not stmts:
            raise ExtractError(f'{self.name}: the function does not end with `p[j] = \'\\0\';`')
        s, rest = stmts[0], stmts[1:]
        k = s[0]
        if k == '__state_continue__':
            name, carried = loop
            args = ' '.join(f'({st.env[v][0]})' for v in carried)
            return f'{name} fuel buf {args}'
        if k == 'decl' and s[1] == 'int' and s[2] in self.index_vars:
            if s[3] is None or s[3][0] != 'num':
                raise ExtractError(f'{self.name}: index variable {s[2]} without a literal initial value')
            st.env[s[2]] = (str(s[3][1]), 'idx')
            return self.run(rest, st, loop)
        if k == 'expr':
            e = s[1]
            if e[0] in ('postinc', 'postdec', 'preinc', 'predec') and e[1][0] == 'id' and st.env.get(e[1][1], (None, None))[1] == 'idx':
                v = e[1][1]
                st.env[v] = (f'{st.env[v][0]} {"+" if "inc" in e[0] else "-"} 1', 'idx')
                return self.run(rest, st, loop)
            if e[0] == 'assign' and e[1] == '+=' and e[2][0] == 'id' and st.env.get(e[2][1], (None, None))[1] == 'idx' and e[3][0] == 'num':
                v = e[2][1]
                st.env[v] = (f'{st.env[v][0]} + {e[3][1]}', 'idx')
                return self.run(rest, st, loop)
            if e[0] == 'assign' and e[1] == '=' and e[2][0] == 'idx' and e[2][1] == ('id', 'p'):
                ix = e[2][2]
                if ix[0] == 'id' and e[3] == ('chr', 0):
                    if rest:
                        raise ExtractError(f'{self.name}: statements after the terminating store')
                    if loop is not None:
                        raise ExtractError(f'{self.name}: terminating store inside the loop')
                    return f'terminateAt buf ({self.nat(st, ix)})'
                if ix[0] == 'postinc' and ix[1][0] == 'id' and st.env.get(ix[1][1], (None, None))[1] == 'idx':
                    j = ix[1][1]
                    eff = []
                    val = self.byte_value(st, e[3], eff)          # the right-hand side is read first (it never depends on `j`)
                    if j in eff:
                        raise ExtractError(f'{self.name}: `p[{j}++] = p[{j}++]`')
                    jt = st.env[j][0]
                    st.env[j] = (f'{jt} + 1', 'idx')
                    body = self.run(rest, st, loop)
                    return f'match storeAt buf ({jt}) ({val}) with\n| none => none\n| some buf =>\n{indent(body)}'
            raise ExtractError(f'{self.name}: expression statement {e} not supported')
        if k == 'for':
            # the only inner loop of the subset: for (; n > 0; n--) p[j++] = c;
            init, cnd, step, body = s[1], s[2], s[3], s[4]
            b = unblock(body)
            if (init is None and cnd is not None and cnd[0] == 'bin' and cnd[1] == '>' and cnd[2][0] == 'id' and cnd[3] == ('num', 0, '')
                    and st.env.get(cnd[2][1], (None, None))[1] == 'idx' and step == ('postdec', cnd[2])
                    and len(b) == 1 and b[0][0] == 'expr' and b[0][1][0] == 'assign' and b[0][1][1] == '='
                    and b[0][1][2][0] == 'idx' and b[0][1][2][1] == ('id', 'p') and b[0][1][2][2][0] == 'postinc'
                    and b[0][1][3][0] == 'chr'):
                n = cnd[2][1]
                j = b[0][1][2][2][1][1]
                if st.env.get(j, (None, None))[1] != 'idx' or j == n:
                    raise ExtractError(f'{self.name}: fill loop index {j}')
                val = self.byte_value(st, b[0][1][3], [])
                nt, jt = st.env[n][0], st.env[j][0]
                st.env[j] = (f'{jt} + {nt}' if nt != '0' else jt, 'idx')
                st.env[n] = ('0', 'idx')
                body_txt = self.run(rest, st, loop)
                return f'match fillAt ({val}) ({nt}) buf ({jt}) with\n| none => none\n| some buf =>\n{indent(body_txt)}'
            raise ExtractError(f'{self.name}: inner loop {s} not understood')
        if k == 'while':
            if loop is not None:
                raise ExtractError(f'{self.name}: nested while loops')
            self.nloop += 1
            lname = f'{self.lean_name}_loop{self.nloop}'
            carried = [v for v in self.index_vars if v in st.env]
            inner = State('', 0, {v: (v, 'idx') for v in carried})
            self._step, self._cont = [], ('__state_continue__',)
            c_txt = self.cond(inner, s[1])
            body_txt = self.run(unblock(s[2]) + [('__state_continue__',)], inner.copy(), (lname, carried))
            exit_txt = self.run(rest, inner.copy(), None)
            pats = ''.join(f', {v}' for v in carried)
            d = f'def {lname} : Nat → List (BitVec 8){" → Nat" * len(carried)} → Option (List (BitVec 8))\n'
            d += f'  | 0, buf{pats} =>\n{indent(exit_txt, 4)}\n'
            d += f'  | fuel + 1, buf{pats} =>\n    if {c_txt} then\n{indent(body_txt, 6)}\n    else\n{indent(exit_txt, 6)}\n'
            self.loops.append(d)
            args = ' '.join(f'({st.env[v][0]})' for v in carried)
            return f'{lname} (buf.length + 1) buf {args}'
        if k == 'block':
            return self.run(list(s[1]) + rest, st, loop)
        if k == 'if':
            c = self.cond(st, s[1])
            a = self.run(unblock(s[2]) + rest, st.copy(), loop)
            b = self.run(unblock(s[3]) + rest, st.copy(), loop)
            return f'if {c} then\n{indent(a)}\nelse\n{indent(b)}'
        raise ExtractError(f'{self.name}: statement {k} not supported')

    def translate(self, stmts, doc):
        st = State('', 0, {})
        body = self.run(list(stmts), st, None)
        out = ''.join(d + '\n' for d in self.loops)
        out += f'/-- {doc} -/\n'
        out += f'def {self.lean_name} (buf : List (BitVec 8)) : Option (List (BitVec 8)) :=\n{indent(body)}\n'
        return out


def c_unescape(s):
    """bytes of a C string literal body as cmini keeps it (escapes unprocessed); only the escapes used in the translated code"""
    out = []
    i = 0
    while i < len(s):
        if s[i] == '\\':
            i += 1
            m = {'\\': 92, '"': 34, 'n': 10, 't': 9, 'r': 13, '0': 0, "'": 39}
            if i >= len(s) or s[i] not in m:
                raise ExtractError(f'string literal escape \\{s[i:i+1]} not understood')
            out.append(m[s[i]])
        else:
            if ord(s[i]) > 126:
                raise ExtractError('non-ASCII string literal')
            out.append(ord(s[i]))
        i += 1
    return out


PTR_PREAMBLE = '''/-- `q += encode_utf8(q, c)`: the bytes are stored one after the other -/
def storeList : List (BitVec 8) → List (BitVec 8) → Nat → Option (List (BitVec 8))
  | [], buf, _ => some buf
  | v :: vs, buf, j =>
    match storeAt buf j v with
    | none => none
    | some buf => storeList vs buf (j + 1)

'''


class PtrRewriteFn(RewriteFn):
    """like RewriteFn, for the pointer style of `convert_universal_chars`: `p` (read) and `q` (write) are positions in the same
    array; `*p`, `p[k]`, `*p++`, `p += k`, `*q++ = e`, `q += encode_utf8(q, c)`, `startswith(p, "..")`,
    `uint32_t c = read_universal_char(p + k, n)`; ends with `*q = '\\0';`."""

    def pos(self, st, e):
        if e[0] == 'id' and st.env.get(e[1], (None, None))[1] == 'idx':
            return st.env[e[1]][0]
        if e[0] == 'bin' and e[1] == '+' and e[3][0] == 'num':
            return f'{self.pos(st, e[2])} + {e[3][1]}'
        raise ExtractError(f'{self.name}: position {e} not understood')

    def emitter(self, st, effects):
        fn = self

        def index(e):
            if e[0] == 'un' and e[1] == '*' and e[2][0] == 'id' and st.env.get(e[2][1], (None, None))[1] == 'idx':
                return f'byteAt buf ({st.env[e[2][1]][0]})', 'char'
            if e[0] == 'un' and e[1] == '*' and e[2][0] == 'postinc' and e[2][1][0] == 'id' and st.env.get(e[2][1][1], (None, None))[1] == 'idx':
                if effects is None:
                    raise ExtractError(f'{fn.name}: `*p++` inside a condition')
                v = e[2][1][1]
                txt = f'byteAt buf ({st.env[v][0]})'
                st.env[v] = (f'{st.env[v][0]} + 1', 'idx')
                effects.append(v)
                return txt, 'char'
            if e[0] == 'idx' and e[1][0] == 'id' and st.env.get(e[1][1], (None, None))[1] == 'idx' and e[2][0] == 'num':
                return f'byteAt buf ({st.env[e[1][1]][0]} + {e[2][1]})', 'char'
            raise ExtractError(f'{fn.name}: memory access {e} not understood')
        env = {k: v for k, v in st.env.items() if v[1] in cmini.WIDTH}
        return Emitter(env, index)

    def cond(self, st, e):
        if e[0] == 'call' and e[1] == 'startswith' and len(e[2]) == 2 and e[2][1][0] == 'str':
            base = self.pos(st, e[2][0])
            bs = c_unescape(e[2][1][1])
            if not bs or 0 in bs:
                raise ExtractError(f'{self.name}: startswith pattern')
            # strncmp(p, "..", n) == 0 with a pattern without NUL: the first n bytes are equal
            return '(' + ' ∧ '.join(f'byteAt buf ({base} + {k}) = {b}#8' if k else f'byteAt buf ({base}) = {b}#8' for k, b in enumerate(bs)) + ')'
        if e[0] == 'bin' and e[1] in ('&&', '||'):
            return f'({self.cond(st, e[2])} {"∧" if e[1] == "&&" else "∨"} {self.cond(st, e[3])})'
        return CursorFn.cond(self, st, e)

    def run(self, stmts, st, loop=None):
        if stmts:
            s, rest = stmts[0], stmts[1:]
            if s[0] == 'decl' and s[1] == 'char*' and s[2] in self.index_vars:
                st.env[s[2]] = (self.pos(st, s[3]), 'idx')
                return self.run(rest, st, loop)
            if (s[0] == 'decl' and s[1] == 'uint32_t' and s[3] is not None and s[3][0] == 'call' and s[3][1] == 'read_universal_char'
                    and len(s[3][2]) == 2 and s[3][2][1][0] == 'num'):
                # bound by `let`: the value is computed once, from the array as it is *before* the following stores
                val = f'readUniversalChar (buf.drop ({self.pos(st, s[3][2][0])})) {s[3][2][1][1]}'
                st.env[s[2]] = (s[2], 'u32')
                return f'let {s[2]} : BitVec 32 := {val}\n' + self.run(rest, st, loop)
            if s[0] == 'expr':
                e = s[1]
                if e[0] == 'assign' and e[1] == '=' and e[2][0] == 'un' and e[2][1] == '*':
                    tgt = e[2][2]
                    if tgt[0] == 'id' and st.env.get(tgt[1], (None, None))[1] == 'idx' and e[3] == ('chr', 0):
                        if rest or loop is not None:
                            raise ExtractError(f'{self.name}: terminating store is not the last statement')
                        return f'terminateAt buf ({st.env[tgt[1]][0]})'
                    if tgt[0] == 'postinc' and tgt[1][0] == 'id' and st.env.get(tgt[1][1], (None, None))[1] == 'idx':
                        j = tgt[1][1]
                        eff = []
                        val = self.byte_value(st, e[3], eff)
                        if j in eff:
                            raise ExtractError(f'{self.name}: `*{j}++ = *{j}++`')
                        jt = st.env[j][0]
                        st.env[j] = (f'{jt} + 1', 'idx')
                        body = self.run(rest, st, loop)
                        return f'match storeAt buf ({jt}) ({val}) with\n| none => none\n| some buf =>\n{indent(body)}'
                if (e[0] == 'assign' and e[1] == '+=' and e[2][0] == 'id' and st.env.get(e[2][1], (None, None))[1] == 'idx'
                        and e[3][0] == 'call' and e[3][1] == 'encode_utf8' and len(e[3][2]) == 2 and e[3][2][0] == e[2]
                        and e[3][2][1][0] == 'id' and st.env.get(e[3][2][1][1], (None, None))[1] == 'u32'):
                    j = e[2][1]
                    c = st.env[e[3][2][1][1]][0]
                    jt = st.env[j][0]
                    st.env[j] = (f'{jt} + (encodeUtf8 {c}).length', 'idx')
                    body = self.run(rest, st, loop)
                    return f'match storeList (encodeUtf8 {c}) buf ({jt}) with\n| none => none\n| some buf =>\n{indent(body)}'
        return super().run(stmts, st, loop)

    def translate(self, stmts, doc):
        st = State('', 0, {'p': ('0', 'idx')})
        body = self.run(list(stmts), st, None)
        out = ''.join(d + '\n' for d in self.loops)
        out += f'/-- {doc} -/\n'
        out += f'def {self.lean_name} (buf : List (BitVec 8)) : Option (List (BitVec 8)) :=\n{indent(body)}\n'
        return out


# ---------------------------------------------------------------- string / character literal readers

READER_PREAMBLE = '''/-- libc `strchr(p + i, c)` for `c ≠ 0`: index of the first byte equal to `c` at or after `i`, `none` if the terminator comes
    first; fuel: one unit per byte -/
def strchrFrom (p : List (BitVec 8)) (c : BitVec 8) : Nat → Nat → Option Nat
  | 0, _ => none
  | fuel + 1, i => if i ≥ p.length then none else if byteAt p i = c then some i else strchrFrom p c fuel (i + 1)

'''


class ReaderBody:
    """Statements of the literal readers that move the cursor `p` through calls with `&p` and append to a separate buffer:
         buf[len++] = read_escaped_char(&p, p + 1);     buf[len++] = decode_utf8(&p, p);     buf[len++] = *p++;
         uint32_t c = decode_utf8(&p, p);  c -= K;  buf[len++] = <expression over c>;
         c = read_escaped_char(&p, p + 1);  c = decode_utf8(&p, p);           (read_char_literal)
         if / else, continue.
    The cursor is `cur` (lean text of a Nat), the appended units are the Lean list `acc` (reversed), `bits` is the width of
    one element of `buf`.  `tail(cur, env)` produces the text for the end of the statement list."""

    def __init__(self, fname, bits, decode_err, errors):
        self.fname, self.bits, self.decode_err, self.errors = fname, bits, decode_err, errors

    def emitter(self, cur, env):
        def index(e):
            if e == ('un', '*', ('id', 'p')):
                return f'byteAt p ({cur})', 'char'
            if e[0] == 'idx' and e[1] == ('id', 'p') and e[2][0] == 'num':
                return f'byteAt p ({cur} + {e[2][1]})', 'char'
            raise ExtractError(f'{self.fname}: memory access {e} not understood')
        return Emitter({k: v for k, v in env.items() if v[1] in cmini.WIDTH}, index)

    def unit(self, txt, ty):
        """value stored into buf[...] (element of `bits` bits), as a Nat"""
        if ty in ('char', 'uchar'):
            if self.bits != 8:
                return f'(({txt}).signExtend {self.bits}).toNat' if ty == 'char' else f'({txt}).toNat'
            return f'({txt}).toNat'
        w = cmini.WIDTH[ty]
        return f'(({txt}).setWidth {self.bits}).toNat' if w != self.bits else f'({txt}).toNat'

    ESC = ('call', 'read_escaped_char', [('un', '&', ('id', 'p')), ('bin', '+', ('id', 'p'), ('num', 1, ''))])
    DEC = ('call', 'decode_utf8', [('un', '&', ('id', 'p')), ('id', 'p')])

    def call(self, e, cur, k):
        """k(value_text, value_type, new_cursor) -> text"""
        if e == self.ESC:
            body = k('v', 'i32', f'{cur} + 1 + n')
            return f'match readEscapedChar (p.drop ({cur} + 1)) with\n| .error e => .error e\n| .ok (v, n) =>\n{indent(body)}'
        if e == self.DEC:
            if self.decode_err not in self.errors:
                self.errors.append(self.decode_err)
            body = k('v', 'u32', f'{cur} + n')
            return f'match decodeUtf8 (p.drop ({cur})) with\n| .error _ => .error .{self.decode_err}\n| .ok (v, n) =>\n{indent(body)}'
        raise ExtractError(f'{self.fname}: call {e} not understood')

    def run(self, stmts, cur, env, tail):
        if not stmts:
            return tail(cur, env)
        s, rest = stmts[0], stmts[1:]
        k = s[0]
        if k == 'block':
            return self.run(list(s[1]) + rest, cur, env, tail)
        if k == 'continue':
            return tail(cur, env)
        if k == 'if':
            c = self.emitter(cur, env).cond(s[1])
            a = self.run(unblock(s[2]) + rest, cur, dict(env), tail)
            b = self.run(unblock(s[3]) + rest, cur, dict(env), tail)
            return f'if {c} then\n{indent(a)}\nelse\n{indent(b)}'
        if k == 'decl' and s[1] in ('uint32_t', 'int') and s[3] is not None and s[3][0] == 'call':
            name, cty = s[2], LOCAL_TYPES[s[1]]
            def kont(v, ty, ncur):
                env2 = dict(env)
                env2[name] = (v if ty == cty or cmini.WIDTH[ty] == cmini.WIDTH[cty] else None, cty)
                return f'let {name} : BitVec 32 := {v}\n' + self.run(rest, ncur, {**env2, name: (name, cty)}, tail)
            return self.call(s[3], cur, kont)
        if k == 'decl' and s[1] == 'int' and s[3] is None:
            env[s[2]] = (None, 'i32')
            return self.run(rest, cur, env, tail)
        if k == 'expr':
            e = s[1]
            # buf[len++] = RHS
            if e[0] == 'assign' and e[1] == '=' and e[2] == ('idx', ('id', 'buf'), ('postinc', ('id', 'len'))):
                rhs = e[3]
                if rhs[0] == 'call':
                    def kont(v, ty, ncur):
                        return self.run([('__push__', self.unit(v, ty))] + rest, ncur, env, tail)
                    return self.call(rhs, cur, kont)
                if rhs == ('un', '*', ('postinc', ('id', 'p'))):
                    return self.run([('__push__', self.unit(f'byteAt p ({cur})', 'char'))] + rest, f'{cur} + 1', env, tail)
                txt, ty = self.emitter(cur, env).value(rhs)
                return self.run([('__push__', self.unit(txt, ty))] + rest, cur, env, tail)
            # c = CALL(&p, ..)  |  c op= E
            if e[0] == 'assign' and e[2][0] == 'id' and e[2][1] in env and env[e[2][1]][1] in cmini.WIDTH:
                name, cty = e[2][1], env[e[2][1]][1]
                if e[1] == '=' and e[3][0] == 'call':
                    def kont(v, ty, ncur):
                        return f'let {name} : BitVec 32 := {v}\n' + self.run(rest, ncur, {**env, name: (name, cty)}, tail)
                    return self.call(e[3], cur, kont)
                rhs = e[3] if e[1] == '=' else ('bin', e[1][:-1], e[2], e[3])
                txt, ty = self.emitter(cur, env).value(rhs)
                em = self.emitter(cur, env)
                return f'let {name} : BitVec 32 := {em.convert(txt, ty, cty)}\n' + self.run(rest, cur, {**env, name: (name, cty)}, tail)
            if e[0] == 'call' and e[1] == 'error_at' and len(e[2]) >= 2 and e[2][1][0] == 'str':
                c = err_ctor(e[2][1][1])
                if c not in self.errors:
                    self.errors.append(c)
                return f'.error .{c}'
        if k == '__push__':
            body = self.run(rest, cur, env, tail)
            return f'let acc := {s[1]} :: acc\n{body}'
        raise ExtractError(f'{self.fname}: statement {s} not supported')


# ---------------------------------------------------------------- loop-free functions with if-ladders (convert_pp_int), scans (pp-number)
# (C11, second deepening)  Everything below is add-only; nothing above uses it.

TEXT_PREAMBLE = '''/-- `<ctype.h>` `isdigit` in the C locale, on a `char` (glibc: false for every byte outside ASCII); libc, trusted -/
def isdigit (b : BitVec 8) : Bool := 48 ≤ b.toNat && b.toNat ≤ 57

/-- `<ctype.h>` `isalnum` in the C locale, on a `char`; libc, trusted -/
def isalnum (b : BitVec 8) : Bool :=
  (48 ≤ b.toNat && b.toNat ≤ 57) || (97 ≤ b.toNat && b.toNat ≤ 122) || (65 ≤ b.toNat && b.toNat ≤ 90)

/-- `<ctype.h>` `tolower` in the C locale as `strncasecmp` applies it to one byte; libc, trusted -/
def tolower (b : BitVec 8) : BitVec 8 := if 65 ≤ b.toNat && b.toNat ≤ 90 then b + 32#8 else b

/-- libc `strchr("<literal>", c) != NULL`: `c` occurs in the literal, or `c` is 0 (`strchr` finds the terminator); trusted -/
def strchrLit (s : List Nat) (c : BitVec 8) : Bool := c == 0#8 || s.contains c.toNat

'''


def assigned_vars(stmts):
    return CursorFn.assigned(None, stmts)


class TextConds:
    """Conditions and byte reads over the cursor `p` of a NUL-terminated text held in the Lean list `p`:
       `*p`, `p[k]`, `isdigit(p[k])` …, `startswith(p, "lit")`, `!strncasecmp(p, "lit", n)`, `strchr("lit", p[k])`, `&&`, `||`, `!`,
       and everything cmini.Emitter.cond accepts over the scalar locals.  `st` is a `State` (cursor = st.base + st.k)."""

    def __init__(self, name, calls):
        self.name, self.calls = name, calls

    def at(self, st, off=0):
        return idx_text(st.base, st.k + off)

    def emitter(self, st):
        fn = self

        def index(e):
            if e == ('un', '*', ('id', 'p')):
                return f'byteAt p ({fn.at(st)})', 'char'
            if e[0] == 'idx' and e[1] == ('id', 'p') and e[2][0] == 'num':
                return f'byteAt p ({fn.at(st, e[2][1])})', 'char'
            raise ExtractError(f'{fn.name}: memory access {e} not understood')
        env = {k: v for k, v in st.env.items() if v[1] in cmini.WIDTH or v[1] in ('bool', 'nat')}
        return Emitter(env, index, calls=self.calls)

    def lit_bytes(self, e, what):
        if e[0] != 'str':
            raise ExtractError(f'{self.name}: {what}: string literal expected')
        bs = c_unescape(e[1])
        if not bs or 0 in bs:
            raise ExtractError(f'{self.name}: {what}: empty pattern or NUL in the pattern')
        return bs

    def cond(self, st, e):
        k = e[0]
        if k == 'bin' and e[1] in ('&&', '||'):
            return f'({self.cond(st, e[2])} {"∧" if e[1] == "&&" else "∨"} {self.cond(st, e[3])})'
        if k == 'call' and e[1] == 'startswith':
            # startswith(p, q) = strncmp(p, q, strlen(q)) == 0 (pinned by the caller); a pattern without NUL: the first bytes are equal
            if len(e[2]) != 2 or e[2][0] != ('id', 'p'):
                raise ExtractError(f'{self.name}: startswith on something other than the cursor')
            bs = self.lit_bytes(e[2][1], 'startswith')
            return '(' + ' ∧ '.join(f'byteAt p ({self.at(st, i)}) = {b}#8' for i, b in enumerate(bs)) + ')'
        if k == 'call' and e[1] == 'strncasecmp':
            # strncasecmp(p, "lit", n) with n = strlen(lit): zero iff the first n bytes are equal after tolower (C locale)
            a = e[2]
            if len(a) != 3 or a[0] != ('id', 'p'):
                raise ExtractError(f'{self.name}: strncasecmp on something other than the cursor')
            bs = self.lit_bytes(a[1], 'strncasecmp')
            if a[2] != ('num', len(bs), ''):
                raise ExtractError(f'{self.name}: strncasecmp length is not the length of the pattern')
            eq = '(' + ' ∧ '.join(f'tolower (byteAt p ({self.at(st, i)})) = tolower {b}#8' for i, b in enumerate(bs)) + ')'
            return f'(¬ {eq})'                  # the int result used as a truth value: non-zero = different
        if k == 'un' and e[1] == '!':
            if e[2][0] == 'call' and e[2][1] == 'strncasecmp':
                return self.cond(st, e[2])[3:-1]            # strip the `(¬ ` … `)` put on above
            return f'(¬ {self.cond(st, e[2])})'
        if k == 'call' and e[1] == 'strchr':
            if len(e[2]) != 2:
                raise ExtractError(f'{self.name}: strchr arguments')
            bs = self.lit_bytes(e[2][0], 'strchr')
            txt, ty = self.emitter(st).value_nopromote(e[2][1])
            if ty not in ('char', 'uchar'):
                raise ExtractError(f'{self.name}: strchr of a non-byte')
            return f'(strchrLit [{", ".join(str(b) for b in bs)}] ({txt}) = true)'
        return self.emitter(st).cond(e)


class LadderFn(TextConds):
    """A C function without loops: declarations, if-ladders that only move the cursor and assign literals to scalar locals, one call
    of an external function through `&p`, guards `if (C) return false;`, a final `return true;` after assignments to `tok->…`.
    Every if-ladder becomes its own Lean function from the cursor to the tuple (new cursor, assigned locals); the function itself is
    the sequence of these steps.  `tok->loc` is the index `loc` into the text `p`, `tok->loc + tok->len` is `loc + len`."""

    def __init__(self, name, lean_name, calls):
        super().__init__(name, calls)
        self.lean_name = lean_name
        self.aux = []
        self.nsel = 0
        self.nq = 0

    # ---- an if-ladder as a function: (cursor) -> (cursor', assigned locals)
    def is_const(self, txt):
        return re.fullmatch(r'\d+|true|false', txt) is not None

    def leaf(self, stmts, st, outs):
        for s in stmts:
            if s[0] == 'block':
                self.leaf(s[1], st, outs)
                continue
            if s[0] != 'expr':
                raise ExtractError(f'{self.name}: statement {s[0]} inside an if-ladder arm')
            e = s[1]
            if e == ('postinc', ('id', 'p')) or e == ('preinc', ('id', 'p')):
                st.k += 1
            elif e[0] == 'assign' and e[1] == '+=' and e[2] == ('id', 'p') and e[3][0] == 'num':
                st.k += e[3][1]
            elif e[0] == 'assign' and e[1] == '=' and e[2][0] == 'id':
                # v = literal | v = w = literal
                names = []
                x = e
                while x[0] == 'assign' and x[1] == '=' and x[2][0] == 'id':
                    names.append(x[2][1])
                    x = x[3]
                for v in names:
                    if v not in st.env or st.env[v][1] not in ('nat', 'bool'):
                        raise ExtractError(f'{self.name}: assignment to {v} inside an if-ladder arm')
                    if st.env[v][1] == 'nat' and x[0] == 'num' and x[2] == '':
                        st.env[v] = (str(x[1]), 'nat')
                    elif st.env[v][1] == 'bool' and x in (('id', 'true'), ('id', 'false')):
                        st.env[v] = (x[1], 'bool')
                    else:
                        raise ExtractError(f'{self.name}: {v} = {x}: a literal was expected')
            else:
                raise ExtractError(f'{self.name}: statement {e} inside an if-ladder arm')
        return '(' + ', '.join([self.at(st)] + [st.env[v][0] for v in outs]) + ')'

    def ladder(self, s, st, outs):
        if s is None:
            return self.leaf([], st.copy(), outs)
        if s[0] == 'block' and len(s[1]) == 1 and s[1][0][0] == 'if':
            s = s[1][0]
        if s[0] != 'if':
            return self.leaf([s], st.copy(), outs)
        c = self.cond(st, s[1])
        a = self.ladder_arm(s[2], st, outs)
        b = self.ladder(s[3], st, outs)
        return f'if {c} then\n{indent(a)}\nelse\n{indent(b)}'

    def ladder_arm(self, s, st, outs):
        items = unblock(s)
        if len(items) == 1 and items[0][0] == 'if':
            return self.ladder(items[0], st, outs)
        return self.leaf(items, st.copy(), outs)

    def selector(self, s, st, doc):
        """emit the function for the if-statement `s`; returns (call text, outs) and updates nothing"""
        asg = assigned_vars([s])
        outs = [v for v in st.env if v in asg]
        for v in asg:
            if v != 'p' and v not in st.env:
                raise ExtractError(f'{self.name}: the if-ladder assigns {v}, which is not a scalar local')
        for v in outs:
            if not self.is_const(st.env[v][0]):
                raise ExtractError(f'{self.name}: {v} does not hold a literal when the if-ladder starts')
        self.nsel += 1
        name = f'{self.lean_name}_sel{self.nsel}'
        inner = State('q', 0, st.env)
        body = self.ladder(s, inner, outs)
        tys = ' × '.join(['Nat'] + [{'nat': 'Nat', 'bool': 'Bool'}[st.env[v][1]] for v in outs])
        self.aux.append(f'/-- {doc} -/\ndef {name} (p : List (BitVec 8)) (q : Nat) : {tys} :=\n{indent(body)}\n')
        return name, outs

    # ---- positions
    def pos(self, st, e):
        if e == ('id', 'p'):
            return self.at(st)
        if e == ('mem', '->', ('id', 'tok'), 'loc'):
            return 'loc'
        if e[0] == 'bin' and e[1] == '+' and e[3] == ('mem', '->', ('id', 'tok'), 'len'):
            return f'{self.pos(st, e[2])} + len'
        raise ExtractError(f'{self.name}: position {e} not understood')

    def fresh(self):
        self.nq += 1
        return f'q{self.nq}'


class ScanFn(TextConds):
    """A token scan of tokenize(): `char *q = p++; for (;;) { if (C1) p += 2; else if (C2) p++; else break; }` — an endless loop whose
    body only moves the cursor and leaves through `break`.  Result: the position where the loop stops (the token is [start, end))."""

    def __init__(self, name, lean_name, calls):
        super().__init__(name, calls)
        self.lean_name = lean_name

    def body(self, stmts, st, lname):
        if not stmts:
            return f'{lname} p fuel ({self.at(st)})'
        s, rest = stmts[0], stmts[1:]
        if s[0] == 'block':
            return self.body(list(s[1]) + rest, st, lname)
        if s[0] == 'break':
            return self.at(st)
        if s[0] == 'continue':
            return f'{lname} p fuel ({self.at(st)})'
        if s[0] == 'if':
            c = self.cond(st, s[1])
            a = self.body(unblock(s[2]) + rest, st.copy(), lname)
            b = self.body(unblock(s[3]) + rest, st.copy(), lname)
            return f'if {c} then\n{indent(a)}\nelse\n{indent(b)}'
        if s[0] == 'expr':
            e = s[1]
            if e == ('postinc', ('id', 'p')) or e == ('preinc', ('id', 'p')):
                st.k += 1
                return self.body(rest, st, lname)
            if e[0] == 'assign' and e[1] == '+=' and e[2] == ('id', 'p') and e[3][0] == 'num':
                st.k += e[3][1]
                return self.body(rest, st, lname)
        raise ExtractError(f'{self.name}: statement {s} inside the scan loop not supported')

    def translate(self, start_cond, first_step, loop, doc_start, doc_end):
        """start_cond: the `if` condition that selects the arm; first_step: how far `p` is moved before the loop; loop: the `for (;;)`"""
        if loop[0] != 'for' or loop[1] is not None or loop[2] is not None or loop[3] is not None:
            raise ExtractError(f'{self.name}: the scan loop is not `for (;;)`')
        st0 = State('start', 0, {})
        c = self.cond(st0, start_cond)
        lname = f'{self.lean_name}_loop1'
        inner = State('i', 0, {})
        body = self.body(unblock(loop[4]), inner, lname)
        if lname not in body:
            raise ExtractError(f'{self.name}: the scan loop never continues')
        out = f'/-- {doc_start} -/\ndef {self.lean_name}Start (p : List (BitVec 8)) (start : Nat) : Bool :=\n  decide {c}\n\n'
        out += f'def {lname} (p : List (BitVec 8)) : Nat → Nat → Nat\n  | 0, i => i\n  | fuel + 1, i =>\n{indent(body, 4)}\n\n'
        out += f'/-- {doc_end} -/\ndef {self.lean_name}End (p : List (BitVec 8)) (start : Nat) : Nat :=\n'
        out += f'  {lname} p (p.length + 1) (start + {first_step})\n'
        return out
