"""Translator for "cursor functions" of tokenize.c: small functions that walk a `char *p` over a NUL-terminated text
(`*p`, `p[k]`, `*p++`, `p++`, `p += k`), keep a few integer locals, and leave through `return`, `error_at(...)` or the end.
Used by literals.py for from_hex, read_escaped_char, read_universal_char, string_literal_end (property C11).

The statement trees come from cmini.parse_body, every expression is emitted by cmini.Emitter (so the C typing —
promotion of `char`, `unsigned` casts, width of shifts — is the translator's, not a hand model's).  Control flow is
translated by symbolic execution with continuation duplication (an `if` without `else` is followed, in both branches, by
the rest of the function), which is exact for the loop-free parts; loops become structurally recursive Lean functions:

  * cursor loop    `for (; COND; p++) BODY` / `while (COND) BODY`   -> `f_loopK p … : fuel → i → locals → R`; one unit of
                   fuel per iteration; the caller passes `p.length + 1` (every iteration consumes at least one byte and no
                   loop of the subset continues at the terminator; the Lean side proves the fuel sufficient where it matters);
                   when the fuel is exhausted the loop behaves as if its condition were false
  * counted loop   `for (int v = 0; v < N; v++) BODY` with `N` a parameter -> recursion on the remaining count (exact)

Anything else raises ExtractError.
"""
import re
from common import ExtractError
import cmini
from cmini import Emitter, unblock

LOCAL_TYPES = {'int': 'i32', 'unsigned': 'u32', 'unsigned int': 'u32', 'uint32_t': 'u32', 'int32_t': 'i32'}
LEAN_TY = {'i32': 'BitVec 32', 'u32': 'BitVec 32', 'i64': 'BitVec 64', 'u64': 'BitVec 64', 'idx': 'Nat', 'nat': 'Nat'}


def err_ctor(msg):
    return re.sub(r'\W+', '_', msg).strip('_')


class State:
    def __init__(self, base, k, env, newpos=None):
        self.base, self.k, self.env, self.newpos = base, k, dict(env), newpos

    def copy(self):
        return State(self.base, self.k, self.env, self.newpos)


def idx_text(base, k):
    if not base:
        return str(k)
    return base if k == 0 else f'{base} + {k}'


class CursorFn:
    """One C function.  `params`: list of (c_name, kind) after the cursor `p`, kind in {'nat', 'i32', 'u32', 'byte'};
    `ret`: 'value:<ty>' (plain value), 'pos' (returns a position of the text), 'value+newpos' (returns an int and sets *new_pos);
    `base`: '' if the list starts at `p`, else the name of the Lean parameter holding the start index;
    `can_fail`: the result is `Except ReadErr …`."""

    def __init__(self, name, lean_name, params, ret, base, can_fail, calls, final=None):
        self.name, self.lean_name, self.params, self.ret, self.base = name, lean_name, params, ret, base
        self.can_fail, self.calls, self.final = can_fail, calls, final
        self.loops = []          # emitted auxiliary definitions
        self.errors = []         # constructor names used
        self.nloop = 0

    # ------------------------------------------------------------ types
    def result_type(self):
        if self.ret == 'pos':
            t = 'Nat'
        elif self.ret == 'value+newpos':
            t = 'BitVec 32 × Nat'
        else:
            t = LEAN_TY[self.ret.split(':')[1]]
        return f'Except ReadErr ({t})' if self.can_fail else t

    def ok(self, txt):
        return f'.ok ({txt})' if self.can_fail else txt

    # ------------------------------------------------------------ expressions
    def emitter(self, st, effects):
        fn = self

        def index(e):
            # *p | p[k] | p[v] (v an index variable) | *p++
            if e == ('un', '*', ('id', 'p')):
                return f'byteAt p ({idx_text(st.base, st.k)})', 'char'
            if e == ('un', '*', ('postinc', ('id', 'p'))):
                if effects is None:
                    raise ExtractError(f'{fn.name}: `*p++` inside a condition')
                txt = f'byteAt p ({idx_text(st.base, st.k)})'
                effects.append(1)
                st.k += 1
                return txt, 'char'
            if e[0] == 'idx' and e[1] == ('id', 'p'):
                if e[2][0] == 'num':
                    return f'byteAt p ({idx_text(st.base, st.k + e[2][1])})', 'char'
                if e[2][0] == 'id' and st.env.get(e[2][1], (None, None))[1] == 'idx':
                    v = st.env[e[2][1]][0]
                    b = idx_text(st.base, st.k)
                    return (f'byteAt p ({v})' if b == '0' else f'byteAt p ({b} + {v})'), 'char'
            raise ExtractError(f'{fn.name}: memory access {e} not understood')
        env = {k: v for k, v in st.env.items() if v[1] in cmini.WIDTH or v[1] in ('char', 'uchar', 'bool')}
        return Emitter(env, index, calls=self.calls)

    def value(self, st, e, effects):
        return self.emitter(st, effects).value(e)

    def cond(self, st, e):
        return self.emitter(st, None).cond(e)

    # ------------------------------------------------------------ statements
    def assigned(self, stmts):
        out = set()

        def walk_e(e):
            if not isinstance(e, tuple):
                return
            if e[0] == 'assign' and e[2][0] == 'id':
                out.add(e[2][1])
            if e[0] in ('postinc', 'postdec', 'preinc', 'predec') and e[1][0] == 'id':
                out.add(e[1][1])
            for x in e[1:]:
                if isinstance(x, tuple):
                    walk_e(x)
                elif isinstance(x, list):
                    for y in x:
                        walk_e(y)

        def walk(s):
            if s is None:
                return
            for x in s[1:]:
                if isinstance(x, tuple):
                    walk(x) if x and x[0] in ('block', 'if', 'for', 'while', 'expr', 'decl', 'ret') else walk_e(x)
                elif isinstance(x, list):
                    for y in x:
                        walk(y)
        for s in stmts:
            walk(s)
        return out

    def run(self, stmts, st, loop=None):
        """lean text for `stmts` executed from state `st`; `loop` = (name, params_text, carried) when inside a loop body"""
        if not stmts:
            if loop is not None:
                raise ExtractError(f'{self.name}: loop body falls off without the step')
            if self.final is None:
                raise ExtractError(f'{self.name}: control reaches the end of the translated part')
            return self.final(self, st)
        s, rest = stmts[0], stmts[1:]
        k = s[0]
        if k == 'block':
            return self.run(list(s[1]) + rest, st, loop)
        if k == '__continue__':
            name, fixed, carried = loop
            args = ' '.join(f'({st.env[v][0]})' for v in carried)
            return f'{name} p{fixed} fuel ({idx_text(st.base, st.k)}) {args}'.rstrip()
        if k == '__count_continue__':
            name, fixed, carried, var = loop
            args = ' '.join(f'({st.env[v][0]})' for v in carried)
            return f'{name} p{fixed} rem ({st.env[var][0]} + 1) {args}'.rstrip()
        if k == 'decl':
            ty, name, init = s[1], s[2], s[3]
            if ty == 'char*':
                if init != ('id', 'p'):
                    raise ExtractError(f'{self.name}: pointer declaration {name} not understood')
                st.env[name] = (None, 'ptr')                      # only allowed as an argument of error_at
                return self.run(rest, st, loop)
            if ty not in LOCAL_TYPES:
                raise ExtractError(f'{self.name}: local of type {ty} not supported')
            if init is None:
                st.env[name] = (None, LOCAL_TYPES[ty])
            else:
                eff = []
                txt, t = self.value(st, init, eff)
                st.env[name] = (self.emitter(st, None).convert(txt, t, LOCAL_TYPES[ty]), LOCAL_TYPES[ty])
            return self.run(rest, st, loop)
        if k == 'expr':
            e = s[1]
            if e == ('postinc', ('id', 'p')) or e == ('preinc', ('id', 'p')):
                st.k += 1
                return self.run(rest, st, loop)
            if e[0] == 'assign' and e[2] == ('id', 'p') and e[1] == '+=' and e[3][0] == 'num':
                st.k += e[3][1]
                return self.run(rest, st, loop)
            if e[0] == 'assign' and e[2] == ('un', '*', ('id', 'new_pos')) and e[1] == '=':
                r = e[3]
                if r == ('id', 'p'):
                    st.newpos = (st.base, st.k)
                elif r[0] == 'bin' and r[1] == '+' and r[2] == ('id', 'p') and r[3][0] == 'num':
                    st.newpos = (st.base, st.k + r[3][1])
                else:
                    raise ExtractError(f'{self.name}: *new_pos = {r} not understood')
                return self.run(rest, st, loop)
            if e[0] == 'assign' and e[2][0] == 'id' and e[2][1] in st.env and st.env[e[2][1]][1] in cmini.WIDTH:
                name = e[2][1]
                ty = st.env[name][1]
                rhs = e[3] if e[1] == '=' else ('bin', e[1][:-1], e[2], e[3])
                eff = []
                txt, t = self.value(st, rhs, eff)
                if len(eff) > 1:
                    raise ExtractError(f'{self.name}: more than one `*p++` in one expression')
                st.env[name] = (self.emitter(st, None).convert(txt, t, ty), ty)
                return self.run(rest, st, loop)
            if e[0] == 'call' and e[1] == 'error_at':
                return self.error_leaf(e)
            raise ExtractError(f'{self.name}: expression statement {e} not supported')
        if k == 'if':
            c = self.cond(st, s[1])
            a = self.run(unblock(s[2]) + rest, st.copy(), loop)
            b = self.run(unblock(s[3]) + rest, st.copy(), loop)
            return f'if {c} then\n{indent(a)}\nelse\n{indent(b)}'
        if k == 'ret':
            return self.ret_leaf(st, s[1])
        if k == 'continue':
            if loop is None:
                raise ExtractError(f'{self.name}: continue outside a loop')
            return self.run(self._step + [self._cont], st, loop)
        if k in ('for', 'while'):
            return self.loop(s, rest, st, loop)
        raise ExtractError(f'{self.name}: statement {k} not supported')

    def error_leaf(self, e):
        if not self.can_fail:
            raise ExtractError(f'{self.name}: error_at in a function translated as total')
        args = e[2]
        if len(args) < 2 or args[1][0] != 'str':
            raise ExtractError(f'{self.name}: error_at without a literal message')
        c = err_ctor(args[1][1])
        if c not in self.errors:
            self.errors.append(c)
        return f'.error .{c}'

    def ret_leaf(self, st, e):
        if self.ret == 'pos':
            if e != ('id', 'p'):
                raise ExtractError(f'{self.name}: return {e}: a position was expected')
            return self.ok(idx_text(st.base, st.k))
        eff = []
        txt, t = self.value(st, e, eff)
        if eff:
            raise ExtractError(f'{self.name}: side effect in a return expression')
        if self.ret == 'value+newpos':
            if st.newpos is None:
                raise ExtractError(f'{self.name}: return before *new_pos is set')
            txt = self.emitter(st, None).convert(txt, t, 'i32')
            return self.ok(f'{txt}, {idx_text(*st.newpos)}')
        want = self.ret.split(':')[1]
        return self.ok(self.emitter(st, None).convert(txt, t, want))

    # ------------------------------------------------------------ loops
    def fixed_params(self):
        """function parameters passed unchanged to the loop functions: (binder text, argument text)"""
        b = ''.join(f' ({n} : {LEAN_TY[kd]})' for n, kd in self.params)
        a = ''.join(f' {n}' for n, kd in self.params)
        return b, a

    def loop(self, s, rest, st, outer):
        if outer is not None:
            raise ExtractError(f'{self.name}: nested loops are not supported')
        self.nloop += 1
        lname = f'{self.lean_name}_loop{self.nloop}'
        fb, fa = self.fixed_params()
        if s[0] == 'while':
            init, cnd, step, body = None, s[1], None, s[2]
        else:
            init, cnd, step, body = s[1], s[2], s[3], s[4]
        locals_ = [v for v, (t, ty) in st.env.items() if ty in cmini.WIDTH and v not in dict(self.params)]
        for v in locals_:
            if st.env[v][0] is None:
                raise ExtractError(f'{self.name}: local {v} is live into a loop without a value')
        # ---- counted loop: for (int v = 0; v < N; v++)
        if (init is not None and init[0] == 'decl' and init[1] == 'int' and init[3] == ('num', 0, '') and cnd is not None
                and cnd[0] == 'bin' and cnd[1] == '<' and cnd[2] == ('id', init[2]) and cnd[3][0] == 'id'
                and dict(self.params).get(cnd[3][1]) == 'nat' and step == ('postinc', ('id', init[2]))):
            var, bound = init[2], cnd[3][1]
            if var in self.assigned([body]):
                raise ExtractError(f'{self.name}: the loop counter {var} is assigned in the loop body')
            inner = State(st.base, st.k, {v: (v, st.env[v][1]) for v in locals_})
            for n, kd in self.params:
                inner.env[n] = (n, kd)
            inner.env[var] = (var, 'idx')
            self._step, self._cont = [], ('__count_continue__',)
            lp = (lname, fa, locals_, var)
            body_txt = self.run(unblock(body) + [('__count_continue__',)], inner.copy(), lp)
            exit_txt = self.run(rest, inner.copy(), None)
            binders = ''.join(f' → {LEAN_TY[st.env[v][1]]}' for v in locals_)
            pats = ''.join(f', {v}' for v in locals_)
            d = f'def {lname} (p : List (BitVec 8)){fb} : Nat → Nat{binders} → {self.result_type()}\n'
            d += f'  | 0, {var}{pats} =>\n{indent(exit_txt, 4)}\n'
            d += f'  | rem + 1, {var}{pats} =>\n{indent(body_txt, 4)}\n'
            self.loops.append(d)
            args = ' '.join(f'({st.env[v][0]})' for v in locals_)
            return f'{lname} p{fa} {bound} 0 {args}'.rstrip()
        # ---- cursor loop: for (; COND; p++) BODY   |   while (COND) BODY
        if init is not None:
            raise ExtractError(f'{self.name}: loop initialiser {init} not supported')
        if step is not None and step != ('postinc', ('id', 'p')):
            raise ExtractError(f'{self.name}: loop step {step} not supported')
        inner = State('i', 0, {v: (v, st.env[v][1]) for v in locals_})
        for n, kd in self.params:
            inner.env[n] = (n, kd)
        for v, (t, ty) in st.env.items():
            if ty == 'ptr':
                inner.env[v] = (t, ty)
        self._step = [('expr', ('postinc', ('id', 'p')))] if step is not None else []
        self._cont = ('__continue__',)
        lp = (lname, fa, locals_)
        c_txt = self.cond(inner, cnd)
        body_txt = self.run(unblock(body) + self._step + [('__continue__',)], inner.copy(), lp)
        exit_txt = self.run(rest, inner.copy(), None)
        binders = ''.join(f' → {LEAN_TY[st.env[v][1]]}' for v in locals_)
        pats = ''.join(f', {v}' for v in locals_)
        d = f'def {lname} (p : List (BitVec 8)){fb} : Nat → Nat{binders} → {self.result_type()}\n'
        d += f'  | 0, i{pats} =>\n{indent(exit_txt, 4)}\n'
        d += f'  | fuel + 1, i{pats} =>\n    if {c_txt} then\n{indent(body_txt, 6)}\n    else\n{indent(exit_txt, 6)}\n'
        self.loops.append(d)
        args = ' '.join(f'({st.env[v][0]})' for v in locals_)
        return f'{lname} p{fa} (p.length + 1) ({idx_text(st.base, st.k)}) {args}'.rstrip()

    # ------------------------------------------------------------ whole function
    def translate(self, stmts, doc):
        env = {}
        for n, kd in self.params:
            env[n] = (n, 'char' if kd == 'byte' else kd)
        st = State(self.base, 0, env)
        body = self.run(list(stmts), st, None)
        binders = ''.join(f' ({n} : {"BitVec 8" if kd == "byte" else LEAN_TY[kd]})' for n, kd in self.params)
        start = f' ({self.base} : Nat)' if self.base else ''
        ptxt = ' (p : List (BitVec 8))' if self.uses_text else ''
        out = ''.join(d + '\n' for d in self.loops)
        out += f'/-- {doc} -/\n'
        out += f'def {self.lean_name}{ptxt}{start}{binders} : {self.result_type()} :=\n{indent(body)}\n'
        return out

    uses_text = True


def indent(txt, n=2):
    pad = ' ' * n
    return '\n'.join(pad + l if l else l for l in txt.split('\n'))
