"""parse.c / preprocess.c -> Gen/C10IfParseGen.lean   (property C10, the token-to-tree parser of #if)

What is regenerated from the snapshot on every run:
  * the chain of the ten binary-operator functions of parse.c that a controlling expression passes through
    (conditional -> logor -> logand -> bitor -> bitxor -> bitand -> equality -> relational -> shift -> add -> mul -> cast):
    for each function its operand function (the next level) and, in source order, its operators: spelling, node kind and
    whether the operands are swapped (`a > b` is built as ND_LT(b, a)),
  * the four unary operators of unary() that a controlling expression can contain, with their node kinds,
  * the punctuators after which postfix() continues (function call, subscript, member, ++/--) and the assignment operators of
    assign(): tokens that leave the fragment a controlling expression can contain.
What is pinned (exact text required; Model/IfParse.lean transcribes it by hand):
  conditional(), expr(), the head of assign(), cast()'s test, the four arms of unary(), the parenthesis arm and the TK_NUM arm
  of primary() and its final error, const_expr(), skip(), read_const_expr() and eval_const_expr() of preprocess.c.
Anything that does not have exactly the expected shape raises ExtractError (the check then reports the tie as broken)."""
import re
from common import *


def norm(s):
    return re.sub(r'\s+', ' ', s).strip()


def fbody(text, name, ret=r'static\s+Node\s*\*'):
    return norm(function_body(text, r'^' + ret + r'\s*' + name + r'\s*\(\s*Token\s*\*\*\s*rest\s*,\s*Token\s*\*\s*tok\s*\)\s*\{', name))


CHAIN = ['logor', 'logand', 'bitor', 'bitxor', 'bitand', 'equality', 'relational', 'shift', 'add', 'mul']

ND2OP = {'ND_MUL': 'mul', 'ND_DIV': 'div', 'ND_MOD': 'mod', 'ND_ADD': 'add', 'ND_SUB': 'sub', 'ND_SHL': 'shl', 'ND_SHR': 'shr',
         'ND_LT': 'lt', 'ND_LE': 'le', 'ND_EQ': 'eq', 'ND_NE': 'ne', 'ND_BITAND': 'band', 'ND_BITXOR': 'bxor', 'ND_BITOR': 'bor',
         'ND_LOGAND': 'land', 'ND_LOGOR': 'lor'}
ND2UN = {'ND_NEG': 'neg', 'ND_NOT': 'lnot', 'ND_BITNOT': 'bnot'}


def lean_str(x):
    return '"' + x.replace('\\', '\\\\').replace('"', '\\"') + '"'


def level(parse, name):
    """one function of the chain: (operand function, [(spelling, op, swapped)])"""
    b = fbody(parse, name)
    m = re.match(r'Node \*node = (\w+)\(&tok, tok\); (.*)$', b)
    if not m:
        raise ExtractError(f'{name}: does not start with `Node *node = <operand>(&tok, tok);`')
    sub, rest = m.group(1), m.group(2)
    ops = []
    # two loop shapes: `while (equal(tok, "op")) { Token *start = tok; node = ...; } *rest = tok; return node;`
    # and `for (;;) { Token *start = tok; if (equal(tok, "op")) { node = ...; continue; } ... *rest = tok; return node; }`
    mw = re.fullmatch(r'while \(equal\(tok, "([^"]+)"\)\) \{ Token \*start = tok; node = (.*?); \} \*rest = tok; return node;', rest)
    if mw:
        arms = [(mw.group(1), mw.group(2))]
    else:
        mf = re.fullmatch(r'for \(;;\) \{ Token \*start = tok; ((?:if \(equal\(tok, "[^"]+"\)\) \{ node = .*?; continue; \} )+)\*rest = tok; return node; \}', rest)
        if not mf:
            raise ExtractError(f'{name}: loop of unknown shape: {rest[:200]}')
        arms = re.findall(r'if \(equal\(tok, "([^"]+)"\)\) \{ node = (.*?); continue; \} ', mf.group(1))
    for sym, build in arms:
        operand = re.escape(sub) + r'\(&tok, tok->next\)'
        m1 = re.fullmatch(r'new_binary\((ND_\w+), node, ' + operand + r', start\)', build)
        m2 = re.fullmatch(r'new_binary\((ND_\w+), ' + operand + r', node, start\)', build)
        m3 = re.fullmatch(r'new_(add|sub)\(node, ' + operand + r', start\)', build)
        if m1:
            nd, sw = m1.group(1), False
        elif m2:
            nd, sw = m2.group(1), True
        elif m3:
            nd, sw = {'add': 'ND_ADD', 'sub': 'ND_SUB'}[m3.group(1)], False
        else:
            raise ExtractError(f'{name}: operator {sym!r} builds a node of unknown shape: {build}')
        if nd not in ND2OP:
            raise ExtractError(f'{name}: node kind {nd} is not an operator of a controlling expression')
        ops.append((sym, ND2OP[nd], sw))
    return sub, ops


def generate(repo):
    parse = strip_comments(read(repo, 'parse.c'))
    pp = strip_comments(read(repo, 'preprocess.c'))
    tk = strip_comments(read(repo, 'tokenize.c'))

    # ---------------------------------------------------------------- the chain of binary levels
    levels = []
    for i, name in enumerate(CHAIN):
        sub, ops = level(parse, name)
        want = CHAIN[i + 1] if i + 1 < len(CHAIN) else 'cast'
        if sub != want:
            raise ExtractError(f'{name}: its operands are parsed by {sub}, expected {want}')
        levels.append((name, ops))
    # new_add / new_sub on two arithmetic operands are plain ND_ADD / ND_SUB nodes
    for fn, nd in (('new_add', 'ND_ADD'), ('new_sub', 'ND_SUB')):
        b = norm(function_body(parse, r'^static\s+Node\s*\*\s*' + fn + r'\s*\(\s*Node\s*\*\s*lhs\s*,\s*Node\s*\*\s*rhs\s*,\s*Token\s*\*\s*tok\s*\)\s*\{', fn))
        if not b.startswith('add_type(lhs); add_type(rhs); if (is_numeric(lhs->ty) && is_numeric(rhs->ty)) return new_binary(' + nd + ', lhs, rhs, tok);'):
            raise ExtractError(f'{fn}: the arm for two arithmetic operands is not a plain {nd} node')

    # ---------------------------------------------------------------- pinned functions
    pins = {
        'const_expr': (fbody(parse, 'const_expr', r'int64_t'), 'Node *node = conditional(rest, tok); return eval(node);'),
        'conditional': (fbody(parse, 'conditional'),
                        'Node *cond = logor(&tok, tok); if (!equal(tok, "?")) { *rest = tok; return cond; } '
                        'if (equal(tok->next, ":")) { add_type(cond); Obj *var = new_lvar("", cond->ty); '
                        'Node *lhs = new_binary(ND_ASSIGN, new_var_node(var, tok), cond, tok); Node *rhs = new_node(ND_COND, tok); '
                        'rhs->cond = new_var_node(var, tok); rhs->then = new_var_node(var, tok); rhs->els = conditional(rest, tok->next->next); '
                        'return new_binary(ND_COMMA, lhs, rhs, tok); } '
                        'Node *node = new_node(ND_COND, tok); node->cond = cond; node->then = expr(&tok, tok->next); tok = skip(tok, ":"); '
                        'node->els = conditional(rest, tok); return node;'),
        'expr': (fbody(parse, 'expr'),
                 'Node *node = assign(&tok, tok); if (equal(tok, ",")) return new_binary(ND_COMMA, node, expr(rest, tok->next), tok); '
                 '*rest = tok; return node;'),
    }
    for name, (got, want) in pins.items():
        if got != want:
            raise ExtractError(f'{name}() is not the function Model/IfParse.lean transcribes: {got[:300]}')
    asg = fbody(parse, 'assign')
    if not asg.startswith('Node *node = conditional(&tok, tok); if (equal(tok, "="))') or not asg.endswith('*rest = tok; return node;'):
        raise ExtractError('assign(): head or tail of unknown shape')
    assign_ops = re.findall(r'if \(equal\(tok, "([^"]+)"\)\) return ', asg)
    if len(assign_ops) != asg.count('if (equal(tok,') or not assign_ops:
        raise ExtractError('assign(): an arm of unknown shape')
    cast = fbody(parse, 'cast')
    if not (cast.startswith('if (equal(tok, "(") && is_typename(tok->next)) {') and cast.endswith('} return unary(rest, tok);')):
        raise ExtractError('cast(): not `type cast, else unary`')
    un = fbody(parse, 'unary')
    want_un_head = ('if (equal(tok, "+")) { Node *node = cast(rest, tok->next); add_type(node); '
                    'if (is_integer(node->ty) && node->ty->size < 4) return new_cast(node, ty_int); return node; } '
                    'if (equal(tok, "-")) return new_unary(ND_NEG, cast(rest, tok->next), tok); ')
    if not un.startswith(want_un_head):
        raise ExtractError('unary(): the + and - arms are not the ones Model/IfParse.lean transcribes')
    if not un.endswith('return postfix(rest, tok);'):
        raise ExtractError('unary(): does not end in postfix()')
    un_ops = [('+', 'plus'), ('-', 'neg')]
    for sym, nd in re.findall(r'if \(equal\(tok, "([^"]+)"\)\) return new_unary\((ND_\w+), cast\(rest, tok->next\), tok\);', un):
        if sym == '-':
            continue
        if nd not in ND2UN:
            raise ExtractError(f'unary(): operator {sym!r} builds {nd}')
        un_ops.append((sym, ND2UN[nd]))
    if sorted(s for s, _ in un_ops) != sorted(['+', '-', '!', '~']):
        raise ExtractError(f'unary(): arithmetic operators found: {un_ops}')
    # every other arm of unary() (address, dereference, ++, --, label value) leaves the fragment
    un_other = [s for s in re.findall(r'if \(equal\(tok, "([^"]+)"\)\)', un) if s not in ('+', '-', '!', '~')]
    pf = fbody(parse, 'postfix')
    if 'Node *node = primary(&tok, tok); for (;;) {' not in pf or not pf.endswith('*rest = tok; return node; }'):
        raise ExtractError('postfix(): not `primary, then a loop of suffixes`')
    loop = pf[pf.index('Node *node = primary(&tok, tok); for (;;) {'):]
    post_ops = re.findall(r'if \(equal\(tok, "([^"]+)"\)\) \{', loop)
    if len(post_ops) != loop.count('if (equal(tok,') or not post_ops:
        raise ExtractError('postfix(): a suffix arm of unknown shape')
    pr = fbody(parse, 'primary')
    if not pr.startswith('Token *start = tok; if (equal(tok, "(") && equal(tok->next, "{")) {'):
        raise ExtractError('primary(): the statement-expression arm is not first')
    if 'if (equal(tok, "(")) { Node *node = expr(&tok, tok->next); *rest = skip(tok, ")"); return node; }' not in pr:
        raise ExtractError('primary(): the parenthesis arm is not the one Model/IfParse.lean transcribes')
    if not pr.endswith('if (tok->kind == TK_NUM) { Node *node; if (is_flonum(tok->ty)) { node = new_node(ND_NUM, tok); node->fval = tok->fval; } '
                       'else { node = new_num(tok->val, tok); } node->ty = tok->ty; *rest = tok->next; return node; } '
                       'error_tok(tok, "expected an expression");'):
        raise ExtractError('primary(): the TK_NUM arm / the final diagnostic are not the ones Model/IfParse.lean transcribes')
    sk = norm(function_body(tk, r'^Token\s*\*\s*skip\s*\(\s*Token\s*\*\s*tok\s*,\s*char\s*\*\s*op\s*\)\s*\{', 'skip'))
    if sk != 'if (!equal(tok, op)) error_tok(tok, "expected \'%s\'", op); return tok->next;':
        raise ExtractError('skip() is not the function Model/IfParse.lean transcribes')

    rce = fbody(pp, 'read_const_expr', r'static\s+Token\s*\*')
    want_rce = ('tok = copy_line(rest, tok); Token head = {}; Token *cur = &head; while (tok->kind != TK_EOF) { '
                'if (equal(tok, "defined")) { Token *start = tok; bool has_paren = consume(&tok, tok->next, "("); '
                'if (tok->kind != TK_IDENT) error_tok(start, "macro name must be an identifier"); Macro *m = find_macro(tok); tok = tok->next; '
                'if (has_paren) tok = skip(tok, ")"); cur = cur->next = new_num_token(m ? 1 : 0, start); continue; } '
                'cur = cur->next = tok; tok = tok->next; } cur->next = tok; return head.next;')
    if rce != want_rce:
        raise ExtractError('read_const_expr is not the function Model/PPExpr.lean (readDefined) transcribes: ' + rce[:300])
    ece = fbody(pp, 'eval_const_expr', r'static\s+long')
    want_ece = ('Token *start = tok; Token *expr = read_const_expr(rest, tok->next); expr = preprocess2(expr); '
                'if (expr->kind == TK_EOF) error_tok(start, "no expression"); '
                'for (Token *t = expr; t->kind != TK_EOF; t = t->next) { if (t->kind == TK_IDENT) { Token *next = t->next; '
                '*t = *new_num_token(0, t); t->next = next; } } convert_pp_tokens(expr); '
                'for (Token *t = expr; t->kind != TK_EOF; t = t->next) { if (t->kind == TK_NUM && is_integer(t->ty)) { '
                "bool is_unsigned = t->ty->is_unsigned && (t->ty->size == 8 || memchr(t->loc, 'u', t->len) || memchr(t->loc, 'U', t->len)); "
                't->ty = is_unsigned ? ty_ulong : ty_long; } } '
                'Token *rest2; long val = const_expr(&rest2, expr); if (rest2->kind != TK_EOF) error_tok(rest2, "extra token"); return val;')
    if ece != want_ece:
        raise ExtractError('eval_const_expr is not the function Model/IfParse.lean (ifTree) transcribes: ' + ece[:400])

    out = HEADER.format(tool='c10ifparse.py', src='parse.c, preprocess.c, tokenize.c')
    out += 'import ChibiVerif.Model.PPExpr\n\nnamespace ChibiVerif.Gen.C10IfParse\nopen ChibiVerif.PPExpr\n\n'
    out += ('/-- the binary-operator functions of parse.c between conditional() and cast(), outermost first: name and, in source\n'
            '    order, (spelling, node kind, operands swapped) of each operator the function tests for -/\n')
    out += 'def chain : List (String × List (String × BinOp × Bool)) := [\n'
    out += ',\n'.join('  (' + lean_str(n) + ', [' + ', '.join(f'({lean_str(s)}, .{o}, {"true" if sw else "false"})' for s, o, sw in ops) + '])'
                      for n, ops in levels)
    out += ']\n\n'
    out += '/-- the operators of unary() whose operand is a cast-expression and whose result is arithmetic -/\n'
    out += 'def unaryOps : List (String × UnOp) := [' + ', '.join(f'({lean_str(s)}, .{o})' for s, o in un_ops) + ']\n\n'
    out += '/-- the other arms of unary(): address, dereference, increment, decrement, label value -/\n'
    out += 'def unaryOther : List String := [' + ', '.join(lean_str(s) for s in un_other) + ']\n\n'
    out += '/-- punctuators after which postfix() continues behind a primary expression -/\n'
    out += 'def postfixOps : List String := [' + ', '.join(lean_str(s) for s in post_ops) + ']\n\n'
    out += '/-- the assignment operators of assign() -/\n'
    out += 'def assignOps : List String := [' + ', '.join(lean_str(s) for s in assign_ops) + ']\n\n'
    out += 'end ChibiVerif.Gen.C10IfParse\n'
    return {'C10IfParseGen.lean': out}
