"""main.c -> Gen/C14ArgsGen.lean   (property C14: the driver's argument parser, linker command line, file-creating call sites)

What is regenerated from the snapshot on every run (the `#ifdef CHIBICC_VERIF` hook blocks are removed first: the plain
build is what C14 runs):
  * `take_arg`'s list (`takeArgList`); the loop over it and the `return false` are pinned;
  * the guard pass of parse_args (pinned text: `for (i = 1; i < argc; i++) if (take_arg(argv[i])) if (!argv[++i]) usage(1);`);
  * the option ladder of parse_args: every `if (<tests>) { <stmts>; continue; }` in source order as an `Arm` (tests: `!strcmp(argv[i], s)`
    -> `.eq s`, `!strncmp(argv[i], s, n)` with n = strlen(s) -> `.pre s`; statements: see Model/C14ArgsSyntax.lean `Stmt`), the list of
    ignored options as one arm with an empty body, the tail `if (argv[i][0] == '-' && argv[i][1] != '\\0') error("unknown argument…");
    strarray_push(&input_paths, argv[i]);` (pinned), the two statements after the loop (pinned);
  * the static option variables of main.c with their initial values (`flagVars`, `strVars`, `arrVars`);
  * `parse_opt_x` (`optXTable`), `get_file_type` (`fileTypeLadder`; the `opt_x != FILE_NONE` head and the error() tail are pinned);
  * `run_cc1`'s argument list (pinned shape, the three literals regenerated), `assemble`'s command line;
  * `run_linker`'s command line as `ldTemplate : List LdItem`;
  * every call site, in any .c file of the compiler, of a libc function that creates / opens / renames / removes a file, and every
    call of main.c's own wrappers (`open_file`, `create_tmpfile`, `assemble`, `run_cc1`, `run_linker`, `strarray_push(&tmpfiles, …)`)
    with the provenance of the path operand (`fileSites`).
Anything that does not have exactly the expected shape raises ExtractError."""
import re
from common import *

import glob, os
# libc entry points that create, open, rename or remove a file-system object (or run a program)
FS_CALLS = ['fopen', 'freopen', 'open', 'openat', 'creat', 'mkstemp', 'mkostemp', 'mkstemps', 'mkdtemp', 'tmpfile', 'tmpnam', 'tempnam',
            'mktemp', 'rename', 'renameat', 'unlink', 'unlinkat', 'remove', 'rmdir', 'mkdir', 'link', 'symlink', 'truncate', 'ftruncate',
            'popen', 'system', 'mkfifo', 'mknod']


# ------------------------------------------------------------------------------------------------ a very small C reader

TOK = re.compile(r'''\s*(?:(?P<id>[A-Za-z_]\w*)|(?P<num>\d\w*)|(?P<str>"(?:\\.|[^"\\])*")|(?P<chr>'(?:\\.|[^'\\])*')|'''
                 r'''(?P<op>\+\+|--|->|<<|>>|<=|>=|==|!=|&&|\|\||\+=|-=|\|=|&=|\.\.\.|[-+*/%&|^~!<>=?:;,.(){}\[\]#]))''')

def tokenize(text, what):
    out = []
    i = 0
    n = len(text)
    while i < n:
        m = TOK.match(text, i)
        if not m:
            if text[i:].strip() == '':
                break
            raise ExtractError(f'{what}: cannot tokenize at {text[i:i + 40]!r}')
        out.append(m.group(m.lastgroup))
        i = m.end()
    return out

def canon(toks):
    """token list -> canonical text: no blanks except between two word-like tokens"""
    s = ''
    for t in toks:
        if s and (s[-1].isalnum() or s[-1] == '_') and (t[0].isalnum() or t[0] == '_'):
            s += ' '
        s += t
    return s

class P:
    """statement parser over a token list: ('block',[s]) ('if',cond,then,else|None) ('for',hdr,body) ('while',cond,body)
    ('expr',text) ('return',text) ('continue',) ('break',) ('decl',text)"""
    def __init__(self, toks, what):
        self.t, self.i, self.what = toks, 0, what

    def peek(self):
        return self.t[self.i] if self.i < len(self.t) else None

    def eat(self, x):
        if self.peek() != x:
            raise ExtractError(f'{self.what}: expected {x!r}, found {self.peek()!r} near {canon(self.t[max(0, self.i - 6):self.i + 6])!r}')
        self.i += 1

    def balanced(self, open_, close):
        """tokens between the matching pair, cursor after the closing one"""
        self.eat(open_)
        depth, start = 1, self.i
        while depth:
            if self.i >= len(self.t):
                raise ExtractError(f'{self.what}: unbalanced {open_}')
            if self.t[self.i] == open_:
                depth += 1
            elif self.t[self.i] == close:
                depth -= 1
            self.i += 1
        return self.t[start:self.i - 1]

    def until_semicolon(self):
        start, depth = self.i, 0
        while True:
            if self.i >= len(self.t):
                raise ExtractError(f'{self.what}: statement without ;')
            x = self.t[self.i]
            if x in '({[':
                depth += 1
            elif x in ')}]':
                depth -= 1
            elif x == ';' and depth == 0:
                break
            self.i += 1
        toks = self.t[start:self.i]
        self.i += 1
        return toks

    def stmt(self):
        x = self.peek()
        if x == '{':
            inner = self.balanced('{', '}')
            return ('block', P(inner, self.what).stmts())
        if x == 'if':
            self.i += 1
            cond = canon(self.balanced('(', ')'))
            thn = self.stmt()
            els = None
            if self.peek() == 'else':
                self.i += 1
                els = self.stmt()
            return ('if', cond, thn, els)
        if x == 'for':
            self.i += 1
            hdr = canon(self.balanced('(', ')'))
            return ('for', hdr, self.stmt())
        if x == 'while':
            self.i += 1
            cond = canon(self.balanced('(', ')'))
            if self.peek() == ';':
                self.i += 1
                return ('while', cond, ('block', []))
            return ('while', cond, self.stmt())
        if x in ('switch', 'do', 'goto', 'case', 'default'):
            raise ExtractError(f'{self.what}: statement kind {x!r} is not understood here')
        toks = self.until_semicolon()
        if not toks:
            return ('block', [])
        if toks[0] == 'return':
            return ('return', canon(toks[1:]))
        if toks == ['continue']:
            return ('continue',)
        if toks == ['break']:
            return ('break',)
        return ('expr', canon(toks))

    def stmts(self):
        out = []
        while self.peek() is not None:
            out.append(self.stmt())
        return out

def flat(s):
    """a statement as the list of its simple statements (blocks flattened, no control flow inside)"""
    if s[0] == 'block':
        out = []
        for x in s[1]:
            out += flat(x)
        return out
    return [s]

def strip_hook_blocks(text):
    """remove `#ifdef CHIBICC_VERIF … [#else …] #endif` (keeping the #else part); no other conditional may be present"""
    out, lines, i = [], text.split('\n'), 0
    while i < len(lines):
        l = lines[i].strip()
        if re.fullmatch(r'#\s*ifdef\s+CHIBICC_VERIF', l):
            i += 1
            keep = False
            while i < len(lines):
                l2 = lines[i].strip()
                if re.match(r'#\s*(if|ifdef|ifndef)\b', l2):
                    raise ExtractError('nested conditional inside a CHIBICC_VERIF block')
                if re.fullmatch(r'#\s*else', l2):
                    keep = True
                elif re.fullmatch(r'#\s*endif', l2):
                    break
                elif keep:
                    out.append(lines[i])
                i += 1
            else:
                raise ExtractError('unterminated CHIBICC_VERIF block')
            i += 1
            continue
        if re.match(r'#\s*(if|ifdef|ifndef|else|elif|endif)\b', l):
            raise ExtractError(f'main.c: conditional compilation the translator does not understand: {l}')
        out.append(lines[i])
        i += 1
    return '\n'.join(out)

def lean_str(s):
    out = '"'
    for ch in s:
        if ch == '\\':
            out += '\\\\'
        elif ch == '"':
            out += '\\"'
        elif ch == '\n':
            out += '\\n'
        elif ch == '\t':
            out += '\\t'
        elif 32 <= ord(ch) < 127:
            out += ch
        else:
            raise ExtractError(f'string literal with a character the translator does not print: {s!r}')
    return out + '"'

def c_string(tok, what):
    """value of a C string literal token (simple escapes only)"""
    if not (tok.startswith('"') and tok.endswith('"')):
        raise ExtractError(f'{what}: not a string literal: {tok!r}')
    body = tok[1:-1]
    out, i = '', 0
    while i < len(body):
        if body[i] == '\\':
            i += 1
            m = {'n': '\n', 't': '\t', '\\': '\\', '"': '"', "'": "'", '0': '\0'}.get(body[i])
            if m is None or m == '\0':
                raise ExtractError(f'{what}: escape \\{body[i]} in {tok}')
            out += m
        else:
            out += body[i]
        i += 1
    return out

STR = r'"(?:\\.|[^"\\])*"'


# ------------------------------------------------------------------------------------------------ parse_args

def parse_src(e, what):
    if e == 'argv[++i]':
        return '.next'
    if e == 'argv[i]':
        return '.cur'
    m = re.fullmatch(r'argv\[i\]\+(\d+)', e)
    if m:
        return f'(.rest {int(m.group(1))})'
    if re.fullmatch(STR, e):
        return f'(.lit {lean_str(c_string(e, what))})'
    raise ExtractError(f'{what}: operand of unknown shape {e!r}')

def src_offset(src):
    m = re.fullmatch(r'\(\.rest (\d+)\)', src)
    return int(m.group(1)) if m else None

def parse_tests(cond, what):
    tests = []
    for atom in cond.split('||'):
        m = re.fullmatch(r'!strcmp\(argv\[i\],(' + STR + r')\)', atom)
        if m:
            tests.append(('eq', c_string(m.group(1), what)))
            continue
        m = re.fullmatch(r'!strncmp\(argv\[i\],(' + STR + r'),(\d+)\)', atom)
        if m:
            s = c_string(m.group(1), what)
            if int(m.group(2)) != len(s):
                raise ExtractError(f'{what}: strncmp length {m.group(2)} is not strlen({m.group(1)})')
            tests.append(('pre', s))
            continue
        raise ExtractError(f'{what}: test of unknown shape {atom!r}')
    return tests

def translate_arm(cond, body, flags, strs, arrs, what):
    """-> (tests, [lean Stmt text], uses_next)"""
    tests = parse_tests(cond, what)
    stmts = flat(body)
    out = []
    returns = False
    k = 0
    while k < len(stmts):
        s = stmts[k]
        if returns:
            raise ExtractError(f'{what}: statement after a statement that does not return / continue')
        if s[0] == 'continue':
            if k != len(stmts) - 1:
                raise ExtractError(f'{what}: continue is not the last statement')
            returns = True
            k += 1
            continue
        if s[0] == 'if':
            # the -MT / -MQ shape
            m = re.fullmatch(r'opt_MT==NULL', s[1])
            thn, els = flat(s[2]), flat(s[3]) if s[3] else None
            if not m or els is None or len(thn) != 1 or len(els) != 1 or thn[0][0] != 'expr' or els[0][0] != 'expr':
                raise ExtractError(f'{what}: conditional of unknown shape: if ({s[1]})')
            a = re.fullmatch(r'opt_MT=(quote_makefile\()?argv\[\+\+i\](\))?', thn[0][1])
            b = re.fullmatch(r'opt_MT=format\("%s %s",opt_MT,(quote_makefile\()?argv\[\+\+i\](\))?\)', els[0][1])
            if not a or not b or bool(a.group(1)) != bool(b.group(1)) or bool(a.group(1)) != bool(a.group(2)) or bool(b.group(1)) != bool(b.group(2)):
                raise ExtractError(f'{what}: the two branches of the opt_MT arm do not have the expected shape')
            out.append(f'.appendMT {"true" if a.group(1) else "false"} .next')
            k += 1
            continue
        if s[0] != 'expr':
            raise ExtractError(f'{what}: statement kind {s[0]} inside an option arm')
        e = s[1]
        m = re.fullmatch(r'((?:\w+=)+)(true|false)', e)
        if m:
            for v in m.group(1).rstrip('=').split('='):
                if v not in flags:
                    raise ExtractError(f'{what}: {v} is not a bool option variable of main.c')
                out.append(f'.setFlag {lean_str(v)} {m.group(2)}')
            k += 1
            continue
        m = re.fullmatch(r'opt_x=parse_opt_x\((.*)\)', e)
        if m:
            out.append(f'.setX {parse_src(m.group(1), what)}')
            k += 1
            continue
        m = re.fullmatch(r'(\w+)=(argv\[.*)', e)
        if m:
            if m.group(1) not in strs:
                raise ExtractError(f'{what}: {m.group(1)} is not a char* option variable of main.c')
            out.append(f'.setStr {lean_str(m.group(1))} {parse_src(m.group(2), what)}')
            k += 1
            continue
        m = re.fullmatch(r'strarray_push\(&(\w+),(.*)\)', e)
        if m:
            if m.group(1) not in arrs:
                raise ExtractError(f'{what}: {m.group(1)} is not a StringArray of main.c')
            out.append(f'.push {lean_str(m.group(1))} {parse_src(m.group(2), what)}')
            k += 1
            continue
        m = re.fullmatch(r'(define|undef_macro)\((.*)\)', e)
        if m:
            out.append(f'.call {lean_str(m.group(1))} {parse_src(m.group(2), what)}')
            k += 1
            continue
        m = re.fullmatch(r'usage\((\d+)\)', e)
        if m:
            out.append(f'.usage {int(m.group(1))}')
            returns = True
            k += 1
            continue
        if e == 'hashmap_test()' and k + 1 < len(stmts) and stmts[k + 1] == ('expr', 'exit(0)'):
            out.append('.exit0')
            returns = True
            k += 2
            continue
        raise ExtractError(f'{what}: statement of unknown shape {e!r}')
    if not returns:
        raise ExtractError(f'{what}: the arm falls through to the next test')
    # an operand `argv[i] + n` is only meaningful behind a test that guarantees n characters
    for st in out:
        m = re.search(r'\(\.rest (\d+)\)', st)
        if m:
            n = int(m.group(1))
            for kind, s in tests:
                if len(s) < n:
                    raise ExtractError(f'{what}: argv[i] + {n} behind a test for {s!r}')
    nexts = sum(st.count('.next') for st in out)
    if nexts > 1:
        raise ExtractError(f'{what}: more than one argv[++i] on one path')
    return tests, out

def lean_tests(tests):
    return '[' + ', '.join(f'.{k} {lean_str(s)}' for k, s in tests) + ']'


def generate(repo):
    raw = read(repo, 'main.c')
    mainc = strip_comments(strip_hook_blocks(raw))
    L = [HEADER.format(tool='c14args.py', src='main.c (+ every .c file for the file-system call sites)'),
         'import ChibiVerif.Model.C14ArgsSyntax\n', 'namespace ChibiVerif.Gen.C14Args', 'open ChibiVerif.C14Args\n']

    # ---------------------------------------------------------------- static option variables
    flags, strs, arrs = {}, [], []
    for m in re.finditer(r'^(?:static\s+)?bool\s+(\w+)\s*(?:=\s*(true|false)\s*)?;', mainc, re.M):
        flags[m.group(1)] = m.group(2) or 'false'
    for m in re.finditer(r'^(?:static\s+)?char\s*\*\s*(\w+)\s*;', mainc, re.M):
        strs.append(m.group(1))
    for m in re.finditer(r'^(?:static\s+)?StringArray\s+(\w+)\s*;', mainc, re.M):
        arrs.append(m.group(1))
    must(r'^static\s+FileType\s+opt_x\s*;', mainc, 'static FileType opt_x;', re.M)
    ft = must(r'typedef\s+enum\s*\{([^}]*)\}\s*FileType\s*;', mainc, 'enum FileType')
    ftnames = [x.strip() for x in ft.group(1).split(',') if x.strip()]
    if ftnames != ['FILE_NONE', 'FILE_C', 'FILE_ASM', 'FILE_OBJ', 'FILE_AR', 'FILE_DSO']:
        raise ExtractError(f'enum FileType changed: {ftnames}')
    FT = {'FILE_NONE': '.none', 'FILE_C': '.c', 'FILE_ASM': '.asm', 'FILE_OBJ': '.obj', 'FILE_AR': '.ar', 'FILE_DSO': '.dso'}
    for need in ('opt_E', 'opt_S', 'opt_c', 'opt_M', 'opt_MD', 'opt_MMD', 'opt_MP', 'opt_cc1', 'opt_hash_hash_hash', 'opt_static',
                 'opt_shared', 'opt_fcommon', 'opt_fpic'):
        if need not in flags:
            raise ExtractError(f'main.c: bool {need} not found')
    for need in ('opt_o', 'opt_MF', 'opt_MT', 'base_file', 'output_file'):
        if need not in strs:
            raise ExtractError(f'main.c: char *{need} not found')
    for need in ('include_paths', 'opt_include', 'ld_extra_args', 'input_paths', 'tmpfiles', 'idirafter'):
        if need not in arrs:
            raise ExtractError(f'main.c: StringArray {need} not found')
    pseudo = ['define', 'undef_macro']          # effects of define()/undef_macro() recorded as arrays of their operands
    L.append('/-- `bool` option variables of main.c with their initial values -/')
    L.append('def flagVars : List (String × Bool) := [' + ', '.join(f'({lean_str(v)}, {b})' for v, b in flags.items()) + ']\n')
    L.append('/-- `char *` option variables (initially NULL) -/')
    L.append('def strVars : List String := [' + ', '.join(lean_str(v) for v in strs) + ']\n')
    L.append('/-- `StringArray`s (initially empty); `define` / `undef_macro` record the operands of those calls -/')
    L.append('def arrVars : List String := [' + ', '.join(lean_str(v) for v in arrs + pseudo) + ']\n')

    # ---------------------------------------------------------------- take_arg
    body = function_body(mainc, r'^static\s+bool\s+take_arg\s*\(\s*char\s*\*\s*arg\s*\)\s*\{', 'take_arg')
    st = P(tokenize(body, 'take_arg'), 'take_arg').stmts()
    if len(st) != 3 or st[0][0] != 'expr' or st[1][0] != 'for' or st[2] != ('return', 'false'):
        raise ExtractError('take_arg: expected `char *x[] = {…}; for (…) if (!strcmp(arg, x[i])) return true; return false;`')
    m = re.fullmatch(r'char\*x\[\]=\{(.*?),?\}', st[0][1])
    if not m:
        raise ExtractError(f'take_arg: list of unknown shape {st[0][1]!r}')
    take = [c_string(x, 'take_arg') for x in re.findall(STR, m.group(1))]
    if canon(tokenize(m.group(1), 'take_arg')).replace(',', '') != ''.join(re.findall(STR, m.group(1))):
        raise ExtractError('take_arg: the list contains something that is not a string literal')
    if st[1][1] != 'int i=0;i<sizeof(x)/sizeof(*x);i++' or st[1][2] != ('if', '!strcmp(arg,x[i])', ('return', 'true'), None):
        raise ExtractError('take_arg: the loop over the list changed')
    L.append('/-- main.c `take_arg`: options whose argument is the NEXT element of argv -/')
    L.append('def takeArgList : List String := [' + ', '.join(lean_str(x) for x in take) + ']\n')

    # ---------------------------------------------------------------- parse_opt_x
    body = function_body(mainc, r'^static\s+FileType\s+parse_opt_x\s*\(\s*char\s*\*\s*s\s*\)\s*\{', 'parse_opt_x')
    st = P(tokenize(body, 'parse_opt_x'), 'parse_opt_x').stmts()
    xt = []
    for s in st[:-1]:
        m = re.fullmatch(r'!strcmp\(s,(' + STR + r')\)', s[1]) if s[0] == 'if' else None
        if not m or s[3] is not None or s[2][0] != 'return' or s[2][1] not in FT:
            raise ExtractError(f'parse_opt_x: arm of unknown shape {s!r}')
        xt.append((c_string(m.group(1), 'parse_opt_x'), FT[s[2][1]]))
    if st[-1][0] != 'expr' or not st[-1][1].startswith('error("<command line>: unknown argument for -x: %s",s)'):
        raise ExtractError('parse_opt_x: the last statement is not the error() call')
    L.append('/-- main.c `parse_opt_x`; anything else is `error("unknown argument for -x")` -/')
    L.append('def optXTable : List (String × FileType) := [' + ', '.join(f'({lean_str(a)}, {b})' for a, b in xt) + ']\n')

    # ---------------------------------------------------------------- get_file_type
    body = function_body(mainc, r'^static\s+FileType\s+get_file_type\s*\(\s*char\s*\*\s*filename\s*\)\s*\{', 'get_file_type')
    st = P(tokenize(body, 'get_file_type'), 'get_file_type').stmts()
    if st[0] != ('if', 'opt_x!=FILE_NONE', ('return', 'opt_x'), None):
        raise ExtractError('get_file_type: does not start with `if (opt_x != FILE_NONE) return opt_x;`')
    lad = []
    for s in st[1:-1]:
        m = re.fullmatch(r'endswith\(filename,(' + STR + r')\)', s[1]) if s[0] == 'if' else None
        if not m or s[3] is not None or s[2][0] != 'return' or s[2][1] not in FT:
            raise ExtractError(f'get_file_type: arm of unknown shape {s!r}')
        lad.append((c_string(m.group(1), 'get_file_type'), FT[s[2][1]]))
    if st[-1][0] != 'expr' or not st[-1][1].startswith('error("<command line>: unknown file extension: %s",filename)'):
        raise ExtractError('get_file_type: the last statement is not the error() call')
    eb = norm_ws(function_body(mainc, r'^static\s+bool\s+endswith\s*\(\s*char\s*\*\s*p\s*,\s*char\s*\*\s*q\s*\)\s*\{', 'endswith'))
    if eb != 'int len1 = strlen(p); int len2 = strlen(q); return (len1 >= len2) && !strcmp(p + len1 - len2, q);':
        raise ExtractError('endswith changed')
    L.append('/-- main.c `get_file_type` after the `opt_x != FILE_NONE` test: first suffix that matches; none: `error("unknown file extension")` -/')
    L.append('def fileTypeLadder : List (String × FileType) := [' + ', '.join(f'({lean_str(a)}, {b})' for a, b in lad) + ']\n')

    # ---------------------------------------------------------------- parse_args
    body = function_body(mainc, r'^static\s+void\s+parse_args\s*\(\s*int\s+argc\s*,\s*char\s*\*\*\s*argv\s*\)\s*\{', 'parse_args')
    st = P(tokenize(body, 'parse_args'), 'parse_args').stmts()
    if len(st) != 4:
        raise ExtractError(f'parse_args: expected guard loop, option loop, two trailing statements; found {len(st)} statements')
    guard = ('for', 'int i=1;i<argc;i++', ('if', 'take_arg(argv[i])', ('if', '!argv[++i]', ('expr', 'usage(1)'), None), None))
    if st[0] != guard:
        raise ExtractError('parse_args: the pass that checks for missing option arguments changed: ' + repr(st[0]))
    if st[1][0] != 'for' or st[1][1] != 'int i=1;i<argc;i++' or st[1][2][0] != 'block':
        raise ExtractError('parse_args: the option loop changed shape')
    if st[2] != ('if', 'input_paths.len==0', ('expr', 'error("no input files")'), None):
        raise ExtractError('parse_args: the `no input files` test changed')
    if st[3] != ('if', 'opt_E', ('expr', 'opt_x=FILE_C'), None):
        raise ExtractError('parse_args: the `-E implies -x c` statement changed')
    loop = st[1][2][1]
    if len(loop) < 3:
        raise ExtractError('parse_args: option loop too short')
    tail_err, tail_push = loop[-2], loop[-1]
    if tail_err != ('if', "argv[i][0]=='-'&&argv[i][1]!='\\0'", ('expr', 'error("unknown argument: %s",argv[i])'), None):
        raise ExtractError('parse_args: the `unknown argument` test changed: ' + repr(tail_err))
    if tail_push != ('expr', 'strarray_push(&input_paths,argv[i])'):
        raise ExtractError('parse_args: the last statement of the loop is not the push onto input_paths')
    arms = []
    for k, s in enumerate(loop[:-2]):
        what = f'parse_args arm {k}'
        if s[0] != 'if' or s[3] is not None:
            raise ExtractError(f'{what}: not an `if` without else: {s!r}')
        tests, stmts = translate_arm(s[1], s[2], flags, strs, arrs + pseudo, what + ' (' + s[1][:40] + ')')
        arms.append((tests, stmts))
    L.append('/-- the option ladder of main.c `parse_args`, in source order (first matching arm wins; every arm ends in `continue`,')
    L.append('    `usage()` or `exit()`).  After the last arm: `-x…` with more than one character is `error("unknown argument")`,')
    L.append('    everything else is pushed onto `input_paths`. -/')
    L.append('def ladder : List Arm := [')
    for k, (tests, stmts) in enumerate(arms):
        L.append(f'  ⟨{lean_tests(tests)}, [{", ".join(stmts)}]⟩' + (',' if k < len(arms) - 1 else ''))
    L.append(']\n')

    # ---------------------------------------------------------------- run_cc1 / assemble
    body = norm_ws(function_body(mainc, r'^static\s+void\s+run_cc1\s*\(\s*int\s+argc\s*,\s*char\s*\*\*\s*argv\s*,\s*char\s*\*\s*input\s*,\s*char\s*\*\s*output\s*\)\s*\{', 'run_cc1'))
    m = re.fullmatch(r'char \*\*args = calloc\(argc \+ 10, sizeof\(char \*\)\); memcpy\(args, argv, argc \* sizeof\(char \*\)\); '
                     r'args\[argc\+\+\] = (' + STR + r'); if \(input\) \{ args\[argc\+\+\] = (' + STR + r'); args\[argc\+\+\] = input; \} '
                     r'if \(output\) \{ args\[argc\+\+\] = (' + STR + r'); args\[argc\+\+\] = output; \} run_subprocess\(args\);', body)
    if not m:
        raise ExtractError('run_cc1 changed shape: ' + body)
    L.append('/-- main.c `run_cc1`: the child gets the driver\'s own argv followed by these words (input / output only when not NULL) -/')
    L.append(f'def cc1Flag : String := {lean_str(c_string(m.group(1), "run_cc1"))}')
    L.append(f'def cc1InputFlag : String := {lean_str(c_string(m.group(2), "run_cc1"))}')
    L.append(f'def cc1OutputFlag : String := {lean_str(c_string(m.group(3), "run_cc1"))}\n')
    body = norm_ws(function_body(mainc, r'^static\s+void\s+assemble\s*\(\s*char\s*\*\s*input\s*,\s*char\s*\*\s*output\s*\)\s*\{', 'assemble'))
    m = re.fullmatch(r'char \*cmd\[\] = \{(.*), NULL\}; run_subprocess\(cmd\);', body)
    if not m:
        raise ExtractError('assemble changed shape: ' + body)
    items = [x.strip() for x in m.group(1).split(',')]
    asm = []
    for x in items:
        if x == 'input':
            asm.append('none')
        elif x == 'output':
            asm.append('OUTPUT')
        elif re.fullmatch(STR, x):
            asm.append(lean_str(c_string(x, 'assemble')))
        else:
            raise ExtractError(f'assemble: item {x!r}')
    if asm.count('none') != 1 or asm.count('OUTPUT') != 1:
        raise ExtractError('assemble: input/output must occur exactly once each')
    L.append('/-- main.c `assemble`: the assembler\'s command line (`.inl` a literal, `.inr false` the input, `.inr true` the output) -/')
    L.append('def asTemplate : List (String ⊕ Bool) := [' +
             ', '.join('.inr false' if x == 'none' else '.inr true' if x == 'OUTPUT' else f'.inl {x}' for x in asm) + ']\n')

    # ---------------------------------------------------------------- run_linker
    body = function_body(mainc, r'^static\s+void\s+run_linker\s*\(\s*StringArray\s*\*\s*inputs\s*,\s*char\s*\*\s*output\s*\)\s*\{', 'run_linker')
    st = P(tokenize(body, 'run_linker'), 'run_linker').stmts()

    def ld_items(stmts, what):
        out = []
        for s in stmts:
            if s[0] == 'block':
                out += ld_items(s[1], what)
            elif s[0] == 'expr':
                e = s[1]
                if e in ('StringArray arr={}', 'char*libpath=find_libpath()', 'char*gcc_libpath=find_gcc_libpath()'):
                    continue
                if e == 'strarray_push(&arr,NULL)' or e == 'run_subprocess(arr.data)':
                    out.append(('END', e))
                    continue
                m = re.fullmatch(r'strarray_push\(&arr,(.*)\)', e)
                if not m:
                    raise ExtractError(f'{what}: statement {e!r}')
                a = m.group(1)
                if a == 'output':
                    out.append('.output')
                elif re.fullmatch(STR, a):
                    out.append(f'.lit {lean_str(c_string(a, what))}')
                else:
                    mm = re.fullmatch(r'format\((' + STR + r'),(libpath|gcc_libpath)\)', a)
                    if not mm or c_string(mm.group(1), what).count('%') != 1 or '%s' not in c_string(mm.group(1), what):
                        raise ExtractError(f'{what}: pushed value {a!r}')
                    out.append(f'.{"libpath" if mm.group(2) == "libpath" else "gccLibpath"} {lean_str(c_string(mm.group(1), what))}')
            elif s[0] == 'for':
                b = flat(s[2])
                if s[1] == 'int i=0;i<ld_extra_args.len;i++' and b == [('expr', 'strarray_push(&arr,ld_extra_args.data[i])')]:
                    out.append('.extraArgs')
                elif s[1] == 'int i=0;i<inputs->len;i++' and b == [('expr', 'strarray_push(&arr,inputs->data[i])')]:
                    out.append('.inputs')
                else:
                    raise ExtractError(f'{what}: loop {s[1]!r}')
            elif s[0] == 'if':
                m = re.fullmatch(r'(!?)(opt_\w+)', s[1])
                if not m or m.group(2) not in flags:
                    raise ExtractError(f'{what}: condition {s[1]!r}')
                thn = ld_items([s[2]], what)
                els = ld_items([s[3]], what) if s[3] else []
                if any(isinstance(x, tuple) for x in thn + els):
                    raise ExtractError(f'{what}: the command line ends inside a conditional')
                if m.group(1):
                    if els:
                        raise ExtractError(f'{what}: `if (!flag) … else …` is not understood')
                    out.append(f'.ifNotFlag {lean_str(m.group(2))} [{", ".join(thn)}]')
                else:
                    out.append(f'.ifFlag {lean_str(m.group(2))} [{", ".join(thn)}] [{", ".join(els)}]')
            else:
                raise ExtractError(f'{what}: statement kind {s[0]}')
        return out
    items = ld_items(st, 'run_linker')
    if len(items) < 3 or items[-2:] != [('END', 'strarray_push(&arr,NULL)'), ('END', 'run_subprocess(arr.data)')] or \
            any(isinstance(x, tuple) for x in items[:-2]):
        raise ExtractError('run_linker: does not end with `strarray_push(&arr, NULL); run_subprocess(arr.data);`')
    L.append('/-- main.c `run_linker`: the linker\'s command line -/')
    L.append('def ldTemplate : List LdItem := [')
    L.append(',\n'.join('  ' + x for x in items[:-2]))
    L.append(']\n')

    # ---------------------------------------------------------------- cc1: what is written, and when
    pins = {
        'open_file': ('static FILE *open_file(char *path)',
                      'if (!path || strcmp(path, "-") == 0) return stdout; FILE *out = fopen(path, "w"); if (!out) '
                      'error("cannot open output file: %s: %s", path, strerror(errno)); return out;'),
        'close_file': ('static void close_file(FILE *out, char *path)',
                       'if (fflush(out) || ferror(out)) error("cannot write output file: %s: %s", path ? path : "-", strerror(errno)); '
                       'if (out != stdout) fclose(out);'),
        'write_file': ('static void write_file(char *path, char *buf, size_t len)',
                       'FILE *out = open_file(path); fwrite(buf, len, 1, out); close_file(out, path);'),
        'dependency_path': ('static char *dependency_path(void)',
                            'if (opt_MF) return opt_MF; if (opt_MD) return replace_extn(opt_o ? opt_o : base_file, ".d"); '
                            'if (opt_o) return opt_o; return "-";'),
        'replace_extn': ('static char *replace_extn(char *tmpl, char *extn)',
                         "char *filename = basename(strdup(tmpl)); char *dot = strrchr(filename, '.'); if (dot) *dot = '\\0'; "
                         'return format("%s%s", filename, extn);'),
        'quote_makefile': ('static char *quote_makefile(char *s)',
                           "char *buf = calloc(1, strlen(s) * 2 + 1); for (int i = 0, j = 0; s[i]; i++) { switch (s[i]) { case '$': "
                           "buf[j++] = '$'; buf[j++] = '$'; break; case '#': buf[j++] = '\\\\'; buf[j++] = '#'; break; case ' ': case '\\t': "
                           "for (int k = i - 1; k >= 0 && s[k] == '\\\\'; k--) buf[j++] = '\\\\'; buf[j++] = '\\\\'; buf[j++] = s[i]; break; "
                           "default: buf[j++] = s[i]; break; } } return buf;"),
    }
    for fn, (sig, want) in pins.items():
        got = norm_ws(function_body(mainc, '^' + re.escape(sig).replace('\\ ', r'\s*') + r'\s*\{', fn))
        if got != want:
            raise ExtractError(f'{fn} changed (Model/C14Args.lean, Model/C14Compose.lean transcribe it): {got}')
    if '#include <libgen.h>' not in read(repo, 'chibicc.h'):
        raise ExtractError('chibicc.h no longer includes <libgen.h>: basename() is then the GNU one, not the POSIX one the model transcribes')
    body = function_body(mainc, r'^static\s+void\s+cc1\s*\(\s*void\s*\)\s*\{', 'cc1')
    st = P(tokenize(body, 'cc1'), 'cc1').stmts()
    k0 = [k for k, x in enumerate(st) if x == ('expr', 'tok=preprocess(tok)')]
    if len(k0) != 1:
        raise ExtractError('cc1: `tok = preprocess(tok);` not found exactly once')
    head = canon(tokenize(body[:body.index('preprocess(tok)')], 'cc1'))
    for bad in ('write_file', 'open_file', 'print_tokens', 'fopen', 'fwrite'):
        if bad in head:
            raise ExtractError(f'cc1: {bad} before preprocess()')

    def cc1_steps(stmts, what):
        out = []
        for x in stmts:
            if x[0] == 'block':
                out += cc1_steps(x[1], what)
            elif x[0] == 'return':
                if x[1] != '':
                    raise ExtractError(f'{what}: return with a value')
                out.append('.ret')
            elif x[0] == 'if':
                atoms = x[1].split('||')
                if x[3] is not None or not all(re.fullmatch(r'opt_\w+', a) and a in flags for a in atoms):
                    raise ExtractError(f'{what}: conditional of unknown shape: if ({x[1]})')
                out.append(f'.ifAny [{", ".join(lean_str(a) for a in atoms)}] [{", ".join(cc1_steps([x[2]], what))}]')
            elif x[0] == 'expr':
                e = x[1]
                if e in ('char*deps=NULL', 'size_t deps_len=0', 'char*buf', 'size_t buflen', 'fclose(deps_buf)', 'fclose(output_buf)',
                         'FILE*deps_buf=open_memstream(&deps,&deps_len)', 'FILE*output_buf=open_memstream(&buf,&buflen)'):
                    continue
                elif e == 'print_dependencies(deps_buf)':
                    out.append('.collectDeps')
                elif e == 'write_file(dependency_path(),deps,deps_len)':
                    out.append('.writeDeps')
                elif e == 'print_tokens(tok)':
                    out.append('.printTokens')
                elif e == 'Obj*prog=parse(tok)':
                    out.append('.parse')
                elif e == 'codegen(prog,output_buf)':
                    out.append('.codegen')
                elif e == 'write_file(output_file,buf,buflen)':
                    out.append('.writeOutput')
                else:
                    raise ExtractError(f'{what}: statement of unknown shape {e!r}')
            else:
                raise ExtractError(f'{what}: statement kind {x[0]}')
        return out
    steps = cc1_steps(st[k0[0] + 1:], 'cc1 after preprocess()')
    pt = norm_ws(function_body(mainc, r'^static\s+void\s+print_tokens\s*\(\s*Token\s*\*\s*tok\s*\)\s*\{', 'print_tokens'))
    if pt.count('open_file(') != 1 or 'FILE *out = open_file(opt_o ? opt_o : "-");' not in pt or not pt.endswith('close_file(out, opt_o);'):
        raise ExtractError('print_tokens no longer opens `opt_o ? opt_o : "-"` (once) and close_file()s it last')
    pd = function_body(mainc, r'^static\s+void\s+print_dependencies\s*\(\s*FILE\s*\*\s*out\s*\)\s*\{', 'print_dependencies')
    for bad in ('open_file', 'fopen', 'write_file', 'fclose', 'close_file'):
        if re.search(r'\b' + bad + r'\s*\(', pd):
            raise ExtractError(f'print_dependencies calls {bad}: it is expected to format into the stream it is given only')
    L.append('/-- main.c `cc1` after `preprocess()`: the steps that can fail (`parse`, `codegen`) and the writes, in source order -/')
    L.append('def cc1Plan : List Cc1Step := [')
    L.append(',\n'.join('  ' + x for x in steps))
    L.append(']\n')

    # ---------------------------------------------------------------- file-system call sites
    L += file_sites(repo, mainc, strs)

    L.append('end ChibiVerif.Gen.C14Args')
    return {'C14ArgsGen.lean': '\n'.join(L) + '\n'}


def norm_ws(s):
    return re.sub(r'\s+', ' ', s).strip()


# ------------------------------------------------------------------------------------------------ file-system call sites

def top_functions(src):
    """(name, params-text, body) of every function definition at file scope"""
    out = []
    for m in re.finditer(r'^[A-Za-z_][\w\s\*]*?\b([A-Za-z_]\w*)\s*\(([^;{}()]*(?:\([^()]*\)[^;{}()]*)*)\)\s*\{', src, re.M):
        name = m.group(1)
        if name in ('if', 'for', 'while', 'switch'):
            continue
        i = m.end() - 1
        depth, j = 0, i
        while j < len(src):
            c = src[j]
            if c == '"' or c == "'":
                q = c
                j += 1
                while src[j] != q:
                    if src[j] == '\\':
                        j += 1
                    j += 1
            elif c == '{':
                depth += 1
            elif c == '}':
                depth -= 1
                if depth == 0:
                    break
            j += 1
        out.append((name, m.group(2), src[i + 1:j]))
    return out

def call_args(text, callee):
    """argument texts (canonical) of every call `callee(…)` in text"""
    res = []
    for m in re.finditer(r'(?<![\w>.])' + re.escape(callee) + r'\s*\(', text):
        i = m.end()
        depth, start, args = 1, i, []
        while depth:
            c = text[i]
            if c == '"' or c == "'":
                q = c
                i += 1
                while text[i] != q:
                    if text[i] == '\\':
                        i += 1
                    i += 1
            elif c in '([{':
                depth += 1
            elif c in ')]}':
                depth -= 1
                if depth == 0:
                    args.append(text[start:i])
            elif c == ',' and depth == 1:
                args.append(text[start:i])
                start = i + 1
            i += 1
        res.append([canon(tokenize(a, callee)) for a in args if a.strip() != ''])
    return res

def file_sites(repo, mainc, strs):
    sites = []          # (fn, callee, kind, [origins])
    funcs = {name: (params, body) for name, params, body in top_functions(mainc)}
    for need in ('open_file', 'create_tmpfile', 'cleanup', 'assemble', 'run_cc1', 'run_linker', 'main', 'cc1', 'print_tokens',
                 'print_dependencies', 'parse_args'):
        if need not in funcs:
            raise ExtractError(f'main.c: function {need} not found')
    # the char* option variables are assigned in parse_args only (so they hold command-line words or NULL)
    for fn, (params, body) in funcs.items():
        if fn == 'parse_args':
            continue
        for v in strs:
            if re.search(r'(?<![\w.>])' + re.escape(v) + r'\s*=[^=]', body):
                raise ExtractError(f'main.c: {v} is assigned outside parse_args (in {fn})')

    def params_of(fn):
        ps = [p.strip() for p in funcs[fn][0].split(',') if p.strip() and p.strip() != 'void']
        return [re.search(r'(\w+)\s*$', p).group(1) for p in ps]

    def local_values(fn, var):
        """canonical right-hand sides of every assignment / initialisation of local `var` in fn"""
        body = funcs[fn][1]
        vals = []
        for m in re.finditer(r'(?<![\w.>])' + re.escape(var) + r'\s*=(?!=)\s*([^;]*);', body):
            vals.append(canon(tokenize(m.group(1), fn)))
        return vals

    def origins(fn, e, depth=0):
        if depth > 4:
            raise ExtractError(f'{fn}: provenance of {e!r} is too deep')
        if e in ('NULL',):
            return ['.stdout']
        if re.fullmatch(STR, e):
            s = c_string(e, fn)
            return ['.stdout'] if s == '-' else [f'.fixedName {lean_str(s)}']
        if e in strs:
            return [f'.userOpt {lean_str(e)}']
        if e == 'tmpfiles.data[i]':
            return ['.tmpfilesEntry']
        if e == 'input_paths.data[i]':
            return ['.inputArg']
        if e == 'create_tmpfile()':
            return ['.tempVar']
        m = re.fullmatch(r'(\w+)\(\)', e)
        if m and m.group(1) in funcs and params_of(m.group(1)) == []:
            rets = re.findall(r'\breturn\s+([^;]+);', funcs[m.group(1)][1])
            if not rets:
                raise ExtractError(f'{fn}: {e} returns nothing')
            out = []
            for r in rets:
                out += origins(m.group(1), canon(tokenize(r, m.group(1))), depth + 1)
            return sorted(set(out))
        m = re.fullmatch(r'strdup\((' + STR + r')\)', e)
        if m:
            return [f'.mkstempTemplate {lean_str(c_string(m.group(1), fn))}']
        m = re.fullmatch(r'(\w+)\?(.+):(.+)', e)
        if m and m.group(1) in strs:
            return sorted(set(origins(fn, m.group(2), depth + 1) + origins(fn, m.group(3), depth + 1)))
        m = re.fullmatch(r'replace_extn\((.+),(' + STR + r')\)', e)
        if m:
            inner = origins(fn, m.group(1), depth + 1)
            for o in inner:
                if not (o.startswith('.userOpt') or o == '.inputArg'):
                    raise ExtractError(f'{fn}: replace_extn applied to {o}')
            return [f'.derived {lean_str(c_string(m.group(2), fn))}']
        if re.fullmatch(r'\w+', e):
            ps = params_of(fn)
            if e in ps:
                return [f'.param {lean_str(fn)} {ps.index(e)}']
            vals = local_values(fn, e)
            if not vals:
                raise ExtractError(f'{fn}: no assignment to {e} found')
            out = []
            for v in vals:
                out += origins(fn, v, depth + 1)
            return sorted(set(out))
        raise ExtractError(f'{fn}: path expression of unknown shape {e!r}')

    # (1) libc calls in every source file
    sources = sorted(os.path.basename(f) for f in glob.glob(os.path.join(repo, '*.c')))
    if 'main.c' not in sources:
        raise ExtractError('main.c not found')
    for src in ['main.c'] + [f for f in sources if f != 'main.c']:
        text = mainc if src == 'main.c' else strip_comments(read(repo, src))
        for name, params, body in top_functions(text):
            for callee in FS_CALLS:
                for args in call_args(body, callee):
                    if src != 'main.c':
                        # outside main.c only opening for reading is understood (tokenize.c read_file)
                        pnames = [re.search(r'(\w+)\s*$', p.strip()).group(1) for p in params.split(',')
                                  if p.strip() and p.strip() != 'void']
                        if callee == 'fopen' and len(args) == 2 and args[1] == '"r"' and args[0] in pnames:
                            sites.append((f'{src}:{name}', 'fopen', '.read', [f'.param {lean_str(name)} {pnames.index(args[0])}']))
                            continue
                        raise ExtractError(f'{src}:{name}: call of {callee}({", ".join(args)}) outside main.c')
                    if callee == 'fopen':
                        if len(args) != 2 or args[1] not in ('"w"', '"r"'):
                            raise ExtractError(f'main.c:{name}: fopen mode {args[1:]!r}')
                        sites.append((name, 'fopen', '.write' if args[1] == '"w"' else '.read', origins(name, args[0])))
                    elif callee == 'mkstemp':
                        sites.append((name, 'mkstemp', '.create', origins(name, args[0])))
                    elif callee == 'unlink':
                        sites.append((name, 'unlink', '.remove', origins(name, args[0])))
                    else:
                        raise ExtractError(f'main.c:{name}: call of {callee}({", ".join(args)}) is not understood')
    # (2) main.c's own wrappers: open_file (and every function that hands one of its parameters on to it), the three
    #     functions that put a path on a child's command line, and the push onto tmpfiles
    work = [('open_file', 0, '.write'), ('assemble', 0, '.read'), ('assemble', 1, '.write'), ('run_cc1', 2, '.read'),
            ('run_cc1', 3, '.write'), ('run_linker', 1, '.write')]
    done = set()
    while work:
        f, k, kind = work.pop(0)
        if (f, k) in done:
            continue
        done.add((f, k))
        for name, (params, body) in funcs.items():
            for args in call_args(body, f):
                if k >= len(args):
                    raise ExtractError(f'main.c:{name}: call of {f} with {len(args)} arguments')
                org = origins(name, args[k])
                sites.append((name, f, kind, org))
                for o in org:
                    m = re.fullmatch(r'\.param "(\w+)" (\d+)', o)
                    if m:
                        work.append((m.group(1), int(m.group(2)), kind))
    for name, (params, body) in funcs.items():
        for args in call_args(body, 'strarray_push'):
            if args and args[0] == '&tmpfiles':
                sites.append((name, 'strarray_push(&tmpfiles)', '.record', origins(name, args[1])))
    # create_tmpfile: mkstemp on the template, the SAME variable recorded and returned
    ct = norm_ws(funcs['create_tmpfile'][1])
    if not re.fullmatch(r'char \*path = strdup\(' + STR + r'\); int fd = mkstemp\(path\); if \(fd == -1\) error\("mkstemp failed: %s", strerror\(errno\)\); '
                        r'close\(fd\); strarray_push\(&tmpfiles, path\); return path;', ct):
        raise ExtractError('create_tmpfile changed shape: ' + ct)
    cl = norm_ws(funcs['cleanup'][1])
    if cl != 'for (int i = 0; i < tmpfiles.len; i++) unlink(tmpfiles.data[i]);':
        raise ExtractError('cleanup changed shape: ' + cl)
    if not re.search(r'\batexit\s*\(\s*cleanup\s*\)\s*;', funcs['main'][1]):
        raise ExtractError('main does not register cleanup with atexit')
    L = ['/-- every call in the compiler\'s sources that creates, opens, removes or hands to a child the name of a file, with the provenance',
         '    of the path operand (libc calls in all .c files; main.c\'s wrappers open_file / assemble / run_cc1 / run_linker / create_tmpfile) -/',
         'def fileSites : List FileSite := [']
    rows = []
    for fn, callee, kind, org in sites:
        rows.append(f'  ⟨{lean_str(fn)}, {lean_str(callee)}, {kind}, [{", ".join(org)}]⟩')
    L.append(',\n'.join(rows))
    L.append(']\n')
    return L
