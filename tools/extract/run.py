#!/usr/bin/env python3
"""usage: run.py <repo-snapshot> <out-dir> [module ...]
Regenerates lean/ChibiVerif/Gen/*.lean from the snapshot.  Prints one line per file:
  same <file> | changed <file> | error <module> <message>"""
import sys, os, importlib
sys.path.insert(0, os.path.dirname(os.path.abspath(__file__)))
from common import ExtractError, write_if_changed

MODULES = ['hashmap', 'literals', 'declspec', 'commontype', 'casttable', 'lexgen', 'consteval', 'pp', 'envreads', 'c10incl', 'addrforms', 'templates', 'funcall', 'fpliteral', 'c14args', 'c12audit', 'retstmt', 'c10ifparse', 'strjoin']

def main():
    repo, out = sys.argv[1], sys.argv[2]
    mods = sys.argv[3:] or MODULES
    rc = 0
    for name in mods:
        try:
            mod = importlib.import_module(name)
            files = mod.generate(repo)
        except ExtractError as e:
            print(f'error {name} {e}')
            rc = 2
            continue
        for fn, content in files.items():
            path = os.path.join(out, fn)
            old = open(path).read() if os.path.exists(path) else None
            if old == content:
                print(f'same {fn}')
            else:
                os.makedirs(out, exist_ok=True)
                with open(path, 'w') as f:
                    f.write(content)
                print(f'changed {fn}')
    sys.exit(rc)

if __name__ == '__main__':
    main()
