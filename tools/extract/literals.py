"""unicode.c / tokenize.c / type.c -> Gen/LiteralsGen.lean, Gen/LitReadersGen.lean, Gen/PpNumGen.lean  (property C11)

Translated (regenerated on every check run, compared with the committed cache):
  unicode.c   encode_utf8, decode_utf8 (arithmetic, thresholds, masks), is_ident1/is_ident2 range tables
  tokenize.c  from_hex, read_escaped_char (octal arm, hexadecimal arm and its loop), read_universal_char, string_literal_end:
              whole functions, statement by statement (cursor.py), into Gen/LitReadersGen.lean;
              read_string_literal, read_utf16_string_literal, read_utf32_string_literal, read_char_literal: prologue and
              epilogue by shape, the loop bodies statement by statement (calls with `&p` bind value and new position);
              canonicalize_newline, remove_backslash_newline, convert_universal_chars: whole functions with the exact
              semantics of the in-place array rewriting (every store threaded through the buffer, a store outside the
              text is `none`), same file;
              read_utf16_string_literal surrogate arithmetic; convert_pp_int: base-prefix ladder, suffix ladder (as tables, for the
              hand model) and the type ladder with the `>> 31`, `>> 32`, `>> 63` tests exactly as written (limit macros such as
              UINT32_MAX get the value and type of the host preprocessor's expansion); convert_pp_number suffix -> type;
              read_escaped_char simple-escape switch (values as the host compiler evaluates them: clang-14 AST);
              per-prefix dispatch of tokenize() (reader, element type, post-processing of character constants);
              into Gen/PpNumGen.lean: convert_pp_int AS A WHOLE, statement by statement (cursor.LadderFn: each if-ladder is a
              function from the cursor to (new cursor, assigned locals); `strtoul` is a parameter of the Lean function; the
              whole-token test; the type ladder above; `tok->val`, `tok->ty`); the pp-number arm of tokenize() (start test and
              the `for (;;)` scan loop, cursor.ScanFn); tokenize_file from clang-14's typed AST (BOM `memcmp` with its literal
              and lengths, the phase calls in order, nothing else touches the text before tokenize(new_file(.., p)))
  type.c      size / signedness of the ty_* objects used above
Pinned (hand-modelled in Model/Literals.lean, Model/Text.lean; the translator only checks that the source text still has
the shape the hand model was written after, and raises ExtractError otherwise):
  startswith, parse.c string_initializer.
Translated by strjoin.py into Gen/StrJoinGen.lean (no longer pinned here): tokenize_string_literal, preprocess.c getStringKind /
  join_adjacent_string_literals, read_file's tail; the hand model of Model/Literals.lean is proved equal (C11_translated_join).
"""
import re, hashlib
from common import *
import cmini
from cmini import Emitter, parse_body, unblock
import cursor


def norm(s):
    return re.sub(r'\s+', ' ', s).strip()


def fn_body(src, name, sig):
    return function_body(src, sig, name)


# ------------------------------------------------------------------ unicode.c

def gen_encode(src):
    body = fn_body(src, 'encode_utf8', r'^int\s+encode_utf8\s*\(\s*char\s*\*\s*buf\s*,\s*uint32_t\s+c\s*\)\s*\{')
    stmts = parse_body(body)
    em = Emitter({'c': ('c', 'u32')})

    def arm(items, what):
        """[buf[0] = e0; ...; buf[n-1] = e(n-1); return n;] -> list of lean byte expressions"""
        if not items or items[-1][0] != 'ret' or items[-1][1] is None or items[-1][1][0] != 'num':
            raise ExtractError(f'encode_utf8: {what} does not end in `return <literal>`')
        n = items[-1][1][1]
        outs = []
        for k, s in enumerate(items[:-1]):
            if s[0] != 'expr' or s[1][0] != 'assign' or s[1][1] != '=':
                raise ExtractError(f'encode_utf8: {what}: statement {k} is not an assignment')
            lhs, rhs = s[1][2], s[1][3]
            if lhs != ('idx', ('id', 'buf'), ('num', k, '')):
                raise ExtractError(f'encode_utf8: {what}: expected an assignment to buf[{k}]')
            txt, ty = em.value(rhs)
            if cmini.WIDTH[ty] != 32:
                raise ExtractError('encode_utf8: 64-bit arithmetic not expected')
            outs.append(f'({txt}).setWidth 8')
        if len(outs) != n:
            raise ExtractError(f'encode_utf8: {what}: returns {n} but writes {len(outs)} bytes')
        return outs

    arms = []
    i = 0
    while i < len(stmts) and stmts[i][0] == 'if':
        s = stmts[i]
        if s[3] is not None:
            raise ExtractError('encode_utf8: if with else')
        arms.append((em.cond(s[1]), arm(unblock(s[2]), f'arm {i}')))
        i += 1
    last = arm(stmts[i:], 'final arm')
    out = '/-- unicode.c `encode_utf8`: `c` is `uint32_t`, each `buf[k] = e` truncates the 32-bit value to `char` -/\n'
    out += 'def encodeUtf8 (c : BitVec 32) : List (BitVec 8) :=\n'
    lead = '  '
    for cnd, bs in arms:
        out += f'{lead}if {cnd} then [{", ".join(bs)}]\n'
        lead = '  else '
    out += f'{lead}[{", ".join(last)}]\n'
    return out


def gen_decode(src):
    body = fn_body(src, 'decode_utf8', r'^uint32_t\s+decode_utf8\s*\(\s*char\s*\*\*\s*new_pos\s*,\s*char\s*\*\s*p\s*\)\s*\{')
    st = parse_body(body)

    def index_at(var):
        def index(e):
            # *p  or p[k] / p[i]
            if e == ('un', '*', ('id', 'p')):
                return 'byteAt p 0', 'char'
            if e[0] == 'idx' and e[1] == ('id', 'p'):
                if e[2][0] == 'num':
                    return f'byteAt p {e[2][1]}', 'char'
                if e[2] == ('id', 'i') and var:
                    return 'byteAt p i', 'char'
            raise ExtractError(f'decode_utf8: memory access {e} not understood')
        return index

    em0 = Emitter({}, index_at(False))
    want = "decode_utf8 has a shape the translator does not understand: "
    if len(st) != 8:
        raise ExtractError(want + f'{len(st)} top-level statements')
    # 0: if (ASCII) { *new_pos = p + 1; return *p; }
    s0 = st[0]
    if s0[0] != 'if' or s0[3] is not None:
        raise ExtractError(want + 'first statement')
    b0 = unblock(s0[2])
    if (len(b0) != 2 or b0[0] != ('expr', ('assign', '=', ('un', '*', ('id', 'new_pos')), ('bin', '+', ('id', 'p'), ('num', 1, ''))))
            or b0[1] != ('ret', ('un', '*', ('id', 'p')))):
        raise ExtractError(want + 'ASCII arm')
    cond0 = em0.cond(s0[1])
    ret0, rty = em0.value(('un', '*', ('id', 'p')))          # int, converted to uint32_t by return
    # 1-3: char *start = p; int len; uint32_t c;
    if st[1] != ('decl', 'char*', 'start', ('id', 'p')) or st[2] != ('decl', 'int', 'len', None) or st[3] != ('decl', 'uint32_t', 'c', None):
        raise ExtractError(want + 'declarations')
    # 4: if-else chain
    arms = []
    s = st[4]
    while True:
        if s[0] != 'if':
            raise ExtractError(want + 'lead-byte ladder')
        b = unblock(s[2])
        if (len(b) != 2 or b[0][0] != 'expr' or b[0][1][:3] != ('assign', '=', ('id', 'len')) or b[0][1][3][0] != 'num'
                or b[1][0] != 'expr' or b[1][1][:3] != ('assign', '=', ('id', 'c'))):
            raise ExtractError(want + 'lead-byte arm')
        ln = b[0][1][3][1]
        ctxt, cty = em0.value(b[1][1][3])
        if cmini.WIDTH[cty] != 32:
            raise ExtractError(want + '64-bit value')
        arms.append((em0.cond(s[1]), ln, ctxt))
        if s[3] is None:
            raise ExtractError(want + 'ladder without final else')
        if s[3][0] == 'if':
            s = s[3]
            continue
        e = unblock(s[3])
        if len(e) != 1 or e[0][0] != 'expr' or e[0][1][0] != 'call' or e[0][1][1] != 'error_at':
            raise ExtractError(want + 'final else is not error_at')
        break
    # 5: for (int i = 1; i < len; i++) { if (C) error_at(..); c = E; }
    f = st[5]
    if (f[0] != 'for' or f[1] != ('decl', 'int', 'i', ('num', 1, '')) or f[2] != ('bin', '<', ('id', 'i'), ('id', 'len'))
            or f[3] != ('postinc', ('id', 'i'))):
        raise ExtractError(want + 'continuation loop header')
    fb = unblock(f[4])
    if (len(fb) != 2 or fb[0][0] != 'if' or fb[0][3] is not None or unblock(fb[0][2])[0][1][0] != 'call'
            or unblock(fb[0][2])[0][1][1] != 'error_at' or fb[1][0] != 'expr' or fb[1][1][:3] != ('assign', '=', ('id', 'c'))):
        raise ExtractError(want + 'continuation loop body')
    em1 = Emitter({'c': ('c', 'u32')}, index_at(True))
    ccond = em1.cond(fb[0][1])
    cstep, sty = em1.value(fb[1][1][3])
    if sty != 'u32':
        raise ExtractError(want + 'loop value type')
    # 6,7
    if (st[6] != ('expr', ('assign', '=', ('un', '*', ('id', 'new_pos')), ('bin', '+', ('id', 'p'), ('id', 'len'))))
            or st[7] != ('ret', ('id', 'c'))):
        raise ExtractError(want + 'tail')
    out = '/-- `p[i]` for a NUL-terminated text given without its terminator: index `length` reads the terminator.\n'
    out += '    (No translated function reads further: a NUL is never a continuation byte, so the loop stops there.) -/\n'
    out += 'def byteAt (p : List (BitVec 8)) (i : Nat) : BitVec 8 := p.getD i 0#8\n\n'
    out += 'inductive DecodeErr | invalidUtf8\n  deriving DecidableEq, Repr\n\n'
    out += '/-- unicode.c `decode_utf8`, lead-byte ladder: sequence length and initial value, `none` = `error_at` -/\n'
    out += 'def decodeLead (p : List (BitVec 8)) : Option (Nat × BitVec 32) :=\n'
    lead = '  '
    for cnd, ln, c in arms:
        out += f'{lead}if {cnd} then some ({ln}, {c})\n'
        lead = '  else '
    out += f'{lead}none\n\n'
    out += '/-- unicode.c `decode_utf8`, loop `for (int i = 1; i < len; i++)`: `fuel = len - i` -/\n'
    out += 'def decodeCont (p : List (BitVec 8)) : Nat → Nat → BitVec 32 → Except DecodeErr (BitVec 32)\n'
    out += '  | 0, _, c => .ok c\n'
    out += f'  | fuel + 1, i, c =>\n    if {ccond} then .error .invalidUtf8\n    else decodeCont p fuel (i + 1) ({cstep})\n\n'
    out += '/-- unicode.c `decode_utf8`: the code point and `*new_pos - p` -/\n'
    out += 'def decodeUtf8 (p : List (BitVec 8)) : Except DecodeErr (BitVec 32 × Nat) :=\n'
    out += f'  if {cond0} then .ok ({ret0}, 1)\n'
    out += '  else match decodeLead p with\n    | none => .error .invalidUtf8\n'
    out += '    | some (len, c) => (decodeCont p (len - 1) 1 c).map (fun c => (c, len))\n'
    return out


def char_or_int(tok):
    tok = tok.strip()
    m = re.fullmatch(r"'([ -&(-\[\]-~])'", tok)
    if m:
        return ord(m.group(1))
    if tok == '-1':
        return -1
    if re.fullmatch(r'0[xX][0-9a-fA-F]+|\d+', tok):
        return c_int(tok)
    raise ExtractError(f'range table entry {tok!r} not understood')


def gen_ranges(src):
    ir = fn_body(src, 'in_range', r'^static\s+bool\s+in_range\s*\(\s*uint32_t\s*\*\s*range\s*,\s*uint32_t\s+c\s*\)\s*\{')
    if norm(ir) != 'for (int i = 0; range[i] != -1; i += 2) if (range[i] <= c && c <= range[i + 1]) return true; return false;':
        raise ExtractError('in_range has a shape the translator does not understand: ' + norm(ir))
    out = '/-- unicode.c `in_range`: some pair `(lo, hi)` of the table has `lo ≤ c ∧ c ≤ hi` (`uint32_t` comparison) -/\n'
    out += 'def inRange (t : List (Nat × Nat)) (c : Nat) : Bool := t.any (fun r => r.1 ≤ c && c ≤ r.2)\n\n'
    tabs = {}
    for fn in ('is_ident1', 'is_ident2'):
        b = fn_body(src, fn, r'^bool\s+' + fn + r'\s*\(\s*uint32_t\s+c\s*\)\s*\{')
        m = re.fullmatch(r'static uint32_t range\[\] = \{(.*?),? ?\}; return (.*);', norm(b))
        if not m:
            raise ExtractError(f'{fn} has a shape the translator does not understand')
        vals = [char_or_int(x) for x in m.group(1).split(',') if x.strip()]
        if not vals or vals[-1] != -1 or -1 in vals[:-1] or len(vals) % 2 != 1:
            raise ExtractError(f'{fn}: range table is not a list of pairs terminated by -1')
        vals = vals[:-1]
        tabs[fn] = ([(vals[i], vals[i + 1]) for i in range(0, len(vals), 2)], m.group(2))
    if tabs['is_ident1'][1] != 'in_range(range, c)':
        raise ExtractError('is_ident1: return expression ' + tabs['is_ident1'][1])
    if tabs['is_ident2'][1] != 'is_ident1(c) || in_range(range, c)':
        raise ExtractError('is_ident2: return expression ' + tabs['is_ident2'][1])

    def table(name, pairs):
        s = f'def {name} : List (Nat × Nat) := [\n'
        for i in range(0, len(pairs), 6):
            s += '  ' + ', '.join(f'(0x{a:X}, 0x{b:X})' for a, b in pairs[i:i + 6]) + (',\n' if i + 6 < len(pairs) else '\n')
        return s + ']\n\n'
    out += table('ident1Ranges', tabs['is_ident1'][0])
    out += table('ident2Ranges', tabs['is_ident2'][0])
    out += '/-- unicode.c `is_ident1` -/\ndef isIdent1 (c : Nat) : Bool := inRange ident1Ranges c\n\n'
    out += '/-- unicode.c `is_ident2` -/\ndef isIdent2 (c : Nat) : Bool := isIdent1 c || inRange ident2Ranges c\n'
    return out


# ------------------------------------------------------------------ tokenize.c

def gen_utf16(src):
    body = fn_body(src, 'read_utf16_string_literal',
                   r'^static\s+Token\s*\*\s*read_utf16_string_literal\s*\(\s*char\s*\*\s*start\s*,\s*char\s*\*\s*quote\s*\)\s*\{')
    st = parse_body(body)
    want = 'read_utf16_string_literal has a shape the translator does not understand: '
    if (len(st) != 8 or st[0] != ('decl', 'char*', 'end', ('call', 'string_literal_end', [('bin', '+', ('id', 'quote'), ('num', 1, ''))]))
            or st[1] != ('decl', 'uint16_t*', 'buf', ('call', 'calloc', [('num', 2, ''), ('bin', '-', ('id', 'end'), ('id', 'start'))]))
            or st[2] != ('decl', 'int', 'len', ('num', 0, ''))):
        raise ExtractError(want + 'prologue')
    f = st[3]
    if (f[0] != 'for' or f[1] != ('decl', 'char*', 'p', ('bin', '+', ('id', 'quote'), ('num', 1, '')))
            or f[2] != ('bin', '<', ('id', 'p'), ('id', 'end')) or f[3] is not None):
        raise ExtractError(want + 'loop header')
    fb = unblock(f[4])
    push = lambda e: ('expr', ('assign', '=', ('idx', ('id', 'buf'), ('postinc', ('id', 'len'))), e))
    esc = ('if', ('bin', '==', ('un', '*', ('id', 'p')), ('chr', 92)),
           ('block', [push(('call', 'read_escaped_char', [('un', '&', ('id', 'p')), ('bin', '+', ('id', 'p'), ('num', 1, ''))])),
                      ('continue',)]), None)
    if len(fb) != 3 or fb[0] != esc or fb[1] != ('decl', 'uint32_t', 'c', ('call', 'decode_utf8', [('un', '&', ('id', 'p')), ('id', 'p')])):
        raise ExtractError(want + 'loop body')
    br = fb[2]
    if br[0] != 'if' or br[3] is None:
        raise ExtractError(want + 'BMP test')
    em = Emitter({'c': ('c', 'u32')})
    cond = em.cond(br[1])
    one = unblock(br[2])
    if one != [push(('id', 'c'))]:
        raise ExtractError(want + 'one-unit arm')
    two = unblock(br[3])
    if (len(two) != 3 or two[0][0] != 'expr' or two[0][1][:3] != ('assign', '-=', ('id', 'c'))
            or any(s[0] != 'expr' or s[1][:3] != ('assign', '=', ('idx', ('id', 'buf'), ('postinc', ('id', 'len')))) for s in two[1:])):
        raise ExtractError(want + 'surrogate arm')
    sub, sty = em.value(two[0][1][3])
    em2 = Emitter({'c': ('c1', 'u32')})
    hi, hty = em2.value(two[1][1][3])
    lo, lty = em2.value(two[2][1][3])
    if cmini.WIDTH[sty] != 32 or cmini.WIDTH[hty] != 32 or cmini.WIDTH[lty] != 32:
        raise ExtractError(want + '64-bit arithmetic')
    tail = [norm_stmt for norm_stmt in st[4:]]
    if (st[4] != ('decl', 'Token*', 'tok', ('call', 'new_token', [('id', 'TK_STR'), ('id', 'start'), ('bin', '+', ('id', 'end'), ('num', 1, ''))]))
            or st[5] != ('expr', ('assign', '=', ('mem', '->', ('id', 'tok'), 'ty'),
                                  ('call', 'array_of', [('id', 'ty_ushort'), ('bin', '+', ('id', 'len'), ('num', 1, ''))])))):
        raise ExtractError(want + 'epilogue')
    out = '/-- tokenize.c `read_utf16_string_literal`, the code units stored for one decoded code point\n'
    out += '    (`uint32_t` arithmetic, each `buf[len++] = e` truncates to `uint16_t`) -/\n'
    out += 'def utf16Units (c : BitVec 32) : List (BitVec 16) :=\n'
    out += f'  if {cond} then [(c).setWidth 16]\n  else\n    let c1 : BitVec 32 := c - ({sub})\n'
    out += f'    [({hi}).setWidth 16, ({lo}).setWidth 16]\n'
    return out


TY_KNOWN = ['ty_bool', 'ty_char', 'ty_short', 'ty_int', 'ty_long', 'ty_uchar', 'ty_ushort', 'ty_uint', 'ty_ulong',
            'ty_float', 'ty_double', 'ty_ldouble']


def gen_types(tsrc):
    out = '/-- the `ty_*` objects of type.c that literals can get -/\ninductive Ty\n'
    for t in TY_KNOWN:
        out += f'  | {t}\n'
    out += '  deriving DecidableEq, Repr\n\n'
    info = {}
    for t in TY_KNOWN:
        m = must(r'^Type \*' + t + r' = &\(Type\)\{(TY_\w+), (\d+), (\d+)(?:, (true))?\};', tsrc, f'type.c {t}', re.M)
        info[t] = (m.group(1), int(m.group(2)), int(m.group(3)), bool(m.group(4)))
    out += '/-- type.c: `size` of each object -/\ndef Ty.size : Ty → Nat\n'
    for t in TY_KNOWN:
        out += f'  | .{t} => {info[t][1]}\n'
    out += '\n/-- type.c: `is_unsigned` of each object -/\ndef Ty.isUnsigned : Ty → Bool\n'
    for t in TY_KNOWN:
        out += f'  | .{t} => {"true" if info[t][3] else "false"}\n'
    out += '\n/-- type.c: `kind` of each object -/\ndef Ty.kind : Ty → String\n'
    for t in TY_KNOWN:
        out += f'  | .{t} => "{info[t][0]}"\n'
    return out + '\n'


def lean_str(s):
    """a C string as the list of its bytes (kernel-reducible, unlike `String`); the spelling goes into a comment"""
    return '[' + ', '.join(str(ord(c)) for c in s) + ']'


def spell(s):
    return '"' + s.replace('-/', '- /') + '"'


def gen_pp_int(src):
    body = fn_body(src, 'convert_pp_int', r'^static\s+bool\s+convert_pp_int\s*\(\s*Token\s*\*\s*tok\s*\)\s*\{')
    st = parse_body(body)
    want = 'convert_pp_int has a shape the translator does not understand: '
    if len(st) != 14:
        raise ExtractError(want + f'{len(st)} top-level statements')
    if st[0] != ('decl', 'char*', 'p', ('mem', '->', ('id', 'tok'), 'loc')) or st[1][:3] != ('decl', 'int', 'base') or st[1][3][0] != 'num':
        raise ExtractError(want + 'prologue')
    default_base = st[1][3][1]

    # ---- base-prefix ladder
    def strtest(e):
        """!strncasecmp(p, "xx", n) | startswith(p, "xx") | *p == 'c'  -> (text, case_insensitive)"""
        if e[0] == 'un' and e[1] == '!' and e[2][0] == 'call' and e[2][1] == 'strncasecmp':
            a = e[2][2]
            if len(a) == 3 and a[0] == ('id', 'p') and a[1][0] == 'str' and a[2] == ('num', len(a[1][1]), ''):
                return a[1][1], True
        if e[0] == 'call' and e[1] == 'startswith' and len(e[2]) == 2 and e[2][0] == ('id', 'p') and e[2][1][0] == 'str':
            return e[2][1][1], False
        if e[0] == 'bin' and e[1] == '==' and e[2] == ('un', '*', ('id', 'p')) and e[3][0] == 'chr':
            return chr(e[3][1]), False
        raise ExtractError(want + f'string test {e}')

    def next_test(e, k):
        """isxdigit(p[k]) | p[k] == 'a' || p[k] == 'b' ...  -> lean NextByte"""
        if e == ('call', 'isxdigit', [('idx', ('id', 'p'), ('num', k, ''))]):
            return '.xdigit'
        alts = []
        def flat(x):
            if x[0] == 'bin' and x[1] == '||':
                flat(x[2]); flat(x[3])
            elif x[0] == 'bin' and x[1] == '==' and x[2] == ('idx', ('id', 'p'), ('num', k, '')) and x[3][0] == 'chr':
                alts.append(x[3][1])
            else:
                raise ExtractError(want + f'prefix follow test {x}')
        flat(e)
        return '.oneOf [' + ', '.join(str(a) for a in alts) + ']'

    prefixes = []
    s = st[2]
    while s is not None:
        if s[0] != 'if':
            raise ExtractError(want + 'base ladder')
        c = s[1]
        b = unblock(s[2])
        if c[0] == 'bin' and c[1] == '&&':
            txt, ci = strtest(c[2])
            nxt = next_test(c[3], len(txt))
        else:
            txt, ci = strtest(c)
            nxt = '.any'
        skip = 0
        base = None
        for a in b:
            if a[0] == 'expr' and a[1][:3] == ('assign', '+=', ('id', 'p')) and a[1][3][0] == 'num':
                skip += a[1][3][1]
            elif a[0] == 'expr' and a[1][:3] == ('assign', '=', ('id', 'base')) and a[1][3][0] == 'num':
                base = a[1][3][1]
            else:
                raise ExtractError(want + f'base arm statement {a}')
        if base is None:
            raise ExtractError(want + 'base arm without base')
        prefixes.append((txt, ci, nxt, skip, base))
        s = s[3]
    if st[3] != ('decl', 'int64_t', 'val', ('call', 'strtoul', [('id', 'p'), ('un', '&', ('id', 'p')), ('id', 'base')])):
        raise ExtractError(want + 'strtoul call')
    if st[4] != ('decl', 'bool', 'l', ('id', 'false')) or st[5] != ('decl', 'bool', 'u', ('id', 'false')):
        raise ExtractError(want + 'l/u declarations')

    # ---- suffix ladder
    sufarms = []
    s = st[6]
    while s is not None:
        if s[0] != 'if':
            raise ExtractError(want + 'suffix ladder')
        pats = []
        def flat(x):
            if x[0] == 'bin' and x[1] == '||':
                flat(x[2]); flat(x[3])
            else:
                pats.append(strtest(x))
        flat(s[1])
        skip = 0
        l = u = False
        for a in unblock(s[2]):
            if a == ('expr', ('postinc', ('id', 'p'))):
                skip += 1
            elif a[0] == 'expr' and a[1][:3] == ('assign', '+=', ('id', 'p')) and a[1][3][0] == 'num':
                skip += a[1][3][1]
            elif a == ('expr', ('assign', '=', ('id', 'l'), ('assign', '=', ('id', 'u'), ('id', 'true')))):
                l = u = True
            elif a == ('expr', ('assign', '=', ('id', 'l'), ('id', 'true'))):
                l = True
            elif a == ('expr', ('assign', '=', ('id', 'u'), ('id', 'true'))):
                u = True
            else:
                raise ExtractError(want + f'suffix arm statement {a}')
        for t, _ in pats:
            if len(t) != skip:
                raise ExtractError(want + f'suffix pattern {t!r} skips {skip} bytes')
        sufarms.append((pats, skip, l, u))
        s = s[3]
    chk = ('if', ('bin', '!=', ('id', 'p'), ('bin', '+', ('mem', '->', ('id', 'tok'), 'loc'), ('mem', '->', ('id', 'tok'), 'len'))),
           ('ret', ('id', 'false')), None)
    if st[7] != chk or st[8] != ('decl', 'Type*', 'ty', None):
        raise ExtractError(want + 'whole-token test')

    # ---- type ladder
    em = Emitter(dict(host_limit_macros(body), val=('val', 'i64'), l=('l', 'bool'), u=('u', 'bool'), base=('base', 'nat')))

    def ty_expr(e, ind):
        if e[0] == 'id' and e[1] in TY_KNOWN:
            return f'.{e[1]}'
        if e[0] == 'cond':
            return f'if {em.cond(e[1])} then {ty_expr(e[2], ind)} else {ty_expr(e[3], ind)}'
        raise ExtractError(want + f'type expression {e}')

    def ladder(s, ind):
        items = unblock(s)
        if len(items) != 1:
            raise ExtractError(want + 'type ladder arm with several statements')
        s = items[0]
        pad = '  ' * ind
        if s[0] == 'if':
            if s[3] is None:
                raise ExtractError(want + 'type ladder: if without else')
            return f'if {em.cond(s[1])} then\n{pad}  {ladder(s[2], ind + 1)}\n{pad}else\n{pad}  {ladder(s[3], ind + 1)}'
        if s[0] == 'expr' and s[1][:3] == ('assign', '=', ('id', 'ty')):
            return ty_expr(s[1][3], ind)
        raise ExtractError(want + f'type ladder statement {s}')

    lad = ladder(st[9], 1)
    tail = [('expr', ('assign', '=', ('mem', '->', ('id', 'tok'), 'kind'), ('id', 'TK_NUM'))),
            ('expr', ('assign', '=', ('mem', '->', ('id', 'tok'), 'val'), ('id', 'val'))),
            ('expr', ('assign', '=', ('mem', '->', ('id', 'tok'), 'ty'), ('id', 'ty'))),
            ('ret', ('id', 'true'))]
    if st[10:] != tail:
        raise ExtractError(want + 'epilogue')

    out = '/-- what `convert_pp_int` requires of the byte after a base prefix -/\n'
    out += 'inductive NextByte | any | xdigit | oneOf (cs : List Nat)\n  deriving DecidableEq, Repr\n\n'
    out += '/-- one arm of the base-prefix ladder of `convert_pp_int`: the token starts with `text` (ASCII case ignored if\n'
    out += '    `caseInsensitive`: `strncasecmp`) and the next byte passes `next`; then `skip` bytes are skipped and the base is `base` -/\n'
    out += 'structure BasePrefix where\n  text : List Nat\n  caseInsensitive : Bool\n  next : NextByte\n  skip : Nat\n  base : Nat\n  deriving DecidableEq, Repr\n\n'
    out += 'def basePrefixes : List BasePrefix := [\n'
    out += ',\n'.join(f'  ⟨{lean_str(t)}, {"true" if ci else "false"}, {nx}, {sk}, {b}⟩' for t, ci, nx, sk, b in prefixes) + '\n]\n'
    out += '-- spellings: ' + ' '.join(spell(t) for t, *_ in prefixes) + '\n\n'
    out += f'def defaultBase : Nat := {default_base}\n\n'
    out += '/-- one arm of the suffix ladder: alternatives `(text, caseInsensitive)`, bytes skipped, then the values of `l` and `u` -/\n'
    out += 'structure SuffixArm where\n  pats : List (List Nat × Bool)\n  skip : Nat\n  l : Bool\n  u : Bool\n  deriving DecidableEq, Repr\n\n'
    out += 'def suffixArms : List SuffixArm := [\n'
    out += ',\n'.join('  ⟨[' + ', '.join(f'({lean_str(t)}, {"true" if ci else "false"})' for t, ci in pats) + f'], {sk}, {"true" if l else "false"}, {"true" if u else "false"}⟩'
                      for pats, sk, l, u in sufarms) + '\n]\n'
    out += '-- spellings: ' + ' | '.join(' '.join(spell(t) for t, _ in pats) for pats, *_ in sufarms) + '\n\n'
    out += '/-- the type ladder of `convert_pp_int` (`val` is `int64_t`: `>>` is an arithmetic shift, a value is true iff non-zero) -/\n'
    out += f'def intLitType (base : Nat) (l u : Bool) (val : BitVec 64) : Ty :=\n  {lad}\n'
    return out


def gen_pp_number(src):
    body = fn_body(src, 'convert_pp_number', r'^static\s+void\s+convert_pp_number\s*\(\s*Token\s*\*\s*tok\s*\)\s*\{')
    m = re.fullmatch(
        r"if \(convert_pp_int\(tok\)\) return; char \*end; long double val = strtold\(tok->loc, &end\); Type \*ty; "
        r"if \(\*end == '(\w)' \|\| \*end == '(\w)'\) \{ ty = (ty_\w+); (?:val = strto(?:f|d|ld)\(tok->loc, NULL\); )?end\+\+; \} "
        r"else if \(\*end == '(\w)' \|\| \*end == '(\w)'\) \{ ty = (ty_\w+); (?:val = strto(?:f|d|ld)\(tok->loc, NULL\); )?end\+\+; \} "
        r"else \{ ty = (ty_\w+); (?:val = strto(?:f|d|ld)\(tok->loc, NULL\); )?\} "
        r'if \(tok->loc \+ tok->len != end\) error_tok\(tok, "invalid numeric constant"\); '
        r"tok->kind = TK_NUM; tok->fval = val; tok->ty = ty;", norm(body))
    if not m:
        raise ExtractError('convert_pp_number has a shape the translator does not understand: ' + norm(body))
    # (the value is libc's: `strtold`, or — since the fix "a floating constant is rounded once, to its own type" — `strtof` / `strtod`
    #  of the same text; values are compared with gcc bit for bit by the end-to-end leg and are not modelled)
    a1, a2, t1, b1, b2, t2, t3 = m.groups()
    for t in (t1, t2, t3):
        if t not in TY_KNOWN:
            raise ExtractError(f'convert_pp_number: unknown type object {t}')
    out = '/-- `convert_pp_number`: type of a floating constant from the byte after the number `strtold` accepted\n'
    out += '    (`none` = no suffix byte consumed) -/\n'
    out += 'def floatSuffixTable : List (Nat × Ty) := ['
    out += ', '.join(f'({ord(c)}, .{t})' for c, t in ((a1, t1), (a2, t1), (b1, t2), (b2, t2))) + ']\n'
    out += f'def floatDefaultTy : Ty := .{t3}\n'
    return out


def gen_escape(repo, src):
    docs = clang_ast(repo, 'tokenize.c', 'read_escaped_char')
    fns = [d for d in docs if d.get('kind') == 'FunctionDecl' and d.get('name') == 'read_escaped_char']
    if len(fns) != 1:
        raise ExtractError('read_escaped_char not found in the clang AST')
    sw = []
    def walk(n):
        if n.get('kind') == 'SwitchStmt':
            sw.append(n)
        for c in n.get('inner', []) or []:
            walk(c)
    walk(fns[0])
    if len(sw) != 1:
        raise ExtractError('read_escaped_char: expected exactly one switch')
    comp = [c for c in sw[0]['inner'] if c.get('kind') == 'CompoundStmt']
    if len(comp) != 1:
        raise ExtractError('read_escaped_char: switch body')

    def const_val(n):
        k = n.get('kind')
        if k in ('CharacterLiteral', 'IntegerLiteral'):
            return int(n['value'])
        if k in ('ConstantExpr', 'ImplicitCastExpr', 'ParenExpr') and len(n.get('inner', [])) == 1:
            return const_val(n['inner'][0])
        raise ExtractError(f'read_escaped_char: constant of kind {k} not understood')

    table = []
    default_ok = False
    for c in comp[0]['inner']:
        if c.get('kind') == 'CaseStmt':
            inner = c['inner']
            if len(inner) != 2 or inner[1].get('kind') != 'ReturnStmt':
                raise ExtractError('read_escaped_char: case arm is not `case K: return V;`')
            table.append((const_val(inner[0]), const_val(inner[1]['inner'][0])))
        elif c.get('kind') == 'DefaultStmt':
            default_ok = True
        else:
            raise ExtractError(f"read_escaped_char: unexpected {c.get('kind')} in switch")
    body = fn_body(src, 'read_escaped_char', r'^static\s+int\s+read_escaped_char\s*\(\s*char\s*\*\*\s*new_pos\s*,\s*char\s*\*\s*p\s*\)\s*\{')
    nb = norm(strip_comments(body))
    if not re.search(r'default: return \*p; \} *$', nb) or not default_ok:
        raise ExtractError('read_escaped_char: default arm is not `return *p;`')
    if not re.search(r'\*new_pos = p \+ 1; switch \(\*p\) \{', nb):
        raise ExtractError('read_escaped_char: simple-escape arm does not consume exactly one byte')
    out = '/-- tokenize.c `read_escaped_char`, the `switch (*p)` (selector byte, value); the values of the character constants\n'
    out += "    ('\\a' ...) are those computed by the compiler that compiles chibicc (here: clang-14's AST).  Default arm: `return *p`. -/\n"
    out += 'def simpleEscapes : List (Nat × Nat) := [' + ', '.join(f'({a}, {b})' for a, b in table) + ']\n'
    return out


# ------------------------------------------------------------------ pinned shapes (hand-modelled code)

def pin(text, expected, what):
    if norm(text) != norm(expected):
        raise ExtractError(f'{what}: source text changed; the hand model (Model/Literals.lean, Model/Text.lean) was written after a '
                           f'different text.  now: {norm(text)[:300]}')

PINS_TOKENIZE = {
    'tokenize_string_literal': (r'^Token\s*\*\s*tokenize_string_literal\s*\(Token \*tok, Type \*basety\)\s*\{',
                 r"""Token *t; if (basety->size == 2) t = read_utf16_string_literal(tok->loc, tok->loc);
                 else t = read_utf32_string_literal(tok->loc, tok->loc, basety);
                 t->file = tok->file; t->filename = tok->filename; t->line_no = tok->line_no; t->line_delta = tok->line_delta;
                 t->at_bol = tok->at_bol; t->has_space = tok->has_space; t->origin = tok->origin;
                 t->next = tok->next; return t;"""),
}

PIN_GET_STRING_KIND = r"""if (!strncmp(tok->loc, "u8", 2)) return STR_UTF8; switch (tok->loc[0]) { case '"': return STR_NONE;
 case 'u': return STR_UTF16; case 'U': return STR_UTF32; case 'L': return STR_WIDE; } unreachable();"""

PIN_JOIN = r"""for (Token *tok1 = tok; tok1->kind != TK_EOF;) { if (tok1->kind != TK_STR || tok1->next->kind != TK_STR) { tok1 = tok1->next; continue; }
 StringKind kind = getStringKind(tok1); Type *basety = tok1->ty->base;
 for (Token *t = tok1->next; t->kind == TK_STR; t = t->next) { StringKind k = getStringKind(t);
 if (kind == STR_NONE) { kind = k; basety = t->ty->base; } else if (k != STR_NONE && kind != k) {
 error_tok(t, "unsupported non-standard concatenation of string literals"); } }
 if (basety->size > 1) for (Token *t = tok1; t->kind == TK_STR; t = t->next) if (t->ty->base->size == 1) *t = *tokenize_string_literal(t, basety);
 while (tok1->kind == TK_STR) tok1 = tok1->next; }
 for (Token *tok1 = tok; tok1->kind != TK_EOF;) { if (tok1->kind != TK_STR || tok1->next->kind != TK_STR) { tok1 = tok1->next; continue; }
 Token *tok2 = tok1->next; while (tok2->kind == TK_STR) tok2 = tok2->next;
 int len = tok1->ty->array_len; for (Token *t = tok1->next; t != tok2; t = t->next) len = len + t->ty->array_len - 1;
 char *buf = calloc(tok1->ty->base->size, len); int i = 0;
 for (Token *t = tok1; t != tok2; t = t->next) { memcpy(buf + i, t->str, t->ty->size); i = i + t->ty->size - t->ty->base->size; }
 *tok1 = *copy_token(tok1); tok1->ty = array_of(tok1->ty->base, len); tok1->str = buf; tok1->next = tok2; tok1 = tok2; }"""

PIN_STRING_INIT = r"""if (init->ty->base->size != tok->ty->base->size) error_tok(tok, "array of inappropriate type initialized from string constant");
 if (init->is_flexible) *init = *new_initializer(array_of(init->ty->base, tok->ty->array_len), false);
 int len = MIN(init->ty->array_len, tok->ty->array_len); switch (init->ty->base->size) {
 case 1: { char *str = tok->str; for (int i = 0; i < len; i++) init->children[i]->expr = new_num(str[i], tok); break; }
 case 2: { uint16_t *str = (uint16_t *)tok->str; for (int i = 0; i < len; i++) init->children[i]->expr = new_num(str[i], tok); break; }
 case 4: { uint32_t *str = (uint32_t *)tok->str; for (int i = 0; i < len; i++) init->children[i]->expr = new_num(str[i], tok); break; }
 default: unreachable(); } *rest = tok->next;"""


def gen_dispatch(src):
    """tokenize(): which reader / element type / post-processing each literal prefix gets"""
    body = strip_comments(fn_body(src, 'tokenize', r'^Token\s*\*\s*tokenize\s*\(\s*File\s*\*\s*file\s*\)\s*\{'))
    nb = norm(body)
    strs = []
    for m in re.finditer(r'if \((\*p == \'"\'|startswith\(p, "((?:\\.|[^"\\])*)"\))\) \{ cur = cur->next = '
                         r'(read_string_literal|read_utf16_string_literal|read_utf32_string_literal)\(p, p(?: \+ (\d+))?(?:, (ty_\w+))?\); '
                         r'p \+= cur->len; continue; \}', nb):
        prefix = '' if m.group(1).startswith('*p') else m.group(2).replace('\\"', '"')
        if prefix:
            if not prefix.endswith('"'):
                raise ExtractError(f'tokenize: string prefix test {prefix!r}')
            prefix = prefix[:-1]
        off = int(m.group(4) or 0)
        if off != len(prefix):
            raise ExtractError(f'tokenize: prefix {prefix!r} passes quote offset {off}')
        reader = {'read_string_literal': '.narrow', 'read_utf16_string_literal': '.utf16', 'read_utf32_string_literal': '.utf32'}[m.group(3)]
        ty = m.group(5)
        if m.group(3) == 'read_string_literal':
            ty = 'ty_char'
        elif m.group(3) == 'read_utf16_string_literal':
            ty = 'ty_ushort'
        if ty not in TY_KNOWN:
            raise ExtractError(f'tokenize: element type {ty}')
        strs.append((prefix, reader, ty))
    chars = []
    for m in re.finditer(r'if \((\*p == \'\\\'\'|startswith\(p, "(\w+)\'"\))\) \{ cur = cur->next = read_char_literal\(p, p(?: \+ (\d+))?, (ty_\w+)\); '
                         r'(?:cur->val = \((\w+)\)cur->val; |cur->val &= (0x[0-9a-fA-F]+|\d+); )?p \+= cur->len; continue; \}', nb):
        prefix = '' if m.group(1).startswith('*p') else m.group(2)
        off = int(m.group(3) or 0)
        if off != len(prefix):
            raise ExtractError(f'tokenize: char prefix {prefix!r} passes quote offset {off}')
        if m.group(5):
            # `cur->val` is int64_t: a cast to an unsigned N-bit type and back is the value modulo 2^N, i.e. `& (2^N - 1)`
            unsigned_casts = {'uint32_t': 0xFFFFFFFF, 'uint16_t': 0xFFFF, 'uint8_t': 0xFF}
            if m.group(5) == 'char':
                post = '.castChar'
            elif m.group(5) in unsigned_casts:
                post = f'.mask 0x{unsigned_casts[m.group(5)]:X}'
            else:
                raise ExtractError(f'tokenize: cast ({m.group(5)}) on a character constant not understood')
        elif m.group(6):
            post = f'.mask 0x{c_int(m.group(6)):X}'
        else:
            post = '.none'
        if m.group(4) not in TY_KNOWN:
            raise ExtractError(f'tokenize: char literal type {m.group(4)}')
        chars.append((prefix, m.group(4), post))
    if len(strs) != nb.count('_string_literal(p, p') or len(chars) != nb.count('read_char_literal('):
        raise ExtractError('tokenize: a string/character literal dispatch arm has a shape the translator does not understand')
    # order matters: arms are tried in source order
    out = 'inductive StrReader | narrow | utf16 | utf32\n  deriving DecidableEq, Repr\n\n'
    out += '/-- tokenize(): string-literal prefixes in the order they are tested, with the reader and the element type -/\n'
    out += 'def stringPrefixes : List (List Nat × StrReader × Ty) := [' + ', '.join(f'({lean_str(p)}, {r}, .{t})' for p, r, t in strs) + ']\n'
    out += '-- spellings: ' + ' '.join(spell(p) for p, *_ in strs) + '\n\n'
    out += '/-- what tokenize() does to `tok->val` after `read_char_literal` -/\n'
    out += 'inductive CharPost | none | castChar | mask (m : Nat)\n  deriving DecidableEq, Repr\n\n'
    out += '/-- tokenize(): character-constant prefixes in the order they are tested, with the type and the post-processing -/\n'
    out += 'def charPrefixes : List (List Nat × Ty × CharPost) := [' + ', '.join(f'({lean_str(p)}, .{t}, {po})' for p, t, po in chars) + ']\n'
    out += '-- spellings: ' + ' '.join(spell(p) for p, *_ in chars) + '\n'
    return out


# ------------------------------------------------------------------ translated cursor functions (Gen/LitReadersGen.lean)

READER_CALLS = {'isxdigit': ('bool', 'isxdigit'), 'from_hex': ('i32', 'fromHex')}

READERS_PREAMBLE = '''/-- `<ctype.h>` `isxdigit` in the C locale, on a `char` (glibc: false for every byte outside ASCII); libc, trusted -/
def isxdigit (b : BitVec 8) : Bool :=
  (48 ≤ b.toNat && b.toNat ≤ 57) || (97 ≤ b.toNat && b.toNat ≤ 102) || (65 ≤ b.toNat && b.toNat ≤ 70)

'''


def gen_readers(repo, src):
    """from_hex, read_escaped_char, read_universal_char, string_literal_end -> Lean, statement by statement"""
    defs = []
    errors = []

    def take(fn):
        for c in fn.errors:
            if c not in errors:
                errors.append(c)

    # ---- from_hex(char c)
    body = fn_body(src, 'from_hex', r'^static\s+int\s+from_hex\s*\(\s*char\s+c\s*\)\s*\{')
    f = cursor.CursorFn('from_hex', 'fromHex', [('c', 'byte')], 'value:i32', '', False, {})
    f.uses_text = False
    defs.append(f.translate(parse_body(body), 'tokenize.c `from_hex(char c)`: `c` is promoted to `int` (sign extension), the result is `int`'))

    # ---- read_escaped_char(char **new_pos, char *p): everything before the `switch`, then the switch (clang table)
    body = strip_comments(fn_body(src, 'read_escaped_char',
                                  r'^static\s+int\s+read_escaped_char\s*\(\s*char\s*\*\*\s*new_pos\s*,\s*char\s*\*\s*p\s*\)\s*\{'))
    m = re.search(r'switch\s*\(\s*\*p\s*\)\s*\{', body)
    if not m:
        raise ExtractError('read_escaped_char: `switch (*p)` not found')
    head = parse_body(body[:m.start()])

    def final_switch(fn, st):
        if st.newpos is None:
            raise ExtractError('read_escaped_char: the switch is reached before *new_pos is set')
        return fn.ok(f'escapeSwitch (byteAt p ({cursor.idx_text(st.base, st.k)})), {cursor.idx_text(*st.newpos)}')
    f = cursor.CursorFn('read_escaped_char', 'readEscapedChar', [], 'value+newpos', '', True, READER_CALLS, final_switch)
    esc = f.translate(head, 'tokenize.c `read_escaped_char(&new_pos, p)`: `p` is the text after the backslash; the value and `new_pos - p`')
    take(f)
    defs.append('/-- the `switch (*p)` of `read_escaped_char` (table: Gen/LiteralsGen.lean `simpleEscapes`, from the clang AST);\n'
                '    default arm `return *p;` (`char` to `int`) -/\n'
                'def escapeSwitch (b : BitVec 8) : BitVec 32 :=\n  match simpleEscapes.lookup b.toNat with\n'
                '  | some v => BitVec.ofNat 32 v\n  | none => b.signExtend 32\n')
    defs.append(esc)

    # ---- read_universal_char(char *p, int len)
    body = fn_body(src, 'read_universal_char', r'^static\s+uint32_t\s+read_universal_char\s*\(\s*char\s*\*\s*p\s*,\s*int\s+len\s*\)\s*\{')
    f = cursor.CursorFn('read_universal_char', 'readUniversalChar', [('len', 'nat')], 'value:u32', '', False, READER_CALLS)
    defs.append(f.translate(parse_body(body),
                            'tokenize.c `read_universal_char(p, len)` (`uint32_t`): 0 if one of the `len` bytes is not a hexadecimal digit'))

    # ---- string_literal_end(char *p)
    body = fn_body(src, 'string_literal_end', r'^static\s+char\s*\*\s*string_literal_end\s*\(\s*char\s*\*\s*p\s*\)\s*\{')
    f = cursor.CursorFn('string_literal_end', 'stringLiteralEnd', [], 'pos', 'start', True, READER_CALLS)
    sle = f.translate(parse_body(body), 'tokenize.c `string_literal_end(p)` with `p` = text + `start`: index of the closing quote')
    take(f)
    defs.append(sle)

    # ---- canonicalize_newline(char *p), remove_backslash_newline(char *p): in-place rewriting with exact array semantics
    body = fn_body(src, 'canonicalize_newline', r'^static\s+void\s+canonicalize_newline\s*\(\s*char\s*\*\s*p\s*\)\s*\{')
    f = cursor.RewriteFn('canonicalize_newline', 'canonicalizeNewline', ['i', 'j'])
    defs.append(cursor.REWRITE_PREAMBLE + f.translate(parse_body(body),
                'tokenize.c `canonicalize_newline(p)` on the array `buf`: the text left in the array, `none` = a store outside the text'))
    body = fn_body(src, 'remove_backslash_newline', r'^static\s+void\s+remove_backslash_newline\s*\(\s*char\s*\*\s*p\s*\)\s*\{')
    f = cursor.RewriteFn('remove_backslash_newline', 'removeBackslashNewline', ['i', 'j', 'n'])
    defs.append(f.translate(parse_body(body),
                'tokenize.c `remove_backslash_newline(p)` on the array `buf`: the text left in the array, `none` = a store outside the text'))

    body = fn_body(src, 'convert_universal_chars', r'^static\s+void\s+convert_universal_chars\s*\(\s*char\s*\*\s*p\s*\)\s*\{')
    f = cursor.PtrRewriteFn('convert_universal_chars', 'convertUniversalChars', ['p', 'q'])
    defs.append(cursor.PTR_PREAMBLE + f.translate(parse_body(body),
                'tokenize.c `convert_universal_chars(p)` on the array `buf`: the text left in the array, `none` = a store outside the text'))

    # ---- the string-literal readers and read_char_literal
    derr = decode_error_ctor(repo)
    rd_errors = []
    sig = r'^static\s+Token\s*\*\s*%s\s*\(\s*char\s*\*\s*start\s*,\s*char\s*\*\s*quote\s*%s\)\s*\{'
    rd = [gen_string_reader(src, 'read_string_literal', 'readStringLiteral', sig % ('read_string_literal', ''), 'char', 8, 1, 'quote',
                            'ty_char', derr, rd_errors),
          gen_string_reader(src, 'read_utf16_string_literal', 'readUtf16StringLiteral', sig % ('read_utf16_string_literal', ''), 'uint16_t', 16, 2,
                            'start', 'ty_ushort', derr, rd_errors),
          gen_string_reader(src, 'read_utf32_string_literal', 'readUtf32StringLiteral',
                            sig % ('read_utf32_string_literal', r',\s*Type\s*\*\s*ty\s*'), 'uint32_t', 32, 4, 'quote', 'ty', derr, rd_errors),
          gen_char_reader(src, derr, rd_errors)]
    for c in rd_errors:
        if c not in errors:
            errors.append(c)
    defs.append(cursor.READER_PREAMBLE + '\n'.join(rd))

    out = HEADER.format(tool='literals.py (+cursor.py, cmini.py)', src='tokenize.c')
    out += 'import ChibiVerif.Gen.LiteralsGen\n\nset_option linter.unusedVariables false\n\nnamespace ChibiVerif.Gen.LitReaders\nopen ChibiVerif.Gen.Literals\n\n'
    out += READERS_PREAMBLE
    out += '/-- the `error_at` sites of the translated functions, named after their messages -/\ninductive ReadErr\n'
    out += ''.join(f'  | {c}\n' for c in errors) + '  deriving DecidableEq, Repr\n\n'
    out += '\n'.join(defs)
    out += '\nend ChibiVerif.Gen.LitReaders\n'
    return out


# ------------------------------------------------------------------ translated literal readers (Gen/LitReadersGen.lean, second part)

def decode_error_ctor(repo):
    usrc = strip_comments(read(repo, 'unicode.c'))
    body = fn_body(usrc, 'decode_utf8', r'^uint32_t\s+decode_utf8\s*\(\s*char\s*\*\*\s*new_pos\s*,\s*char\s*\*\s*p\s*\)\s*\{')
    msgs = set(re.findall(r'error_at\s*\(\s*\w+\s*,\s*"((?:\\.|[^"\\])*)"', body))
    if len(msgs) != 1:
        raise ExtractError(f'decode_utf8: expected one diagnostic message, found {sorted(msgs)}')
    return cursor.err_ctor(msgs.pop())


def gen_string_reader(src, cname, lean_name, sig, elem_c, elem_bits, calloc_n, calloc_from, ty_arg, decode_err, errors):
    body = fn_body(src, cname, sig)
    st = parse_body(body)
    want = f'{cname} has a shape the translator does not understand: '
    pro = [('decl', 'char*', 'end', ('call', 'string_literal_end', [('bin', '+', ('id', 'quote'), ('num', 1, ''))])),
           ('decl', elem_c + '*', 'buf', ('call', 'calloc', [('num', calloc_n, ''), ('bin', '-', ('id', 'end'), ('id', calloc_from))])),
           ('decl', 'int', 'len', ('num', 0, ''))]
    if len(st) != 8 or st[:3] != pro:
        raise ExtractError(want + 'prologue')
    f = st[3]
    if (f[0] != 'for' or f[1] != ('decl', 'char*', 'p', ('bin', '+', ('id', 'quote'), ('num', 1, '')))
            or f[2] != ('bin', '<', ('id', 'p'), ('id', 'end')) or f[3] is not None):
        raise ExtractError(want + 'loop header')
    tyexpr = ('id', ty_arg)
    strv = ('id', 'buf') if elem_c == 'char' else ('cast', 'char*', ('id', 'buf'))
    epi = [('decl', 'Token*', 'tok', ('call', 'new_token', [('id', 'TK_STR'), ('id', 'start'), ('bin', '+', ('id', 'end'), ('num', 1, ''))])),
           ('expr', ('assign', '=', ('mem', '->', ('id', 'tok'), 'ty'), ('call', 'array_of', [tyexpr, ('bin', '+', ('id', 'len'), ('num', 1, ''))]))),
           ('expr', ('assign', '=', ('mem', '->', ('id', 'tok'), 'str'), strv)),
           ('ret', ('id', 'tok'))]
    if st[4:] != epi:
        raise ExtractError(want + 'epilogue')
    rb = cursor.ReaderBody(cname, elem_bits, decode_err, errors)
    lname = f'{lean_name}_loop1'
    body_txt = rb.run(unblock(f[4]), 'i', {}, lambda cur, env: f'{lname} p endp fuel ({cur}) acc')
    out = f'def {lname} (p : List (BitVec 8)) (endp : Nat) : Nat → Nat → List Nat → Except ReadErr (List Nat)\n'
    out += '  | 0, i, acc => .ok acc.reverse\n'
    out += f'  | fuel + 1, i, acc =>\n    if i < endp then\n{cursor.indent(body_txt, 6)}\n    else .ok acc.reverse\n\n'
    out += (f'/-- tokenize.c `{cname}(start, quote…)` with `quote` = text + `quote`: the code units stored in `buf` (each truncated to the\n'
            f'    {elem_bits}-bit element type) and the index after the closing quote (`tok->len` = that index - start, `array_len` = units + 1);\n'
            f'    every iteration consumes at least one byte, so `endp + 1` units of fuel suffice -/\n')
    out += f'def {lean_name} (p : List (BitVec 8)) (quote : Nat) : Except ReadErr (List Nat × Nat) :=\n'
    out += '  match stringLiteralEnd p (quote + 1) with\n  | .error e => .error e\n  | .ok endp =>\n'
    out += f'    match {lname} p endp (endp + 1) (quote + 1) [] with\n    | .error e => .error e\n    | .ok units => .ok (units, endp + 1)\n'
    return out


def gen_char_reader(src, decode_err, errors):
    cname = 'read_char_literal'
    body = fn_body(src, cname, r'^static\s+Token\s*\*\s*read_char_literal\s*\(\s*char\s*\*\s*start\s*,\s*char\s*\*\s*quote\s*,\s*Type\s*\*\s*ty\s*\)\s*\{')
    st = parse_body(body)
    want = f'{cname} has a shape the translator does not understand: '
    if not st or st[0] != ('decl', 'char*', 'p', ('bin', '+', ('id', 'quote'), ('num', 1, ''))):
        raise ExtractError(want + 'prologue')
    # ... ; char *end = strchr(p, '\''); if (!end) error_at(p, "..."); Token *tok = new_token(TK_NUM, start, end + 1); tok->val = c; tok->ty = ty; return tok;
    try:
        k = st.index(('decl', 'char*', 'end', ('call', 'strchr', [('id', 'p'), ('chr', 39)])))
    except ValueError:
        raise ExtractError(want + "`char *end = strchr(p, '\\'');` not found")
    tailst = st[k + 1:]
    if (len(tailst) != 5 or tailst[0][0] != 'if' or tailst[0][1] != ('un', '!', ('id', 'end')) or tailst[0][3] is not None
            or unblock(tailst[0][2])[0][0] != 'expr' or unblock(tailst[0][2])[0][1][0] != 'call' or unblock(tailst[0][2])[0][1][1] != 'error_at'
            or tailst[1] != ('decl', 'Token*', 'tok', ('call', 'new_token', [('id', 'TK_NUM'), ('id', 'start'), ('bin', '+', ('id', 'end'), ('num', 1, ''))]))
            or tailst[2] != ('expr', ('assign', '=', ('mem', '->', ('id', 'tok'), 'val'), ('id', 'c')))
            or tailst[3] != ('expr', ('assign', '=', ('mem', '->', ('id', 'tok'), 'ty'), ('id', 'ty')))
            or tailst[4] != ('ret', ('id', 'tok'))):
        raise ExtractError(want + 'epilogue')
    nf = cursor.err_ctor(unblock(tailst[0][2])[0][1][2][1][1])
    if nf not in errors:
        errors.append(nf)
    rb = cursor.ReaderBody(cname, 32, decode_err, errors)

    def tail(cur, env):
        if env.get('c', (None, None))[0] is None:
            raise ExtractError(want + 'the value is not assigned on every path')
        return (f'match strchrFrom p 39#8 (p.length + 1) ({cur}) with\n| none => .error .{nf}\n| some e => .ok (c, e)')
    txt = rb.run(st[1:k], 'quote + 1', {}, tail)
    out = ('/-- tokenize.c `read_char_literal(start, quote, ty)` with `quote` = text + `quote`: the `int c` (`tok->val` before the per-prefix\n'
           '    post-processing) and the index of the closing quote found by `strchr` -/\n')
    out += f'def readCharLiteral (p : List (BitVec 8)) (quote : Nat) : Except ReadErr (BitVec 32 × Nat) :=\n{cursor.indent(txt)}\n'
    return out


# ------------------------------------------------------------------ <stdint.h> / <limits.h> macros as the host compiler defines them

LIMIT_MACROS = ['INT_MAX', 'UINT_MAX', 'LONG_MAX', 'ULONG_MAX', 'INT32_MAX', 'UINT32_MAX', 'INT64_MAX', 'UINT64_MAX', 'LLONG_MAX', 'ULLONG_MAX']
_limit_cache = {}


def host_limit_macros(text):
    """Emitter environment entries for the limit macros that occur in `text`: value and type of the macro's expansion as the host
    preprocessor (clang-14 -E) prints it, e.g. UINT32_MAX -> (4294967295U) -> unsigned int.  Only plain literals are accepted."""
    import subprocess
    env = {}
    for name in LIMIT_MACROS:
        if not re.search(r'\b' + name + r'\b', text):
            continue
        if name not in _limit_cache:
            p = subprocess.run(['clang-14', '-std=c11', '-E', '-P', '-x', 'c', '-'], input=f'#include <stdint.h>\n#include <limits.h>\n{name}\n',
                               capture_output=True, text=True)
            exp = p.stdout.strip().splitlines()[-1].strip() if p.returncode == 0 and p.stdout.strip() else ''
            e = cmini.parse_expr(exp) if exp else None
            if e is None or e[0] != 'num':
                raise ExtractError(f'host macro {name}: expansion {exp!r} is not a plain integer literal')
            if 'u' not in e[2].lower() and 'l' not in e[2].lower() and e[1] >= 2**31:
                raise ExtractError(f'host macro {name}: unsuffixed literal {exp} does not fit int')
            _limit_cache[name] = Emitter({}).value(e)
        env[name] = _limit_cache[name]
    return env


# ------------------------------------------------------------------ Gen/PpNumGen.lean: convert_pp_int, the pp-number scan, tokenize_file

PPNUM_CALLS = {'isxdigit': ('bool', 'isxdigit'), 'isdigit': ('bool', 'isdigit'), 'isalnum': ('bool', 'isalnum')}


def pin_startswith(src):
    b = fn_body(src, 'startswith', r'^static\s+bool\s+startswith\s*\(\s*char\s*\*\s*p\s*,\s*char\s*\*\s*q\s*\)\s*\{')
    if norm(b) != 'return strncmp(p, q, strlen(q)) == 0;':
        raise ExtractError('startswith is no longer `strncmp(p, q, strlen(q)) == 0`: ' + norm(b))


def gen_pp_int_fn(src):
    """convert_pp_int as a whole: prefix ladder, `strtoul` (a parameter of the Lean function), suffix ladder, whole-token test, type
    ladder (Gen/LiteralsGen.lean `intLitType`, generated from the same statement), result"""
    body = fn_body(src, 'convert_pp_int', r'^static\s+bool\s+convert_pp_int\s*\(\s*Token\s*\*\s*tok\s*\)\s*\{')
    st = parse_body(body)
    want = 'convert_pp_int has a shape the translator does not understand: '
    fn = cursor.LadderFn('convert_pp_int', 'convertPpInt', PPNUM_CALLS)
    state = cursor.State(None, 0, {})
    lines = []           # the body of the main function, one step per entry, innermost last
    out = {}             # tok->field assignments
    ty_declared = False
    done = False
    i = 0
    while i < len(st):
        s = st[i]
        i += 1
        if done:
            raise ExtractError(want + 'statements after `return true;`')
        if s[0] == 'decl' and s[1] == 'char*' and s[2] == 'p':
            if s[3] != ('mem', '->', ('id', 'tok'), 'loc') or state.base is not None:
                raise ExtractError(want + 'cursor declaration')
            state.base, state.k = 'loc', 0
            continue
        if state.base is None:
            raise ExtractError(want + 'a statement before the cursor is declared')
        if s[0] == 'decl' and s[1] == 'int' and s[3] is not None and s[3][0] == 'num' and s[3][2] == '':
            state.env[s[2]] = (str(s[3][1]), 'nat')
            continue
        if s[0] == 'decl' and s[1] == 'bool' and s[3] in (('id', 'true'), ('id', 'false')):
            state.env[s[2]] = (s[3][1], 'bool')
            continue
        if s[0] == 'decl' and s[1] == 'int64_t' and s[3] is not None and s[3][0] == 'call':
            c = s[3]
            if c[1] != 'strtoul' or len(c[2]) != 3 or c[2][0] != ('id', 'p') or c[2][1] != ('un', '&', ('id', 'p')) or c[2][2][0] != 'id' \
                    or state.env.get(c[2][2][1], (None, None))[1] != 'nat':
                raise ExtractError(want + f'call {c}')
            q = fn.fresh()
            # unsigned long -> int64_t: the same 64 bits
            lines.append(f'match strtoul p ({fn.at(state)}) ({state.env[c[2][2][1]][0]}) with\n| ({s[2]}, {q}) =>')
            state.env[s[2]] = (s[2], 'i64')
            state.base, state.k = q, 0
            continue
        if s[0] == 'decl' and s[1] == 'Type*' and s[3] is None:
            ty_declared = s[2]
            continue
        if s[0] == 'if' and s[3] is None and unblock(s[2]) == [('ret', ('id', 'false'))]:
            c = s[1]
            if c[0] == 'bin' and c[1] in ('!=', '==') and c[2] == ('id', 'p'):
                ctxt = f'({fn.pos(state, c[2])} {"≠" if c[1] == "!=" else "="} {fn.pos(state, c[3])})'
            else:
                ctxt = fn.cond(state, c)
            if out:
                raise ExtractError(want + '`return false` after the token has been modified')
            lines.append(f'if {ctxt} then none else')
            continue
        if s[0] == 'if' and ty_declared and cursor.assigned_vars([s]) == {ty_declared}:
            # the type ladder: Gen/LiteralsGen.lean `intLitType`, produced by gen_pp_int from this very statement (st[9])
            if st.index(s) != 9:
                raise ExtractError(want + 'the type ladder is not the statement gen_pp_int translates')
            for v in ('base', 'l', 'u', 'val'):
                if v not in state.env:
                    raise ExtractError(want + f'type ladder before {v} is defined')
            lines.append(f'let {ty_declared} : Ty := intLitType ({state.env["base"][0]}) ({state.env["l"][0]}) ({state.env["u"][0]}) ({state.env["val"][0]})')
            state.env[ty_declared] = (ty_declared, 'ty')
            continue
        if s[0] == 'if':
            doc = f'tokenize.c `convert_pp_int`, if-ladder no. {fn.nsel + 1}: the cursor after it' + ' and the values it leaves in {}'
            name, outs = fn.selector(s, state, doc.format(', '.join('`' + v + '`' for v in state.env if v in cursor.assigned_vars([s]))))
            q = fn.fresh()
            lines.append(f'match {name} p ({fn.at(state)}) with\n| ({", ".join([q] + outs)}) =>')
            state.base, state.k = q, 0
            for v in outs:
                state.env[v] = (v, state.env[v][1])
            continue
        if s[0] == 'expr' and s[1][0] == 'assign' and s[1][1] == '=' and s[1][2][0] == 'mem' and s[1][2][2] == ('id', 'tok'):
            field, rhs = s[1][2][3], s[1][3]
            if field == 'kind' and rhs == ('id', 'TK_NUM'):
                out['kind'] = 'TK_NUM'
            elif field == 'val' and rhs[0] == 'id' and state.env.get(rhs[1], (None, None))[1] == 'i64':
                out['val'] = state.env[rhs[1]][0]
            elif field == 'ty' and rhs[0] == 'id' and state.env.get(rhs[1], (None, None))[1] == 'ty':
                out['ty'] = state.env[rhs[1]][0]
            else:
                raise ExtractError(want + f'assignment {s[1]}')
            continue
        if s == ('ret', ('id', 'true')):
            if set(out) != {'kind', 'val', 'ty'}:
                raise ExtractError(want + f'`return true` with tok fields {sorted(out)} set')
            lines.append(f'some ({out["val"]}, {out["ty"]})')
            done = True
            continue
        raise ExtractError(want + f'statement {s}')
    if not done:
        raise ExtractError(want + 'no `return true;` at the end')
    body_txt = ''
    depth = 0
    for ln in lines:
        body_txt += cursor.indent(ln, 2 + 2 * depth) + '\n'
        depth += 1 if ln.startswith('match') else 0
    txt = '\n'.join(fn.aux) + '\n'
    txt += ('/-- tokenize.c `convert_pp_int(tok)`: `p` is the text that contains the token, `tok->loc` = `p + loc`, `tok->len` = `len`;\n'
            '    `strtoul p i base` stands for libc `strtoul(p + i, &end, base)` and returns the value (`unsigned long`, stored in the\n'
            '    `int64_t val` bit for bit) and `end - p`.  `none` = `return false` (the token is not an integer constant);\n'
            '    `some (val, ty)` = `tok->val`, `tok->ty` (the type ladder is Gen/LiteralsGen.lean `intLitType`) -/\n')
    txt += ('def convertPpInt (strtoul : List (BitVec 8) → Nat → Nat → BitVec 64 × Nat) (p : List (BitVec 8)) (loc len : Nat) :\n'
            '    Option (BitVec 64 × Ty) :=\n' + body_txt)
    return txt


def tokenize_loop_body(src):
    """statements of the `while (*p) { … }` loop of tokenize()"""
    body = strip_comments(fn_body(src, 'tokenize', r'^Token\s*\*\s*tokenize\s*\(\s*File\s*\*\s*file\s*\)\s*\{'))
    m = re.search(r'while\s*\(\s*\*p\s*\)\s*\{', body)
    if not m:
        raise ExtractError('tokenize: `while (*p) {` not found')
    loop = function_body(body[m.start():], r'while\s*\(\s*\*p\s*\)\s*\{', 'tokenize loop')
    return parse_body(loop)


def gen_pp_scan(src):
    """the pp-number arm of tokenize(): start test and scan loop, statement by statement"""
    want = 'tokenize: the pp-number arm has a shape the translator does not understand: '
    arms = [s for s in tokenize_loop_body(src) if s[0] == 'if' and 'TK_PP_NUM' in repr(s)]
    if len(arms) != 1:
        raise ExtractError(want + f'{len(arms)} statements mention TK_PP_NUM')
    arm = arms[0]
    b = unblock(arm[2])
    if (arm[3] is not None or len(b) != 4 or b[0] != ('decl', 'char*', 'q', ('postinc', ('id', 'p'))) or b[1][0] != 'for'
            or b[2] != ('expr', ('assign', '=', ('id', 'cur'), ('assign', '=', ('mem', '->', ('id', 'cur'), 'next'),
                                                                 ('call', 'new_token', [('id', 'TK_PP_NUM'), ('id', 'q'), ('id', 'p')]))))
            or b[3] != ('continue',)):
        raise ExtractError(want + 'arm body')
    f = cursor.ScanFn('tokenize (pp-number arm)', 'ppNumber', PPNUM_CALLS)
    return f.translate(arm[1], 1, b[1],
                       'tokenize(): the test of the "Numeric literal" arm at `p + start`',
                       'tokenize(): the pp-number arm taken at `p + start` (`char *q = p++;`, then the `for (;;)` loop): the token is '
                       '`[start, ppNumberEnd p start)`; every iteration but the last consumes at least one byte, so `p.length + 1` units of fuel suffice')


def gen_arm_order(src):
    """the arms of the `while (*p)` loop of tokenize() in source order (they are tried in this order)"""
    want = 'tokenize: the loop body has a shape the translator does not understand: '
    arms = []
    pending = None
    for s in tokenize_loop_body(src):
        if s[0] == 'decl' and s[1] == 'int' and s[3] is not None and s[3][0] == 'call' and s[3][2] == [('id', 'p')]:
            pending = (s[2], s[3][1])                        # int ident_len = read_ident(p);
            continue
        if s[0] == 'expr' and s[1][0] == 'call' and s[1][1] == 'error_at':
            arms.append('invalid')
            continue
        if s[0] != 'if' or s[3] is not None:
            raise ExtractError(want + f'statement {s[0]}')
        c = s[1]
        body = repr(s[2])
        if pending and c == ('id', pending[0]):
            arms.append({'read_ident': 'ident', 'read_punct': 'punct'}.get(pending[1]) or pending[1])
            pending = None
        elif c[0] == 'call' and c[1] == 'startswith' and c[2][0] == ('id', 'p') and c[2][1][0] == 'str':
            lit = c[2][1][1].replace('\\"', '"')
            if lit == '//':
                arms.append('line_comment')
            elif lit == '/*':
                arms.append('block_comment')
            elif lit.endswith('"') and 'string_literal' in body:
                arms.append('str:' + lit[:-1])
            elif lit.endswith("'") and 'read_char_literal' in body:
                arms.append('chr:' + lit[:-1])
            else:
                raise ExtractError(want + f'startswith arm {lit!r}')
        elif c == ('bin', '==', ('un', '*', ('id', 'p')), ('chr', 10)):
            arms.append('newline')
        elif c == ('call', 'isspace', [('un', '*', ('id', 'p'))]):
            arms.append('space')
        elif 'TK_PP_NUM' in body:
            arms.append('pp_number')
        elif c == ('bin', '==', ('un', '*', ('id', 'p')), ('chr', 34)) and 'string_literal' in body:
            arms.append('str:')
        elif c == ('bin', '==', ('un', '*', ('id', 'p')), ('chr', 39)) and 'read_char_literal' in body:
            arms.append('chr:')
        else:
            raise ExtractError(want + f'arm with condition {c}')
    out = '/-- tokenize(): the arms of the `while (*p)` loop in the order they are tried (`str:<prefix>` / `chr:<prefix>`: literal arms) -/\n'
    out += 'def tokenizeArms : List String := [' + ', '.join('"' + a.replace('\\', '\\\\').replace('"', '\\"') + '"' for a in arms) + ']\n'
    return out


def clang_fn(repo, cfile, name):
    docs = clang_ast(repo, cfile, name)
    fns = [d for d in docs if d.get('kind') == 'FunctionDecl' and d.get('name') == name
           and any(c.get('kind') == 'CompoundStmt' for c in d.get('inner', []) or [])]
    if len(fns) != 1:
        raise ExtractError(f'{name}: definition not found in the clang AST')
    return [c for c in fns[0]['inner'] if c.get('kind') == 'CompoundStmt'][0]


def ast_strip(n):
    """look through implicit casts and parentheses"""
    while n.get('kind') in ('ImplicitCastExpr', 'ParenExpr', 'CStyleCastExpr') and len(n.get('inner', [])) == 1:
        n = n['inner'][0]
    return n


def ast_ref(n):
    n = ast_strip(n)
    return n['referencedDecl']['name'] if n.get('kind') == 'DeclRefExpr' else None


def ast_call(n):
    """(callee, [args]) of a CallExpr, else None"""
    n = ast_strip(n)
    if n.get('kind') != 'CallExpr':
        return None
    return ast_ref(n['inner'][0]), n['inner'][1:]


def ast_int(n):
    n = ast_strip(n)
    return int(n['value']) if n.get('kind') == 'IntegerLiteral' else None


def ast_mentions(n, name):
    if n.get('kind') == 'DeclRefExpr' and n.get('referencedDecl', {}).get('name') == name:
        return True
    return any(ast_mentions(c, name) for c in n.get('inner', []) or [] if isinstance(c, dict))


def c_string_bytes(lit):
    """bytes of a StringLiteral as clang prints it ("\\357\\273\\277")"""
    if not (lit.startswith('"') and lit.endswith('"')):
        raise ExtractError(f'string literal {lit!r}')
    s, out, i = lit[1:-1], [], 0
    while i < len(s):
        if s[i] == '\\':
            m = re.match(r'\\([0-7]{1,3})', s[i:])
            if m:
                out.append(int(m.group(1), 8)); i += len(m.group(0)); continue
            m = re.match(r'\\x([0-9a-fA-F]{1,2})', s[i:])
            if m:
                out.append(int(m.group(1), 16)); i += len(m.group(0)); continue
            raise ExtractError(f'string literal escape in {lit!r}')
        out.append(ord(s[i])); i += 1
    return out


PHASE_FNS = {'canonicalize_newline': 'canonicalizeNewline', 'remove_backslash_newline': 'removeBackslashNewline',
             'convert_universal_chars': 'convertUniversalChars'}


def gen_tokenize_file(repo, src):
    """tokenize_file from clang's typed AST: what happens to the text between read_file() and tokenize(), statement by statement"""
    want = 'tokenize_file has a shape the translator does not understand: '
    body = clang_fn(repo, 'tokenize.c', 'tokenize_file')
    st = body['inner']
    # 0: char *p = read_file(path);   1: if (!p) return NULL;
    d0 = st[0]['inner'][0] if st and st[0].get('kind') == 'DeclStmt' else {}
    if d0.get('kind') != 'VarDecl' or d0.get('type', {}).get('qualType') != 'char *' or not d0.get('inner') \
            or (ast_call(d0['inner'][0]) or (None,))[0] != 'read_file':
        raise ExtractError(want + 'first statement is not `char *p = read_file(path);`')
    pv = d0['name']
    s1 = st[1]
    if (s1.get('kind') != 'IfStmt' or ast_strip(s1['inner'][0]).get('opcode') != '!' or ast_ref(ast_strip(s1['inner'][0])['inner'][0]) != pv
            or s1['inner'][1].get('kind') != 'ReturnStmt' or len(s1['inner']) != 2):
        raise ExtractError(want + 'second statement is not `if (!p) return NULL;`')
    steps = []          # lean lines transforming `buf`
    calls = []
    k = 2
    while k < len(st):
        s = st[k]
        if s.get('kind') == 'IfStmt' and len(s['inner']) == 2:
            # if (!memcmp(p, "<lit>", n)) p += m;
            c = ast_strip(s['inner'][0])
            call = ast_call(c['inner'][0]) if c.get('kind') == 'UnaryOperator' and c.get('opcode') == '!' else None
            t = s['inner'][1]
            if (call is None or call[0] != 'memcmp' or len(call[1]) != 3 or ast_ref(call[1][0]) != pv
                    or ast_strip(call[1][1]).get('kind') != 'StringLiteral' or ast_int(call[1][2]) is None
                    or t.get('kind') != 'CompoundAssignOperator' or t.get('opcode') != '+=' or ast_ref(t['inner'][0]) != pv or ast_int(t['inner'][1]) is None):
                raise ExtractError(want + f'statement {k} (an if that is not the BOM test)')
            lit = c_string_bytes(ast_strip(call[1][1])['value'])
            n, m = ast_int(call[1][2]), ast_int(t['inner'][1])
            if n > len(lit) or 0 in lit[:n]:
                raise ExtractError(want + 'memcmp compares past the literal or with a NUL')
            test = ' ∧ '.join(f'byteAt buf {i} = 0x{lit[i]:X}#8' for i in range(n))
            calls.append(f'memcmp:{m}')
            steps.append(f'let buf := if ({test}) then buf.drop {m} else buf      -- if (!memcmp(p, "…", {n})) p += {m};')
            k += 1
            continue
        call = ast_call(s)
        if call is not None and call[0] in PHASE_FNS and len(call[1]) == 1 and ast_ref(call[1][0]) == pv:
            calls.append(call[0])
            steps.append(f'match {PHASE_FNS[call[0]]} buf with\n| none => none\n| some buf =>      -- {call[0]}(p);')
            k += 1
            continue
        break
    # the rest must not touch the text: `p` only occurs as the `contents` argument of new_file, whose result is what tokenize() gets
    rest = st[k:]
    uses = [s for s in rest if ast_mentions(s, pv)]
    if len(uses) != 1 or uses[0].get('kind') != 'DeclStmt':
        raise ExtractError(want + 'the text is used after the phases by something other than `File *file = new_file(…, p);`')
    fv = uses[0]['inner'][0]
    call = ast_call(fv['inner'][0]) if fv.get('inner') else None
    if call is None or call[0] != 'new_file' or len(call[1]) != 3 or ast_ref(call[1][2]) != pv or ast_mentions(call[1][0], pv) or ast_mentions(call[1][1], pv):
        raise ExtractError(want + 'new_file call')
    last = rest[-1]
    call = ast_call(last['inner'][0]) if last.get('kind') == 'ReturnStmt' and last.get('inner') else None
    if call is None or call[0] != 'tokenize' or len(call[1]) != 1 or ast_ref(call[1][0]) != fv['name']:
        raise ExtractError(want + 'the function does not end with `return tokenize(file);`')
    nf = norm(strip_comments(fn_body(src, 'new_file', r'^File\s*\*\s*new_file\s*\(\s*char\s*\*\s*name\s*,\s*int\s+file_no\s*,\s*char\s*\*\s*contents\s*\)\s*\{')))
    if 'file->contents = contents;' not in nf or nf.count('contents') != 2:
        raise ExtractError('new_file no longer stores `contents` unchanged')
    body_txt, depth = '', 0
    for ln in steps:
        body_txt += cursor.indent(ln, 2 + 2 * depth) + '\n'
        depth += 1 if ln.startswith('match') else 0
    body_txt += ' ' * (2 + 2 * depth) + 'some buf\n'
    out = '/-- tokenize_file(): the calls made on the text between `read_file` and `tokenize`, in the order of clang\'s AST -/\n'
    out += 'def tokenizeFileSteps : List String := [' + ', '.join(f'"{c}"' for c in calls) + ']\n\n'
    out += ('/-- tokenize.c `tokenize_file`: the text handed to `tokenize()` for the array `buf` returned by `read_file` (the bytes before the\n'
            '    terminator); `p += n` drops the first `n` bytes; each phase function rewrites the rest in place (Gen/LitReadersGen.lean);\n'
            '    `none` = a store outside the text -/\n')
    out += 'def tokenizeFileText (buf : List (BitVec 8)) : Option (List (BitVec 8)) :=\n' + body_txt
    return out


def gen_ppnum(repo, src):
    pin_startswith(src)
    out = HEADER.format(tool='literals.py (+cursor.py, cmini.py; clang-14 AST for tokenize_file)', src='tokenize.c')
    out += 'import ChibiVerif.Gen.LitReadersGen\n\nset_option linter.unusedVariables false\n\nnamespace ChibiVerif.Gen.PpNum\n'
    out += 'open ChibiVerif.Gen.Literals\nopen ChibiVerif.Gen.LitReaders\n\n'
    out += cursor.TEXT_PREAMBLE
    out += '-- ---------------------------------------------------------------- convert_pp_int\n\n'
    out += gen_pp_int_fn(src) + '\n'
    out += '-- ---------------------------------------------------------------- tokenize(): pp-number\n\n'
    out += gen_pp_scan(src) + '\n'
    out += gen_arm_order(src) + '\n'
    out += '-- ---------------------------------------------------------------- tokenize_file\n\n'
    out += gen_tokenize_file(repo, src) + '\n'
    out += 'end ChibiVerif.Gen.PpNum\n'
    return out


def check_pins(repo, src):
    # tokenize_string_literal, getStringKind and join_adjacent_string_literals are no longer pinned: strjoin.py translates them on every
    # run and `C11_translated_join` proves the hand model equal to the translation (PINS_TOKENIZE / PIN_GET_STRING_KIND / PIN_JOIN above
    # record the text the hand model was written after)
    ps = strip_comments(read(repo, 'parse.c'))
    pin(function_body(ps, r'^static\s+void\s+string_initializer\s*\(Token \*\*rest, Token \*tok, Initializer \*init\)\s*\{', 'string_initializer'),
        PIN_STRING_INIT, 'parse.c string_initializer')


def generate(repo):
    usrc = strip_comments(read(repo, 'unicode.c'))
    tsrc = strip_comments(read(repo, 'tokenize.c'))
    ysrc = strip_comments(read(repo, 'type.c'))
    check_pins(repo, tsrc)
    out = HEADER.format(tool='literals.py (+cmini.py)', src='unicode.c, tokenize.c, type.c')
    out += 'namespace ChibiVerif.Gen.Literals\n\n'
    out += '-- ---------------------------------------------------------------- unicode.c\n\n'
    out += gen_encode(usrc) + '\n'
    out += gen_decode(usrc) + '\n'
    out += gen_ranges(usrc) + '\n'
    out += '-- ---------------------------------------------------------------- tokenize.c\n\n'
    out += gen_utf16(tsrc) + '\n'
    out += gen_types(ysrc)
    out += gen_pp_int(tsrc) + '\n'
    out += gen_pp_number(tsrc) + '\n'
    out += gen_escape(repo, tsrc) + '\n'
    out += gen_dispatch(tsrc) + '\n'
    out += 'end ChibiVerif.Gen.Literals\n'
    return {'LiteralsGen.lean': out, 'LitReadersGen.lean': gen_readers(repo, tsrc), 'PpNumGen.lean': gen_ppnum(repo, tsrc)}
