"""codegen.c -> Gen/C04Gen.lean   (property C04: every lvalue designates exactly its object's bytes and bits)

Regenerated from the snapshot on every run:

  * the bit-field arms of gen_expr (ND_MEMBER: shl / shr|sar extraction; ND_ASSIGN: mask, shift, merge, store,
    re-extraction), as functions from (width, bit offset, signedness) to structured assembly lines, together with
    the arithmetic they print (`mask`, `~(mask << off)`, the two shift counts, the shr-vs-sar condition);
  * the integer tails of `load` and `store` (instruction per size), the byte loops of `store` (struct), `push_struct`,
    `copy_struct_mem`, and the ND_MEMZERO arm;
  * the arithmetic of assign_lvar_offsets (first stack parameter at 16, 8-byte slots, the array >= 16 bytes rule,
    bottom-up allocation, stack_size rounded to 16);
  * the instruction list of builtin_alloca;
  * the conversion to `_Bool` that every store to a `_Bool` lvalue goes through (`cast`, arm `to->kind == TY_BOOL`, with the
    integer arm of `cmp_zero`).

Every piece is parsed statement by statement; a statement, condition, loop bound or expression that does not have
the expected shape raises ExtractError (the check then reports the tie as broken; nothing is guessed)."""
import re
from common import ExtractError, HEADER, read, must, function_body, strip_comments


# ------------------------------------------------------------------ statements

class P:
    def __init__(self, text, what):
        self.t = text
        self.i = 0
        self.what = what

    def err(self, msg):
        raise ExtractError(f'{self.what}: {msg} at ...{self.t[self.i:self.i + 60]!r}')

    def ws(self):
        while self.i < len(self.t) and self.t[self.i].isspace():
            self.i += 1

    def eof(self):
        self.ws()
        return self.i >= len(self.t)

    def peek(self, s):
        self.ws()
        return self.t.startswith(s, self.i)

    def kw(self, w):
        self.ws()
        return re.match(w + r'\b', self.t[self.i:]) is not None

    def eat(self, s):
        self.ws()
        if not self.t.startswith(s, self.i):
            self.err(f'expected {s!r}')
        self.i += len(s)

    def balanced(self, open_, close):
        self.eat(open_)
        depth, j = 1, self.i
        while depth:
            if j >= len(self.t):
                self.err('unbalanced ' + open_)
            c = self.t[j]
            if c == '"':
                j += 1
                while self.t[j] != '"':
                    if self.t[j] == '\\':
                        j += 1
                    j += 1
            elif c == open_:
                depth += 1
            elif c == close:
                depth -= 1
            j += 1
        s = self.t[self.i:j - 1]
        self.i = j
        return s

    def until_semicolon(self):
        self.ws()
        j = self.i
        depth = 0
        while True:
            if j >= len(self.t):
                self.err('statement without ;')
            c = self.t[j]
            if c == '"':
                j += 1
                while self.t[j] != '"':
                    if self.t[j] == '\\':
                        j += 1
                    j += 1
            elif c in '([{':
                depth += 1
            elif c in ')]}':
                depth -= 1
            elif c == ';' and depth == 0:
                break
            j += 1
        s = self.t[self.i:j]
        self.i = j + 1
        return ' '.join(s.split())

    def stmt(self):
        self.ws()
        if self.peek('{'):
            self.eat('{')
            out = []
            while not self.peek('}'):
                out.append(self.stmt())
            self.eat('}')
            return ('block', out)
        if self.kw('if'):
            self.eat('if')
            cond = ' '.join(self.balanced('(', ')').split())
            then = self.stmt()
            els = None
            if self.kw('else'):
                self.eat('else')
                els = self.stmt()
            return ('if', cond, then, els)
        if self.kw('for'):
            self.eat('for')
            hdr = ' '.join(self.balanced('(', ')').split())
            body = self.stmt()
            return ('for', hdr, body)
        if self.kw('switch'):
            self.eat('switch')
            e = ' '.join(self.balanced('(', ')').split())
            body = self.stmt()
            return ('switch', e, body)
        if self.kw('case') or self.kw('default'):
            m = re.match(r'(case\s+[^:]+|default)\s*:', self.t[self.i:])
            if not m:
                self.err('case label')
            self.i += m.end()
            return ('case', ' '.join(m.group(1).split()))
        if self.kw('println'):
            self.eat('println')
            args = self.balanced('(', ')')
            self.eat(';')
            m = re.match(r'\s*"((?:\\.|[^"\\])*)"\s*(?:,(.*))?$', args, re.S)
            if not m:
                self.err(f'println with a non-literal format: {args!r}')
            return ('println', m.group(1), split_args(m.group(2) or ''))
        return ('simple', self.until_semicolon())

    def all(self):
        out = []
        while not self.eof():
            out.append(self.stmt())
        return out


def split_args(s):
    out, depth, cur = [], 0, ''
    for c in s:
        if c in '([':
            depth += 1
        elif c in ')]':
            depth -= 1
        if c == ',' and depth == 0:
            out.append(' '.join(cur.split()))
            cur = ''
        else:
            cur += c
    if cur.strip():
        out.append(' '.join(cur.split()))
    return out


def flat(stmts):
    out = []
    for s in stmts:
        if s[0] == 'block':
            out += flat(s[1])
        else:
            out.append(s)
    return out


def body_of(s):
    """statement list of a (possibly braced) statement"""
    return flat([s])


# ------------------------------------------------------------------ C expressions -> Lean

TOK = re.compile(r'\s*(0[xX][0-9a-fA-F]+[uUlL]*|\d+[uUlL]*|[A-Za-z_][A-Za-z_0-9]*(?:->[A-Za-z_][A-Za-z_0-9]*)*|<<|>>|==|!=|>=|<=|&&|\|\||[-+*/%~!()?:<>&|,])')


def tokens(s, what):
    out, i = [], 0
    s = s.strip()
    while i < len(s):
        m = TOK.match(s, i)
        if not m:
            raise ExtractError(f'{what}: cannot tokenise expression {s!r} at {s[i:]!r}')
        out.append(m.group(1))
        i = m.end()
    return out


class E:
    """Pratt parser for the small expression language of the printed arguments; AST = nested tuples"""
    PREC = {'?': 1, '||': 2, '&&': 3, '|': 4, '&': 6, '==': 7, '!=': 7, '<': 8, '>': 8, '<=': 8, '>=': 8, '<<': 9, '>>': 9, '+': 10, '-': 10, '*': 11, '/': 11, '%': 11}

    def __init__(self, s, what):
        self.toks = tokens(s, what)
        self.i = 0
        self.what = what
        self.src = s

    def peek(self):
        return self.toks[self.i] if self.i < len(self.toks) else None

    def next(self):
        t = self.peek()
        self.i += 1
        return t

    def parse(self):
        e = self.expr(0)
        if self.peek() is not None:
            raise ExtractError(f'{self.what}: trailing tokens in expression {self.src!r}')
        return e

    def expr(self, minp):
        lhs = self.unary()
        while True:
            op = self.peek()
            if op not in self.PREC or self.PREC[op] < minp:
                return lhs
            self.next()
            if op == '?':
                a = self.expr(0)
                if self.next() != ':':
                    raise ExtractError(f'{self.what}: ?: without : in {self.src!r}')
                b = self.expr(1)
                lhs = ('cond', lhs, a, b)
            else:
                rhs = self.expr(self.PREC[op] + 1)
                lhs = ('bin', op, lhs, rhs)

    def unary(self):
        t = self.next()
        if t is None:
            raise ExtractError(f'{self.what}: truncated expression {self.src!r}')
        if t in ('-', '~', '!'):
            return ('un', t, self.unary())
        if t == '(':
            e = self.expr(0)
            if self.next() != ')':
                raise ExtractError(f'{self.what}: missing ) in {self.src!r}')
            return e
        if re.match(r'0[xX]|\d', t):
            m = re.match(r'(0[xX][0-9a-fA-F]+|\d+)([uUlL]*)$', t)
            return ('num', int(m.group(1), 0), m.group(2).upper())
        if re.match(r'[A-Za-z_]', t):
            if self.peek() == '(':
                self.next()
                args = []
                if self.peek() != ')':
                    args.append(self.expr(0))
                    while self.peek() == ',':
                        self.next()
                        args.append(self.expr(0))
                if self.next() != ')':
                    raise ExtractError(f'{self.what}: missing ) after call in {self.src!r}')
                return ('call', t, args)
            return ('var', t)
        raise ExtractError(f'{self.what}: unexpected token {t!r} in {self.src!r}')


def lean_int(e, names, what):
    """C `int` expression (no overflow in the domain of the theorems) -> Lean Int expression"""
    k = e[0]
    if k == 'num':
        return str(e[1])
    if k == 'var':
        if e[1] not in names:
            raise ExtractError(f'{what}: unknown name {e[1]!r} in an int expression')
        return names[e[1]]
    if k == 'un' and e[1] == '-':
        return f'(-{lean_int(e[2], names, what)})'
    if k == 'bin' and e[1] in ('+', '-', '*'):
        return f'({lean_int(e[2], names, what)} {e[1]} {lean_int(e[3], names, what)})'
    if k == 'call' and e[1] == 'align_to' and len(e[2]) == 2:
        return f'(alignTo {lean_int(e[2][0], names, what)} {lean_int(e[2][1], names, what)})'
    if k == 'call' and e[1] == 'MAX' and len(e[2]) == 2:
        return f'(max {lean_int(e[2][0], names, what)} {lean_int(e[2][1], names, what)})'
    if k == 'cond':
        return f'(if {lean_bool(e[1], names, what)} then {lean_int(e[2], names, what)} else {lean_int(e[3], names, what)})'
    raise ExtractError(f'{what}: int expression not understood: {e!r}')


def lean_bool(e, names, what):
    k = e[0]
    if k == 'var':
        if e[1] not in names:
            raise ExtractError(f'{what}: unknown name {e[1]!r} in a condition')
        return names[e[1]]
    if k == 'bin' and e[1] in ('||', '&&'):
        return f'({lean_bool(e[2], names, what)} {e[1]} {lean_bool(e[3], names, what)})'
    if k == 'bin' and e[1] in ('==', '>=', '<', '<=', '>', '!='):
        key = None
        # comparisons of an enum field with a constant are named as a whole (e.g. mem->ty->kind == TY_BOOL)
        if e[2][0] == 'var' and e[3][0] == 'var':
            key = f'{e[2][1]} {e[1]} {e[3][1]}'
            if key in names:
                return names[key]
        op = {'==': '==', '!=': '!=', '>=': '≥', '<=': '≤', '<': '<', '>': '>'}[e[1]]
        return f'(decide ({lean_int(e[2], names, what)} {op} {lean_int(e[3], names, what)}))'
    raise ExtractError(f'{what}: condition not understood: {e!r}')


def lean_bv64(e, names, what):
    """C `unsigned long` expression -> Lean BitVec 64 expression.  Shift counts must be Nat-valued names; a shift by
    a count >= 64 is undefined in C and is refused unless it is guarded by the enclosing ?: (checked by the caller)."""
    k = e[0]
    if k == 'num':
        return f'({e[1]} : BitVec 64)'
    if k == 'var':
        if e[1] not in names:
            raise ExtractError(f'{what}: unknown name {e[1]!r} in an unsigned long expression')
        return names[e[1]]
    if k == 'un' and e[1] == '-':
        return f'(-{lean_bv64(e[2], names, what)})'
    if k == 'un' and e[1] == '~':
        return f'(~~~{lean_bv64(e[2], names, what)})'
    if k == 'bin' and e[1] in ('+', '-'):
        return f'({lean_bv64(e[2], names, what)} {e[1]} {lean_bv64(e[3], names, what)})'
    if k == 'bin' and e[1] == '<<':
        if e[3][0] != 'var' or e[3][1] not in names:
            raise ExtractError(f'{what}: shift count not understood: {e[3]!r}')
        return f'({lean_bv64(e[2], names, what)} <<< {names[e[3][1]]})'
    if k == 'cond':
        c = e[1]
        if not (c[0] == 'bin' and c[1] == '==' and c[2][0] == 'var' and c[2][1] in names and c[3][0] == 'num'):
            raise ExtractError(f'{what}: ?: condition not understood: {c!r}')
        return f'(if {names[c[2][1]]} = {c[3][1]} then {lean_bv64(e[2], names, what)} else {lean_bv64(e[3], names, what)})'
    raise ExtractError(f'{what}: unsigned long expression not understood: {e!r}')


# ------------------------------------------------------------------ println format -> structured line

def lean_line(fmt, args, what):
    """`fmt` is a println format string "  op a, b" (or a label "1:"); args are Lean expressions (strings) of type Int
    consumed by %d / %ld / %lu in order.  Returns Lean text of type `Line`."""
    if re.search(r'\\', fmt):
        raise ExtractError(f'{what}: format string with an escape: {fmt!r}')
    args = list(args)
    m = re.fullmatch(r'(\S+):', fmt)
    if m:
        return f'.label "{m.group(1)}"'
    m = re.fullmatch(r'  (\S+)(?: (.*))?', fmt)
    if not m:
        raise ExtractError(f'{what}: format string is not "  op operands": {fmt!r}')
    op, rest = m.group(1), m.group(2)
    opds = []
    if rest:
        for o in rest.split(', '):
            o2 = o.replace('%%', '%')
            mm = re.fullmatch(r'\$%l?[du]', o)
            if mm:
                opds.append(f'.i {args.pop(0)}')
                continue
            mm = re.fullmatch(r'%d\((%%\w+)\)', o)
            if mm:
                opds.append(f'.m {args.pop(0)} "{mm.group(1).replace("%%", "%")}"')
                continue
            mm = re.fullmatch(r'\((%%\w+)\)', o)
            if mm:
                opds.append(f'.m0 "{mm.group(1).replace("%%", "%")}"')
                continue
            mm = re.fullmatch(r'%%\w+', o)
            if mm:
                opds.append(f'.r "{o2}"')
                continue
            mm = re.fullmatch(r'%s', o)
            if mm:
                opds.append(f'.r {args.pop(0)}')
                continue
            mm = re.fullmatch(r'\$(-?\d+)', o)
            if mm:
                opds.append(f'.i {mm.group(1)}' if not mm.group(1).startswith('-') else f'.i ({mm.group(1)})')
                continue
            if '%' in o.replace('%%', ''):
                raise ExtractError(f'{what}: operand with a conversion the translator does not map: {o!r} in {fmt!r}')
            opds.append(f'.s "{o2}"')
    if args:
        raise ExtractError(f'{what}: {len(args)} unused println arguments for {fmt!r}')
    return f'.ins ⟨"{op}", [{", ".join(opds)}]⟩'


def expect(cond, what, msg):
    if not cond:
        raise ExtractError(f'{what}: {msg}')


# ------------------------------------------------------------------ pieces

BF_NAMES_INT = {'mem->bit_width': '(w : Int)', 'mem->bit_offset': '(o : Int)'}
BF_COND = {'mem->ty->is_unsigned': 'isUnsigned', 'mem->ty->kind == TY_BOOL': 'isBool'}


def extraction(stmts, what):
    """[println shl E1; if (C) println shr E2 else println sar E3] -> (E1, E2, C) as Lean text"""
    expect(len(stmts) == 2 and stmts[0][0] == 'println' and stmts[1][0] == 'if', what, f'extraction is not println + if/else: {stmts!r}')
    f0, a0 = stmts[0][1], stmts[0][2]
    expect(f0 == '  shl $%d, %%rax' and len(a0) == 1, what, f'first line is not shl $%d, %rax: {f0!r}')
    _, cond, then, els = stmts[1]
    t, e = body_of(then), body_of(els) if els else []
    expect(len(t) == 1 and len(e) == 1 and t[0][0] == 'println' and e[0][0] == 'println', what, 'shr/sar arms are not single printlns')
    expect(t[0][1] == '  shr $%d, %%rax' and e[0][1] == '  sar $%d, %%rax', what, f'arms are not shr / sar on %rax: {t[0][1]!r} {e[0][1]!r}')
    expect(t[0][2] == e[0][2] and len(t[0][2]) == 1, what, f'shr and sar counts differ: {t[0][2]} {e[0][2]}')
    shl = lean_int(E(a0[0], what).parse(), BF_NAMES_INT, what)
    shr = lean_int(E(t[0][2][0], what).parse(), BF_NAMES_INT, what)
    c = lean_bool(E(cond, what).parse(), BF_COND, what)
    return shl, shr, c


def int_ladder(stmts, what, kind):
    """`if (ty->size == 1) println(A) else if (ty->size == 2) println(B) else if (ty->size == 4) println(C) else println(D)`
    -> [(1, fmt), (2, fmt), (4, fmt), (8, fmt)]"""
    out = []
    cur = stmts
    for sz in (1, 2, 4):
        expect(len(cur) == 1 and cur[0][0] == 'if' and cur[0][1] == f'ty->size == {sz}', what, f'{kind}: expected if (ty->size == {sz}): {cur!r}')
        t = body_of(cur[0][2])
        expect(len(t) == 1 and t[0][0] == 'println', what, f'{kind}: size {sz} arm is not one println')
        out.append((sz, t[0][1], t[0][2]))
        expect(cur[0][3] is not None, what, f'{kind}: no else after size {sz}')
        cur = body_of(cur[0][3])
    expect(len(cur) == 1 and cur[0][0] == 'println', what, f'{kind}: final else is not one println')
    out.append((8, cur[0][1], cur[0][2]))
    return out


def byte_loop(s, what, bound):
    """for (int i = 0; i < BOUND; i++) { println(A, i); println(B, i); } -> (fmtA, fmtB)"""
    expect(s[0] == 'for' and s[1] == f'int i = 0; i < {bound}; i++', what, f'loop header is not `int i = 0; i < {bound}; i++`: {s[1] if s[0] == "for" else s!r}')
    b = body_of(s[2])
    expect(len(b) == 2 and all(x[0] == 'println' and x[2] == ['i'] for x in b), what, f'loop body is not two printlns of i: {b!r}')
    return b[0][1], b[1][1]


def loop_lean(fa, fb, what):
    la = lean_line(fa, ['(i : Int)'], what)
    lb = lean_line(fb, ['(i : Int)'], what)
    return f'((List.range size).flatMap fun i => [{la}, {lb}])'


def generate(repo):
    cg = strip_comments(read(repo, 'codegen.c'))
    gen_expr = function_body(cg, r'^static void gen_expr\(Node \*node\) \{', 'gen_expr')

    # ---------------- ND_MEMBER
    what = 'gen_expr ND_MEMBER'
    m = must(r'case ND_MEMBER:\s*\{(.*?)\n  \}\n\s*case ND_DEREF:', gen_expr, what, re.S)
    st = flat(P(m.group(1), what).all())
    expect([s[1] for s in st if s[0] == 'simple'] == ['gen_addr(node)', 'load(node->ty)', 'Member *mem = node->member', 'return'], what,
           f'statements changed: {[s[1] for s in st if s[0] == "simple"]}')
    expect(len(st) == 5 and st[3][0] == 'if' and st[3][1] == 'mem->is_bitfield' and st[3][3] is None, what, 'expected `if (mem->is_bitfield) {...}` before return')
    shl, shr, logical = extraction(body_of(st[3][2]), what)

    # ---------------- ND_ASSIGN
    what = 'gen_expr ND_ASSIGN'
    m = must(r'case ND_ASSIGN:(.*?)\n\s*case ND_STMT_EXPR:', gen_expr, what, re.S)
    st = flat(P(m.group(1), what).all())
    expect(len(st) == 6 and [s[1] for s in st[:3]] == ['gen_addr(node->lhs)', 'push()', 'gen_expr(node->rhs)'] and st[4] == ('simple', 'store(node->ty)')
           and st[5] == ('simple', 'return'), what, f'arm is not gen_addr; push; gen_expr; if (bitfield) ...; store; return: {st!r}')
    expect(st[3][0] == 'if' and st[3][1] == 'node->lhs->kind == ND_MEMBER && node->lhs->member->is_bitfield' and st[3][3] is None, what,
           f'bit-field condition changed: {st[3][1]!r}')
    bf = body_of(st[3][2])
    expect(bf[0] == ('simple', 'Member *mem = node->lhs->member'), what, f'first statement of the bit-field arm: {bf[0]!r}')
    mm = re.fullmatch(r'unsigned long mask = (.*)', bf[1][1]) if bf[1][0] == 'simple' else None
    expect(mm is not None, what, f'expected `unsigned long mask = ...;`: {bf[1]!r}')
    mask_e = E(mm.group(1), what).parse()
    # the shift `1UL << w` must be guarded for w == 64 (undefined in C otherwise)
    expect(mask_e[0] == 'cond', what, 'mask is computed without a guard for bit_width == 64 (1UL << 64 is undefined)')
    mask_lean = lean_bv64(mask_e, {'mem->bit_width': 'w'}, what)
    lines = []
    seen_load = seen_store = False
    i = 2
    while i < len(bf) and not (bf[i][0] == 'println' and bf[i][1].startswith('  shl $%d, %%rax')):
        s = bf[i]
        if s[0] == 'println':
            args = []
            for a in s[2]:
                ae = E(a, what).parse()
                if a == 'mask':
                    args.append('(bfMask w).toInt')
                elif 'mask' in a:
                    args.append('(' + lean_bv64(ae, {'mask': 'bfMask w', 'mem->bit_offset': 'o'}, what) + ').toInt')
                else:
                    args.append('(' + lean_int(ae, {'mem->bit_offset': '(o : Int)', 'mem->bit_width': '(w : Int)'}, what) + ')')
            for a, f in zip(s[2], re.findall(r'%l?[du]', s[1])):
                expect(('mask' in a) == (f == '%ld'), what, f'mask printed with {f} / int printed with %ld in {s[1]!r}')
            lines.append('[' + lean_line(s[1], args, what) + ']')
        elif s == ('simple', 'load(mem->ty)'):
            expect(not seen_load, what, 'two loads')
            seen_load = True
            lines.append('loadLines')
        elif s == ('simple', 'store(node->ty)'):
            expect(not seen_store and seen_load, what, 'store before load / two stores')
            seen_store = True
            lines.append('storeLines')
        else:
            expect(False, what, f'statement not understood in the bit-field arm: {s!r}')
        i += 1
    expect(seen_load and seen_store, what, 'bit-field arm without load(mem->ty) / store(node->ty)')
    tail = bf[i:]
    expect(len(tail) == 3 and tail[2] == ('simple', 'return'), what, f'the arm does not end with re-extraction; return: {tail!r}')
    shl2, shr2, logical2 = extraction(tail[:2], what)
    expect((shl2, shr2, logical2) == (shl, shr, logical), what, 'value re-extraction after the store differs from the ND_MEMBER load arm')

    # ---------------- load / store
    what = 'load'
    lb = flat(P(function_body(cg, r'^static void load\(Type \*ty\) \{', 'load'), what).all())
    expect(lb[0][0] == 'switch' and lb[1][0] == 'simple' and lb[1][1] == 'char *insn = ty->is_unsigned ? "movz" : "movs"', what,
           f'expected switch (ty->kind) then `char *insn = ty->is_unsigned ? "movz" : "movs"`: {lb[1]!r}')
    lad = int_ladder(lb[2:], what, 'load')
    load_arms = []
    for sz, f, a in lad:
        if a == ['insn']:
            expect(f.startswith('  %s') and f.count('%s') == 1, what, f'insn is not the mnemonic prefix in {f!r}')
            load_arms.append((sz, lean_line(f.replace('%s', 'movz', 1), [], what), lean_line(f.replace('%s', 'movs', 1), [], what)))
        else:
            expect(a == [], what, f'unexpected println arguments {a}')
            load_arms.append((sz, lean_line(f, [], what), lean_line(f, [], what)))
    what = 'store'
    sb = flat(P(function_body(cg, r'^static void store\(Type \*ty\) \{', 'store'), what).all())
    expect(sb[0] == ('simple', 'pop("%rdi")') and sb[1][0] == 'switch' and sb[1][1] == 'ty->kind', what, 'store does not start with pop("%rdi"); switch (ty->kind)')
    sw = body_of(sb[1][2])
    expect(sw[0] == ('case', 'case TY_STRUCT') and sw[1] == ('case', 'case TY_UNION') and sw[2][0] == 'for' and sw[3] == ('simple', 'return'), what,
           f'struct/union arm of store changed: {sw[:4]!r}')
    st_a, st_b = byte_loop(sw[2], what, 'ty->size')
    store_arms = [(sz, lean_line(f, [], what)) for sz, f, a in int_ladder(sb[2:], what, 'store') if expect(a == [], what, 'args') is None]
    pop_body = ' '.join(function_body(cg, r'^static void pop\(char \*arg\) \{', 'pop').split())
    expect(pop_body == 'println(" pop %s", arg); depth--;', 'pop', f'shape changed: {pop_body!r}')

    # ---------------- push_struct / copy_struct_mem / ND_MEMZERO
    what = 'push_struct'
    ps = flat(P(function_body(cg, r'^static void push_struct\(Type \*ty\) \{', what), what).all())
    expect(ps[0] == ('simple', 'int sz = align_to(ty->size, 8)') and ps[1] == ('println', '  sub $%d, %%rsp', ['sz']) and ps[2] == ('simple', 'depth += sz / 8')
           and len(ps) == 4, what, f'shape changed: {ps[:3]!r}')
    ps_a, ps_b = byte_loop(ps[3], what, 'ty->size')
    what = 'copy_struct_mem'
    cm = flat(P(function_body(cg, r'^static void copy_struct_mem\(void\) \{', what), what).all())
    expect(len(cm) == 5 and cm[0] == ('simple', 'Type *ty = current_fn->ty->return_ty') and cm[1] == ('simple', 'Obj *var = current_fn->params')
           and cm[2] == ('println', '  mov %d(%%rbp), %%rdi', ['var->offset']) and cm[4] == ('println', '  mov %%rdi, %%rax', []), what, f'shape changed: {cm!r}')
    cm_a, cm_b = byte_loop(cm[3], what, 'ty->size')
    what = 'gen_expr ND_MEMZERO'
    m = must(r'case ND_MEMZERO:(.*?)\n\s*case ND_COND:', gen_expr, what, re.S)
    mz = flat(P(m.group(1), what).all())
    expect(len(mz) == 5 and all(s[0] == 'println' for s in mz[:4]) and mz[4] == ('simple', 'return'), what, f'shape changed: {mz!r}')
    mz_lines = []
    for s in mz[:4]:
        args = [{'node->var->ty->size': '(size : Int)', 'node->var->offset': 'offset'}.get(a) for a in s[2]]
        expect(None not in args, what, f'println argument not understood: {s[2]}')
        mz_lines.append(lean_line(s[1], args, what))

    # ---------------- assign_lvar_offsets
    what = 'assign_lvar_offsets'
    al = function_body(cg, r'^static void assign_lvar_offsets\(Obj \*prog\) \{', what)
    norm = ' '.join(al.split())
    top0 = int(must(r'int top = (\d+);', norm, what + ': int top = N').group(1))
    bottom0 = int(must(r'int bottom = (\d+);', norm, what + ': int bottom = N').group(1))
    mm = must(r'top = (align_to\(top, \d+\)); var->offset = top; top \+= var->ty->size; \}', norm, what + ': stack parameter slot (top = align_to(top, N); var->offset = top; top += size)')
    param_off = lean_int(E(mm.group(1), what).parse(), {'top': 'top'}, what)
    mm = must(r'for \(Obj \*var = fn->locals; var; var = var->next\) \{ if \(var->offset\) continue; int align = (.*?); '
              r'bottom \+= var->ty->size; bottom = (align_to\(bottom, align\)); var->offset = -bottom; \} '
              r'fn->stack_size = (align_to\(bottom, \d+\)); \}', norm, what + ': loop over fn->locals')
    names = {'var->ty->kind == TY_ARRAY': 'isArray', 'var->ty->size': 'size', 'var->align': 'align'}
    local_align = lean_int(E(mm.group(1), what).parse(), names, what)
    local_bottom = lean_int(E(mm.group(2), what).parse(), {'bottom': '(bottom + size)', 'align': 'align'}, what)
    stack_size = lean_int(E(mm.group(3), what).parse(), {'bottom': 'bottom'}, what)

    # ---------------- builtin_alloca
    what = 'builtin_alloca'
    ba = flat(P(function_body(cg, r'^static void builtin_alloca\(void\) \{', what), what).all())
    expect(all(s[0] == 'println' for s in ba), what, 'not a straight list of printlns')
    alloca_lines = []
    for s in ba:
        args = []
        for a in s[2]:
            expect(a == 'current_fn->alloca_bottom->offset', what, f'println argument not understood: {a!r}')
            args.append('bottomOff')
        alloca_lines.append(lean_line(s[1], args, what))
    fmts = [s[1] for s in ba]
    m_add = re.fullmatch(r'  add \$(\d+), %%rdi', fmts[0])
    m_and = re.fullmatch(r'  and \$(0x[0-9a-fA-F]+|\d+), %%(edi|rdi)', fmts[1])
    expect(m_add is not None and m_and is not None, what, f'rounding is not add $N, %rdi; and $M, %edi|%rdi: {fmts[:2]}')
    alloca_round, alloca_mask, alloca_mask32 = int(m_add.group(1)), int(m_and.group(1), 0), m_and.group(2) == 'edi'
    # prologue store of the initial alloca_bottom
    et = function_body(cg, r'^static void emit_text\(Obj \*prog\) \{', 'emit_text')
    must(r'println\("  push %%rbp"\);\s*println\("  mov %%rsp, %%rbp"\);\s*println\("  sub \$%d, %%rsp", fn->stack_size\);\s*'
         r'println\("  mov %%rsp, %d\(%%rbp\)", fn->alloca_bottom->offset\);', et, 'emit_text prologue (push rbp; mov rsp,rbp; sub stack_size; alloca_bottom = rsp)')

    # ---------------- conversion to _Bool (every assignment to a _Bool lvalue goes through it): cast(), cmp_zero()
    what = 'cast (to _Bool)'
    cb = flat(P(function_body(cg, r'^static void cast\(Type \*from, Type \*to\) \{', 'cast'), what).all())
    bi = [k for k, s in enumerate(cb) if s[0] == 'if' and s[1] == 'to->kind == TY_BOOL']
    expect(len(bi) == 1 and cb[bi[0]][3] is None, what, 'expected exactly one `if (to->kind == TY_BOOL) {...}`')
    # the _Bool arm must come before the cast table is consulted
    expect(all(not (s[0] == 'simple' and 'getTypeId' in s[1]) for s in cb[:bi[0]]), what, 'cast table consulted before the _Bool arm')
    barm = body_of(cb[bi[0]][2])
    expect(len(barm) == 4 and barm[0] == ('simple', 'cmp_zero(from)') and barm[1][0] == 'println' and barm[2][0] == 'println'
           and barm[1][2] == [] and barm[2][2] == [] and barm[3] == ('simple', 'return'), what, f'_Bool arm is not cmp_zero(from); println; println; return: {barm!r}')
    bool_tail = [lean_line(barm[1][1], [], what), lean_line(barm[2][1], [], what)]
    what = 'cmp_zero (integer arm)'
    cz = flat(P(function_body(cg, r'^static void cmp_zero\(Type \*ty\) \{', 'cmp_zero'), what).all())
    expect(cz[0][0] == 'switch' and cz[0][1] == 'ty->kind', what, 'does not start with switch (ty->kind)')
    czb = body_of(cz[0][2])
    di = [k for k, s in enumerate(czb) if s == ('case', 'default')]
    expect(len(di) == 1, what, 'no default arm')
    dflt = czb[di[0] + 1:]
    expect(len(dflt) == 2 and dflt[0][0] == 'if' and dflt[0][1] == 'is_integer(ty) && ty->size <= 4' and dflt[1] == ('simple', 'return'), what,
           f'default arm is not `if (is_integer(ty) && ty->size <= 4) A else B; return`: {dflt!r}')
    cz_small, cz_wide = body_of(dflt[0][2]), body_of(dflt[0][3]) if dflt[0][3] else []
    expect(len(cz_small) == 1 and len(cz_wide) == 1 and cz_small[0][0] == 'println' and cz_wide[0][0] == 'println'
           and cz_small[0][2] == [] and cz_wide[0][2] == [], what, 'arms of the integer comparison are not single printlns')
    cz_small_l, cz_wide_l = lean_line(cz_small[0][1], [], what), lean_line(cz_wide[0][1], [], what)
    # the arms before `default` are the floating kinds only
    expect([s[1] for s in czb[:di[0]] if s[0] == 'case'] == ['case TY_FLOAT', 'case TY_DOUBLE', 'case TY_LDOUBLE'], what,
           f'non-default arms changed: {[s[1] for s in czb[:di[0]] if s[0] == "case"]}')

    # ---------------- gen_addr ND_MEMBER / ND_VLA_PTR, ND_VAR local
    ga = function_body(cg, r'^static void gen_addr\(Node \*node\) \{', 'gen_addr')
    must(r'case ND_MEMBER:\s*gen_addr\(node->lhs\);\s*println\("  add \$%d, %%rax", node->member->offset\);\s*return;', ga, 'gen_addr ND_MEMBER (gen_addr lhs; add $offset, %rax)')
    must(r'case ND_DEREF:\s*gen_expr\(node->lhs\);\s*return;', ga, 'gen_addr ND_DEREF (gen_expr lhs)')
    must(r'case ND_VLA_PTR:\s*println\("  lea %d\(%%rbp\), %%rax", node->var->offset\);\s*return;', ga, 'gen_addr ND_VLA_PTR')

    o = HEADER.format(tool='c04gen.py', src='codegen.c (gen_expr ND_MEMBER/ND_ASSIGN/ND_MEMZERO, load, store, push_struct, copy_struct_mem, assign_lvar_offsets, builtin_alloca)')
    o += 'import ChibiVerif.Model.Asm\nimport ChibiVerif.Gen.DeclspecGen\n\nnamespace ChibiVerif.Gen.C04\nopen ChibiVerif.Asm\nopen ChibiVerif.Gen.Declspec (alignTo)\n\n'
    o += '/-! ### bit-fields: gen_expr ND_MEMBER (load) and ND_ASSIGN (read-modify-write, value re-extracted) -/\n\n'
    o += f'/-- count of `shl $%d, %rax` -/\ndef bfShlCount (w o : Nat) : Int := {shl}\n\n'
    o += f'/-- count of `shr|sar $%d, %rax` -/\ndef bfShrCount (w : Nat) : Int := {shr}\n\n'
    o += f'/-- `shr` (true) or `sar` (false) -/\ndef bfLogical (isUnsigned isBool : Bool) : Bool := {logical}\n\n'
    o += f'/-- `unsigned long mask = {mm_text(mask_e)}` -/\ndef bfMask (w : Nat) : BitVec 64 := {mask_lean}\n\n'
    o += '/-- the two lines that extract a field from the unit in %rax -/\n'
    o += 'def bfExtractLines (w o : Nat) (isUnsigned isBool : Bool) : List Line :=\n'
    o += '  [.ins ⟨"shl", [.i (bfShlCount w o), .r "%rax"]⟩,\n'
    o += '   .ins ⟨if bfLogical isUnsigned isBool then "shr" else "sar", [.i (bfShrCount w), .r "%rax"]⟩]\n\n'
    o += '/-- the bit-field arm of ND_ASSIGN after `gen_addr(lhs); push(); gen_expr(rhs)`; `loadLines` = load(mem->ty), `storeLines` = store(node->ty) -/\n'
    o += 'def bfAssignLines (w o : Nat) (isUnsigned isBool : Bool) (loadLines storeLines : List Line) : List Line :=\n  '
    o += ' ++\n  '.join(lines) + ' ++\n  bfExtractLines w o isUnsigned isBool\n\n'
    o += '/-! ### load / store -/\n\n/-- integer tail of `load`: one line per size (other sizes fall into the last arm like the C ladder) -/\n'
    o += 'def loadIntLine (size : Nat) (isUnsigned : Bool) : Line :=\n'
    for sz, lu, ls in load_arms[:3]:
        o += f'  if size = {sz} then (if isUnsigned then {lu} else {ls}) else\n'
    o += f'  (if isUnsigned then {load_arms[3][1]} else {load_arms[3][2]})\n\n'
    o += '/-- `store` of an integer/pointer: `pop %rdi` and one line per size -/\ndef storeIntLines (size : Nat) : List Line :=\n  [.ins ⟨"pop", [.r "%rdi"]⟩,\n'
    for sz, l in store_arms[:3]:
        o += f'   if size = {sz} then {l} else\n'
    o += f'   {store_arms[3][1]}]\n\n'
    o += '/-- conversion of an integer in %rax to `_Bool` (`cast`, arm `to->kind == TY_BOOL`): `cmp_zero(from)` then the two lines;\n'
    o += '    `small` = `is_integer(from) && from->size <= 4` -/\ndef boolCastLines (small : Bool) : List Line :=\n'
    o += f'  [if small then {cz_small_l} else {cz_wide_l},\n   {bool_tail[0]},\n   {bool_tail[1]}]\n\n'
    o += '/-- `store` of a struct/union: `pop %rdi` and the byte loop `for (i = 0; i < ty->size; i++)` -/\n'
    o += f'def storeStructLines (size : Nat) : List Line :=\n  [.ins ⟨"pop", [.r "%rdi"]⟩] ++ {loop_lean(st_a, st_b, "store")}\n\n'
    o += '/-- `push_struct`: `sub $align_to(size, 8), %rsp` and the byte loop -/\n'
    o += f'def pushStructLines (size : Nat) : List Line :=\n  [{lean_line("  sub $%d, %%rsp", ["(alignTo (size : Int) 8)"], "push_struct")}] ++ {loop_lean(ps_a, ps_b, "push_struct")}\n\n'
    o += '/-- `copy_struct_mem`: destination from the hidden first parameter, byte loop, address back in %rax -/\n'
    o += f'def copyStructMemLines (paramOff : Int) (size : Nat) : List Line :=\n  [{lean_line(cm[2][1], ["paramOff"], "copy_struct_mem")}] ++ {loop_lean(cm_a, cm_b, "copy_struct_mem")} ++ [{lean_line(cm[4][1], [], "copy_struct_mem")}]\n\n'
    o += '/-- ND_MEMZERO -/\ndef memzeroLines (size : Nat) (offset : Int) : List Line :=\n  [' + ',\n   '.join(mz_lines) + ']\n\n'
    o += '/-! ### assign_lvar_offsets -/\n\n'
    o += f'def FRAME_TOP0 : Int := {top0}\ndef FRAME_BOTTOM0 : Int := {bottom0}\n\n'
    o += f'/-- offset of a pass-by-stack parameter: `top = align_to(top, 8); var->offset = top;` (then `top += size`) -/\ndef stackParamOffset (top : Int) : Int := {param_off}\n\n'
    o += f'/-- `int align = ...` of a local -/\ndef localAlign (isArray : Bool) (size align : Int) : Int := {local_align}\n\n'
    o += f'/-- `bottom += size; bottom = align_to(bottom, align);` (then `var->offset = -bottom`) -/\ndef localBottom (bottom size align : Int) : Int := {local_bottom}\n\n'
    o += f'/-- `fn->stack_size` -/\ndef stackSize (bottom : Int) : Int := {stack_size}\n\n'
    o += '/-! ### builtin_alloca -/\n\ndef allocaLines (bottomOff : Int) : List Line :=\n  [' + ',\n   '.join(alloca_lines) + ']\n\n'
    o += f'/-- `add $N, %rdi` -/\ndef ALLOCA_ROUND : Nat := {alloca_round}\n/-- `and $M, %edi|%rdi` -/\ndef ALLOCA_MASK : Nat := 0x{alloca_mask:x}\n'
    o += f'/-- the `and` is on %edi (the result is zero-extended into %rdi) -/\ndef ALLOCA_MASK_32BIT : Bool := {"true" if alloca_mask32 else "false"}\n\n'
    o += 'end ChibiVerif.Gen.C04\n'
    return {'C04Gen.lean': o}


def mm_text(e):
    """C-like rendering of an expression AST, for the doc comment"""
    k = e[0]
    if k == 'num':
        return str(e[1]) + e[2]
    if k == 'var':
        return e[1]
    if k == 'un':
        return e[1] + mm_text(e[2])
    if k == 'bin':
        return f'({mm_text(e[2])} {e[1]} {mm_text(e[3])})'
    if k == 'cond':
        return f'({mm_text(e[1])} ? {mm_text(e[2])} : {mm_text(e[3])})'
    return '?'
