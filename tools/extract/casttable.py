"""codegen.c -> Gen/CastTableGen.lean : the 11x11 cast_table (every cell parsed into
structured instructions) and getTypeId.

Shapes understood (anything else raises ExtractError):
  enum { I8, I16, ... };                                   the column/row names
  #define NAME "..." "..."   (with line continuations)     string macros used in cells
  static char NAME[] = <string literals and macro names>;  cell strings
  static char *cast_table[][N] = { {a, b, NULL, ...}, ... };
  static int getTypeId(Type *ty) { switch (ty->kind) { case TY_X: return ty->is_unsigned ? A : B;
                                                       case TY_Y: return C; ... } return D; }
A cell string is a list of pieces separated by ';'.  A piece is `op`, `op a`, `op a, b`,
optionally preceded by a local label `N:`; a piece may also be just a label.  Operands:
`%reg`, `$decimal`, `$0xhex` (kept verbatim), `disp(%reg)`, `(%reg)`, a local label reference `Nf`/`Nb`.
"""
import re
from common import *

TYKINDS = {'TY_VOID': 'void', 'TY_BOOL': 'bool', 'TY_CHAR': 'char', 'TY_SHORT': 'short', 'TY_INT': 'int',
           'TY_LONG': 'long', 'TY_FLOAT': 'float', 'TY_DOUBLE': 'double', 'TY_LDOUBLE': 'ldouble',
           'TY_ENUM': 'enum', 'TY_PTR': 'ptr', 'TY_FUNC': 'func', 'TY_ARRAY': 'array', 'TY_VLA': 'vla',
           'TY_STRUCT': 'struct', 'TY_UNION': 'union'}

STR = r'"(?:\\.|[^"\\])*"'


def c_unescape(lit):
    body = lit[1:-1]
    if '\\' in body:
        raise ExtractError(f'escape sequence in cast string {lit}')
    return body


def string_expr(expr, macros, what):
    """concatenation of string literals and macro names -> python str"""
    out = ''
    pos = 0
    expr = expr.strip()
    for m in re.finditer(r'\s*(' + STR + r'|[A-Za-z_]\w*)\s*', expr):
        if m.start() != pos:
            raise ExtractError(f'cannot read the string expression of {what}: {expr!r}')
        pos = m.end()
        t = m.group(1)
        if t.startswith('"'):
            out += c_unescape(t)
        elif t in macros:
            out += macros[t]
        else:
            raise ExtractError(f'unknown name {t} in the string expression of {what}')
    if pos != len(expr):
        raise ExtractError(f'cannot read the string expression of {what}: {expr!r}')
    return out


def lean_str(s):
    return '"' + s.replace('\\', '\\\\').replace('"', '\\"') + '"'


def parse_operand(o, cell):
    o = o.strip()
    if re.fullmatch(r'%[a-z0-9]+(\(\d\))?', o):
        return f'.r {lean_str(o)}', o
    m = re.fullmatch(r'\$(-?\d+)', o)
    if m:
        n = int(m.group(1))
        return (f'.i {n}' if n >= 0 else f'.i ({n})'), f'${n}'
    if re.fullmatch(r'\$0x[0-9a-fA-F]+', o):
        # a hexadecimal immediate (bit pattern of a floating constant in the float -> unsigned long cells): kept verbatim
        return f'.s {lean_str(o)}', o
    m = re.fullmatch(r'(-?\d+)\((%[a-z0-9]+)\)', o)
    if m:
        d = int(m.group(1))
        return (f'.m {d} {lean_str(m.group(2))}' if d >= 0 else f'.m ({d}) {lean_str(m.group(2))}'), f'{d}({m.group(2)})'
    m = re.fullmatch(r'\((%[a-z0-9]+)\)', o)
    if m:
        return f'.m0 {lean_str(m.group(1))}', o
    if re.fullmatch(r'\d+[fb]', o):
        return f'.s {lean_str(o)}', o
    raise ExtractError(f'operand {o!r} of cast string {cell} has a shape the translator does not understand')


def parse_cell(name, text):
    """-> (lean Line term, list of (op, [operands]))"""
    pieces = text.split(';')
    if pieces and pieces[-1].strip() == '':
        raise ExtractError(f'cast string {name} ends in an empty piece')
    ins = []       # lean terms
    canon = []     # canonical rendering of each Ins
    for piece in pieces:
        p = piece.strip()
        if p == '':
            raise ExtractError(f'empty piece in cast string {name}')
        m = re.match(r'(\d+:)\s*', p)
        if m:
            ins.append(f'⟨{lean_str(m.group(1))}, []⟩')
            canon.append(m.group(1))
            p = p[m.end():]
            if p == '':
                continue
        m = re.fullmatch(r'([a-z][a-z0-9]*)(?:\s+(.*))?', p)
        if not m:
            raise ExtractError(f'piece {p!r} of cast string {name} has a shape the translator does not understand')
        op, rest = m.group(1), m.group(2)
        opds = []
        if rest is not None:
            for o in rest.split(','):
                opds.append(parse_operand(o, name))
        ins.append(f'⟨{lean_str(op)}, [{", ".join(t for t, _ in opds)}]⟩')
        canon.append(op + ((' ' + ', '.join(c for _, c in opds)) if opds else ''))
    canonical = '; '.join(canon)
    body = '[' + ', '.join(ins) + ']'
    if canonical == text:
        return f'.multi {body}'
    # same instruction sequence, different spacing / labels: the squeezed texts must agree
    sq = lambda s: re.sub(r'\s+', '', s)
    if sq(canonical.replace(':;', ':')) != sq(text):
        raise ExtractError(f'cast string {name}: parsed form {canonical!r} does not match the source {text!r}')
    return f'.multiT {lean_str(text)} {body}'


def generate(repo):
    raw = read(repo, 'codegen.c')
    src = strip_comments(raw)

    # enum of type ids
    m = must(r'enum\s*\{\s*(I8\s*,[^}]*)\}\s*;', src, 'enum { I8, ... }')
    ids = [x.strip() for x in m.group(1).split(',') if x.strip()]
    if any(not re.fullmatch(r'[IUF]\d+', x) for x in ids):
        raise ExtractError(f'unexpected type-id enum {ids}')
    n = len(ids)

    # string macros
    macros = {}
    joined = src.replace('\\\n', ' ')
    for m in re.finditer(r'^[ \t]*#[ \t]*define[ \t]+([A-Za-z_]\w*)[ \t]+((?:[ \t]*' + STR + r')+)[ \t]*$', joined, re.M):
        macros[m.group(1)] = string_expr(m.group(2), {}, '#define ' + m.group(1))

    # cell strings
    cells = {}
    for m in re.finditer(r'static\s+char\s+([a-z]\w*)\s*\[\s*\]\s*=', joined):
        name = m.group(1)
        i = m.end()
        # read up to the terminating ';' outside string literals
        j = i
        while True:
            if j >= len(joined):
                raise ExtractError(f'unterminated initializer of {name}')
            c = joined[j]
            if c == '"':
                mm = re.compile(STR).match(joined, j)
                if not mm:
                    raise ExtractError(f'bad string literal in initializer of {name}')
                j = mm.end()
                continue
            if c == ';':
                break
            j += 1
        cells[name] = string_expr(joined[i:j], macros, name)

    # the table
    m = must(r'static\s+char\s*\*\s*cast_table\s*\[\s*\]\s*\[\s*(\d+)\s*\]\s*=\s*\{(.*?)\}\s*;', src, 'cast_table', re.S)
    if int(m.group(1)) != n:
        raise ExtractError(f'cast_table has {m.group(1)} columns but the enum has {n} ids')
    rows = re.findall(r'\{([^{}]*)\}', m.group(2))
    if len(rows) != n:
        raise ExtractError(f'cast_table has {len(rows)} rows, expected {n}')
    if re.sub(r'\{[^{}]*\}|[\s,]', '', m.group(2)) != '':
        raise ExtractError('cast_table initializer has text outside the row braces')
    table = []
    used = []
    for r in rows:
        ents = [x.strip() for x in r.split(',')]
        if ents and ents[-1] == '':
            ents.pop()
        if len(ents) != n:
            raise ExtractError(f'cast_table row has {len(ents)} entries, expected {n}: {r}')
        for e in ents:
            if e != 'NULL' and e not in cells:
                raise ExtractError(f'cast_table refers to unknown string {e}')
            if e != 'NULL' and e not in used:
                used.append(e)
        table.append(ents)

    # cast() must index the table as cast_table[getTypeId(from)][getTypeId(to)] and print "  %s"
    body = re.sub(r'\s+', ' ', function_body(src, r'static\s+void\s+cast\s*\(\s*Type\s*\*\s*from\s*,\s*Type\s*\*\s*to\s*\)\s*\{', 'cast()'))
    if not re.search(r'int t1 = getTypeId\(from\); int t2 = getTypeId\(to\); if \(cast_table\[t1\]\[t2\]\) println\(" %s", cast_table\[t1\]\[t2\]\);', body):
        raise ExtractError('cast() no longer indexes cast_table[getTypeId(from)][getTypeId(to)]: ' + body)

    # getTypeId
    gb = re.sub(r'\s+', ' ', function_body(src, r'static\s+int\s+getTypeId\s*\(\s*Type\s*\*\s*ty\s*\)\s*\{', 'getTypeId')).strip()
    m = re.fullmatch(r'switch \(ty->kind\) \{ (.*) \} return (\w+);', gb)
    if not m:
        raise ExtractError('getTypeId has a shape the translator does not understand: ' + gb)
    default = m.group(2)
    arms = []
    rest = m.group(1).strip()
    arm_re = re.compile(r'((?:case TY_\w+: )+)return (?:ty->is_unsigned \? (\w+) : (\w+)|(\w+)); ?')
    p = 0
    while p < len(rest):
        mm = arm_re.match(rest, p)
        if not mm:
            raise ExtractError('getTypeId arm has a shape the translator does not understand: ' + rest[p:p + 80])
        kinds = re.findall(r'case (TY_\w+):', mm.group(1))
        if mm.group(4):
            u = s = mm.group(4)
        else:
            u, s = mm.group(2), mm.group(3)
        for k in kinds:
            if k not in TYKINDS:
                raise ExtractError(f'getTypeId: unknown type kind {k}')
            arms.append((TYKINDS[k], u, s))
        p = mm.end()
    for x in [default] + [a for _, a, _ in arms] + [b for _, _, b in arms]:
        if x not in ids:
            raise ExtractError(f'getTypeId returns unknown id {x}')
    if len({k for k, _, _ in arms}) != len(arms):
        raise ExtractError('getTypeId: duplicate case')

    out = HEADER.format(tool='casttable.py', src='codegen.c')
    out += 'import ChibiVerif.Model.Asm\nimport ChibiVerif.Model.Ast\n\n'
    out += 'namespace ChibiVerif.Gen.CastTable\nopen ChibiVerif.Asm ChibiVerif.Ast\n\n'
    out += f'/-- the enum of codegen.c: {", ".join(f"{x}={i}" for i, x in enumerate(ids))} -/\n'
    out += 'def typeIdNames : List String := [' + ', '.join(lean_str(x.lower()) for x in ids) + ']\n\n'
    for i, x in enumerate(ids):
        out += f'def {x} : Nat := {i}\n'
    out += '\n/-- `getTypeId(ty)` as a function of `ty->kind` and `ty->is_unsigned` -/\n'
    out += 'def getTypeId (k : TyKind) (isUnsigned : Bool) : Nat :=\n  match k with\n'
    for k, u, s in arms:
        if u == s:
            out += f'  | .{k} => {u}\n'
        else:
            out += f'  | .{k} => if isUnsigned then {u} else {s}\n'
    if len(arms) < len(TYKINDS):
        out += f'  | _ => {default}\n'
    out += '\n'
    for name in used:
        out += f'/-- `{cells[name]}` -/\n'
        out += f'def {name} : Line :=\n  {parse_cell(name, cells[name])}\n\n'
    out += '/-- `cast_table[from][to]`; `none` = NULL (no instruction) -/\n'
    out += 'def castTable : List (List (Option Line)) := [\n'
    for ri, r in enumerate(table):
        out += '  [' + ', '.join('none' if e == 'NULL' else f'some {e}' for e in r) + ']' + (',' if ri + 1 < n else '') + f'  -- {ids[ri].lower()}\n'
    out += ']\n\n'
    out += 'def castCell (t1 t2 : Nat) : Option Line :=\n  (castTable[t1]?.bind (·[t2]?)).join\n\n'
    out += 'end ChibiVerif.Gen.CastTable\n'
    return {'CastTableGen.lean': out}
