"""parse.c declspec / type.c primitives / align_to, align_down -> Gen/DeclspecGen.lean   (property C08)

What is regenerated from the snapshot on every run:
  * the counter enum of `declspec` (VOID = 1 << 0 ... UNSIGNED = 1 << 18),
  * the keyword ladder  `if (equal(tok, "long")) counter += LONG; ... else unreachable();`
    as a map keyword -> (constant, `+=` or `|=`),
  * the `switch (counter)` as a list  counter value -> primitive type, `default:` must be error_tok(... "invalid type"),
  * the initial values `Type *ty = ty_int; int counter = 0;`,
  * the primitive `Type` literals of type.c (size, align, is_unsigned), pointer_to / enum_type / struct_type literals,
    the shape of array_of,
  * the `_Alignas` arm of declspec (pinned; the field of the operand type that `_Alignas(type-name)` reads and the guard of the
    diagnostic of `_Alignas(constant)` are translated),
    `mem->align = attr.align ? attr.align : mem->ty->align` in struct_members, the `var->align` assignments,
  * attribute_list's `aligned(N)` arm: pinned frame; the guard of its diagnostic (`n < 0 || n > (1 << 28) || (n & (n - 1))`, each atom
    translated, bounds evaluated) and `if (n) ty->align = n;` become `alignedAttrBad` / `alignedAttrApply`; struct_union_decl's
    order struct_type(); attribute_list; struct_members; attribute_list is pinned,
  * struct_members' bit-field arm (pinned: `if (!is_integer(mem->ty)) error_tok(..)`, `if (mem->ty->is_atomic) error_tok(..)` before
    `mem->is_bitfield = true`) and the list of
    TypeKinds type.c `is_integer` accepts (`integerKinds`),
  * align_to (codegen.c) and align_down (parse.c) as Lean functions on Int with C's truncating division.
Anything that does not have exactly the expected shape raises ExtractError."""
import re
from common import *

KW_LEAN = {'void': 'void', '_Bool': 'bool', 'char': 'char', 'short': 'short', 'int': 'int', 'long': 'long',
           'float': 'float', 'double': 'double', 'signed': 'signed', 'unsigned': 'unsigned'}
TY_LEAN = {'void': 'void', 'bool': 'bool', 'char': 'char', 'uchar': 'uchar', 'short': 'short', 'ushort': 'ushort',
           'int': 'int', 'uint': 'uint', 'long': 'long', 'ulong': 'ulong', 'float': 'float', 'double': 'double',
           'ldouble': 'ldouble'}

def norm(s):
    return re.sub(r'\s+', ' ', s).strip()

def const_expr(s, env, what):
    """NAME | int | a << b | sums of those"""
    s = s.strip()
    total = 0
    for term in s.split('+'):
        term = term.strip()
        m = re.fullmatch(r'(\d+)\s*<<\s*(\d+)', term)
        if m:
            total += int(m.group(1)) << int(m.group(2))
        elif re.fullmatch(r'\d+', term):
            total += int(term)
        elif term in env:
            total += env[term]
        else:
            raise ExtractError(f'{what}: cannot evaluate {term!r} in {s!r}')
    return total

def guard_to_lean(cond, what):
    """`n < K || n > K2 || (n & (n - 1))` over `int64_t n` -> (list of Lean Bool atoms over `n : Int`, {'<': K, '>': K2}).
    Atoms are evaluated left to right (`||` short-circuits): the bit test must come after the sign test."""
    atoms = []
    bounds = {}
    for k_atom, atom in enumerate(cond.split('||')):
        atom = atom.strip()
        mm = re.fullmatch(r'n (<|>|<=|>=) (\(.+\)|\d+)', atom)
        if mm:
            v = const_expr(mm.group(2).strip('()'), {}, what + ' bound')
            atoms.append(f'decide (n {({"<": "<", ">": ">", "<=": "≤", ">=": "≥"})[mm.group(1)]} {v})')
            if mm.group(1) in bounds:
                raise ExtractError(f'parse.c: {what}: two tests with {mm.group(1)}')
            bounds[mm.group(1)] = v
        elif atom == '(n & (n - 1))':
            # int64_t two's complement; reached only when the earlier atoms are false
            if k_atom == 0 or '<' not in bounds:
                raise ExtractError(f'parse.c: {what}: `n & (n - 1)` is evaluated before the sign of n is tested')
            atoms.append('(BitVec.ofInt 64 n &&& BitVec.ofInt 64 (n - 1)) != 0#64')
        else:
            raise ExtractError(f'parse.c: {what}: guard atom of unknown shape: ' + atom)
    if set(bounds) != {'<', '>'}:
        raise ExtractError(f'parse.c: {what}: expected one lower and one upper bound test, found: ' + cond)
    if bounds['<'] < -2**31 or bounds['>'] >= 2**31:
        raise ExtractError(f'parse.c: {what}: the accepted range does not fit the `int` the value is stored in')
    return atoms, bounds

def generate(repo):
    parse = strip_comments(read(repo, 'parse.c'))
    typec = strip_comments(read(repo, 'type.c'))
    codegen = strip_comments(read(repo, 'codegen.c'))

    body = function_body(parse, r'^static\s+Type\s*\*\s*declspec\s*\(\s*Token\s*\*\*\s*rest\s*,\s*Token\s*\*\s*tok\s*,\s*VarAttr\s*\*\s*attr\s*\)\s*\{', 'declspec')

    # ---- enum
    m = must(r'enum\s*\{([^}]*)\}\s*;', body, 'the counter enum in declspec')
    enum = {}
    order = []
    for item in m.group(1).split(','):
        item = item.strip()
        if not item:
            continue
        mm = re.fullmatch(r'([A-Z_]+)\s*=\s*(.+)', item)
        if not mm:
            raise ExtractError(f'enum item of unknown shape: {item!r}')
        enum[mm.group(1)] = const_expr(mm.group(2), enum, 'enum')
        order.append(mm.group(1))
    if len(set(enum.values())) != len(enum):
        raise ExtractError('two counter constants have the same value')

    # ---- initial values
    m = must(r'Type\s*\*\s*ty\s*=\s*ty_(\w+)\s*;\s*int\s+counter\s*=\s*(\d+)\s*;', body, 'initial ty/counter in declspec')
    init_ty, init_counter = m.group(1), int(m.group(2))
    if init_ty not in TY_LEAN:
        raise ExtractError(f'initial type ty_{init_ty} unknown')

    # ---- the `_Alignas` arm (both forms), pinned token for token except the field read from the operand type
    ia = body.find('if (equal(tok, "_Alignas")) {')
    if ia < 0:
        raise ExtractError('declspec: the _Alignas arm was not found')
    ja = body.index('{', ia)
    depth_a = 0
    ka = ja
    while True:
        if body[ka] == '{':
            depth_a += 1
        elif body[ka] == '}':
            depth_a -= 1
            if depth_a == 0:
                break
        ka += 1
    arm = norm(body[ja + 1:ka])
    ma = re.fullmatch(r'if \(!attr\) error_tok\(tok, "_Alignas is not allowed in this context"\); tok = skip\(tok->next, "\("\); '
                      r'int align; if \(is_typename\(tok\)\) \{ align = typename\(&tok, tok\)->(\w+); \} '
                      r'else \{ Token \*start = tok; int64_t n = const_expr\(&tok, tok\); if \((.+?)\) error_tok\(start, "([^"]*)"\); align = n; \} '
                      r'attr->align = MAX\(attr->align, align\); '
                      r'tok = skip\(tok, "\)"\); continue;', arm)
    if not ma:
        raise ExtractError('declspec: the _Alignas arm has a shape the translator does not understand: ' + arm)
    if ma.group(3) != 'alignment must be a power of two no larger than 2^28':
        raise ExtractError('declspec: the _Alignas(constant) diagnostic changed: ' + ma.group(3))
    as_atoms, as_bounds = guard_to_lean(ma.group(2), '_Alignas(constant)')
    as_cond = ma.group(2)
    alignas_field = ma.group(1)
    if alignas_field != 'align':
        raise ExtractError(f'declspec: _Alignas(type-name) reads ->{alignas_field} of the operand type (C11 6.7.5p6: its alignment)')
    hdr = strip_comments(read(repo, 'chibicc.h'))
    mm = must(r'#\s*define\s+MAX\s*\(\s*x\s*,\s*y\s*\)\s*(.+)', hdr, '#define MAX(x, y) in chibicc.h')
    if norm(mm.group(1)) != '((x) < (y) ? (y) : (x))':
        raise ExtractError('chibicc.h: MAX has an unknown shape: ' + mm.group(1))
    # struct_members: mem->align = attr.align ? attr.align : mem->ty->align;   (anonymous member and regular member)
    assigns = re.findall(r'mem->align\s*=\s*([^;]+);', parse)
    if [norm(a) for a in assigns] != ['attr.align ? attr.align : mem->ty->align'] * 2:
        raise ExtractError('parse.c: expected exactly two `mem->align = attr.align ? attr.align : mem->ty->align;`, found: ' + repr(assigns))
    # variables: var->align = ty->align (new_var) overridden by attr->align in declaration() (block-scope static and automatic) and global_variable()
    vassigns = [norm(a) for a in re.findall(r'var->align\s*=\s*([^;]+);', parse)]
    if sorted(vassigns) != ['attr->align', 'attr->align', 'attr->align', 'ty->align']:
        raise ExtractError('parse.c: assignments to var->align changed: ' + repr(vassigns))
    if len(re.findall(r'if \(attr && attr->align\)\s*var->align = attr->align;', parse)) != 1 or \
       len(re.findall(r'if \(attr->align\)\s*var->align = attr->align;', parse)) != 2:
        raise ExtractError('parse.c: the guards of `var->align = attr->align` changed')
    # attribute_list: aligned(N).  Pinned frame; the guard of the diagnostic and the assignment are translated:
    #   int64_t n = const_expr(..); if (<atom> || <atom> ...) error_tok(start, "<msg>"); if (n) ty->align = n;
    al_body = norm(function_body(parse, r'^static\s+Token\s*\*\s*attribute_list\s*\(\s*Token\s*\*\s*tok\s*,\s*Type\s*\*\s*ty\s*\)\s*\{', 'attribute_list'))
    mal = re.findall(r'if \(consume\(&tok, tok, "aligned"\)\) \{ tok = skip\(tok, "\("\); Token \*start = tok; int64_t n = const_expr\(&tok, tok\); '
                     r'if \((.+?)\) error_tok\(start, "([^"]*)"\); if \(n\) ty->align = n; tok = skip\(tok, "\)"\); continue; \}', al_body)
    if len(mal) != 1:
        raise ExtractError('parse.c: attribute_list aligned(N) arm changed')
    if len(re.findall(r'ty->align\s*=', al_body)) != 1 or len(re.findall(r'"aligned"', al_body)) != 1:
        raise ExtractError('parse.c: attribute_list assigns ty->align / tests "aligned" more than once')
    al_cond, al_msg = mal[0]
    if al_msg != 'alignment must be a power of two no larger than 2^28':
        raise ExtractError('parse.c: the aligned(N) diagnostic changed: ' + al_msg)
    al_atoms, al_bounds = guard_to_lean(al_cond, 'aligned(N)')
    # struct_members: a bit-field must have an integer type (the guard sits between `mem->align = ..` and `mem->is_bitfield = true`)
    sm_body = norm(function_body(parse, r'^static\s+void\s+struct_members\s*\(\s*Token\s*\*\*\s*rest\s*,\s*Token\s*\*\s*tok\s*,\s*Type\s*\*\s*ty\s*\)\s*\{', 'struct_members'))
    mbf = re.findall(r'mem->ty = declarator\(&tok, tok, basety\); .*?mem->align = attr\.align \? attr\.align : mem->ty->align; '
                     r'if \(equal\(tok, ":"\)\) \{ if \(!(\w+)\(mem->ty\)\) error_tok\(tok, "([^"]*)"\); '
                     r'if \(mem->ty->is_atomic\) error_tok\(tok, "([^"]*)"\); mem->is_bitfield = true; '
                     r'mem->bit_width = const_expr\(&tok, tok->next\); \} cur = cur->next = mem;', sm_body)
    if len(mbf) != 1 or len(re.findall(r'is_bitfield\s*=', sm_body)) != 1:
        raise ExtractError('parse.c: struct_members: the bit-field arm changed')
    if mbf[0] != ('is_integer', 'bit-field has non-integer type', 'bit-field has atomic type'):
        raise ExtractError('parse.c: struct_members: the guard of the bit-field arm changed: ' + repr(mbf[0]))
    isint = norm(function_body(typec, r'^bool\s+is_integer\s*\(\s*Type\s*\*\s*ty\s*\)\s*\{', 'is_integer'))
    mi = re.fullmatch(r'TypeKind k = ty->kind; return ((?:k == TY_\w+(?: \|\| )?)+);', isint)
    if not mi:
        raise ExtractError('type.c: is_integer has an unknown shape: ' + isint)
    integer_kinds = re.findall(r'k == (TY_\w+)', mi.group(1))
    kinds_hdr = must(r'typedef\s+enum\s*\{([^}]*)\}\s*TypeKind\s*;', hdr, 'enum TypeKind in chibicc.h')
    all_kinds = [x.strip() for x in kinds_hdr.group(1).split(',') if x.strip()]
    for kname in integer_kinds + ['TY_PTR', 'TY_ENUM', 'TY_ARRAY', 'TY_STRUCT', 'TY_UNION']:
        if kname not in all_kinds:
            raise ExtractError(f'chibicc.h: TypeKind has no {kname}')
    # struct_union_decl: ty->align starts as struct_type() left it; attributes before the tag and after the member list
    sud = norm(function_body(parse, r'^static\s+Type\s*\*\s*struct_union_decl\s*\(\s*Token\s*\*\*\s*rest\s*,\s*Token\s*\*\s*tok\s*\)\s*\{', 'struct_union_decl'))
    if not sud.startswith('Type *ty = struct_type(); tok = attribute_list(tok, ty);') or \
       'struct_members(&tok, tok, ty); *rest = attribute_list(tok, ty);' not in sud or len(re.findall(r'attribute_list\(', sud)) != 2:
        raise ExtractError('parse.c: struct_union_decl no longer runs struct_type(); attribute_list; struct_members; attribute_list')

    # ---- the loop must be `while (is_typename(tok)) {`, the switch is inside it and followed by tok = tok->next
    if not re.search(r'while\s*\(\s*is_typename\s*\(\s*tok\s*\)\s*\)\s*\{', body):
        raise ExtractError('declspec: loop `while (is_typename(tok))` not found')

    # ---- keyword ladder
    i0 = body.find('if (equal(tok, "void"))')
    i1 = body.find('switch (counter)')
    if i0 < 0 or i1 < 0 or i1 < i0:
        raise ExtractError('declspec: keyword ladder or switch (counter) not found')
    ladder = norm(body[i0:i1])
    arms = re.findall(r'(?:else )?if \(equal\(tok, "(\w+)"\)\) counter (\+=|\|=) ([A-Z_]+);', ladder)
    rebuilt = ' '.join(('' if i == 0 else 'else ') + f'if (equal(tok, "{k}")) counter {op} {c};' for i, (k, op, c) in enumerate(arms))
    rebuilt += ' else unreachable();'
    if rebuilt != ladder:
        raise ExtractError('declspec: keyword ladder has a shape the translator does not understand: ' + ladder[:300])
    kws = []
    for k, op, c in arms:
        if k not in KW_LEAN:
            raise ExtractError(f'declspec: unknown built-in type keyword {k!r}')
        if c not in enum:
            raise ExtractError(f'declspec: unknown counter constant {c}')
        kws.append((k, op == '|=', c))
    if len({k for k, _, _ in kws}) != len(kws):
        raise ExtractError('declspec: keyword tested twice in the ladder')
    if {k for k, _, _ in kws} != set(KW_LEAN):
        raise ExtractError('declspec: the set of built-in type keywords changed: ' + ' '.join(k for k, _, _ in kws))

    # ---- switch
    # find the braces of the switch
    j = body.index('{', i1)
    depth = 0
    k = j
    while True:
        if body[k] == '{':
            depth += 1
        elif body[k] == '}':
            depth -= 1
            if depth == 0:
                break
        k += 1
    sw = norm(body[j + 1:k])
    after = norm(body[k + 1:k + 80])
    if not after.startswith('tok = tok->next; }'):
        raise ExtractError('declspec: expected `tok = tok->next; }` right after the switch, found: ' + after[:60])
    table = []
    pos = 0
    pending = []
    saw_default = False
    tok_re = re.compile(r'case ([A-Z_+ ]+):|ty = ty_(\w+); break;|default: error_tok\(tok, "invalid type"\);')
    while pos < len(sw):
        mm = tok_re.match(sw, pos)
        if not mm:
            raise ExtractError('declspec: switch (counter) has an arm of unknown shape at: ' + sw[pos:pos + 80])
        if mm.group(1):
            if saw_default:
                raise ExtractError('declspec: case after default')
            pending.append((norm(mm.group(1)), const_expr(mm.group(1), enum, 'case label')))
        elif mm.group(2):
            if not pending:
                raise ExtractError('declspec: assignment without case label')
            if mm.group(2) not in TY_LEAN:
                raise ExtractError(f'declspec: unknown primitive ty_{mm.group(2)}')
            for label, val in pending:
                table.append((label, val, mm.group(2)))
            pending = []
        else:
            if pending:
                raise ExtractError('declspec: case labels fall through into default')
            saw_default = True
        pos = mm.end()
        while pos < len(sw) and sw[pos] == ' ':
            pos += 1
    if pending or not saw_default:
        raise ExtractError('declspec: switch does not end with default: error_tok(tok, "invalid type")')
    vals = [v for _, v, _ in table]
    if len(set(vals)) != len(vals):
        raise ExtractError('declspec: duplicate case value')  # (would not compile either)

    # ---- primitives
    prims = {}
    for mm in re.finditer(r'^Type \*ty_(\w+) = &\(Type\)\{\s*TY_(\w+)\s*,\s*(\d+)\s*,\s*(\d+)\s*(?:,\s*(true|false)\s*)?\};', typec, re.M):
        prims[mm.group(1)] = (mm.group(2), int(mm.group(3)), int(mm.group(4)), mm.group(5) == 'true')
    n_lits = len(re.findall(r'^Type \*ty_\w+\s*=', typec, re.M))
    if n_lits != len(prims):
        raise ExtractError(f'type.c: {n_lits} primitive literals, {len(prims)} understood')
    if set(prims) != set(TY_LEAN):
        raise ExtractError('type.c: the set of primitive types changed: ' + ' '.join(sorted(prims)))

    def newtype(fn, kind):
        b = norm(function_body(typec, r'^Type\s*\*\s*' + fn + r'\s*\([^)]*\)\s*\{', fn))
        mm = re.search(r'new_type\(' + kind + r', ([^,]+), ([^)]+)\)', b)
        if not mm:
            raise ExtractError(f'type.c: {fn} does not call new_type({kind}, ..)')
        return mm.group(1).strip(), mm.group(2).strip(), b
    ps, pa, _ = newtype('pointer_to', 'TY_PTR')
    es, ea, _ = newtype('enum_type', 'TY_ENUM')
    ss, sa, _ = newtype('struct_type', 'TY_STRUCT')
    as_, aa, ab = newtype('array_of', 'TY_ARRAY')
    if (as_, aa) != ('base->size * len', 'base->align'):
        raise ExtractError(f'type.c: array_of computes size/align as ({as_}, {aa}), expected (base->size * len, base->align)')
    nt = norm(function_body(typec, r'^static\s+Type\s*\*\s*new_type\s*\(\s*TypeKind\s+kind\s*,\s*int\s+size\s*,\s*int\s+align\s*\)\s*\{', 'new_type'))
    if nt != 'Type *ty = calloc(1, sizeof(Type)); ty->kind = kind; ty->size = size; ty->align = align; return ty;':
        raise ExtractError('type.c: new_type has an unknown shape: ' + nt)
    for v in (ps, pa, es, ea, ss, sa):
        if not re.fullmatch(r'\d+', v):
            raise ExtractError(f'type.c: non-literal size/align {v!r}')

    # ---- align_to / align_down
    at = norm(function_body(codegen, r'^int\s+align_to\s*\(\s*int\s+n\s*,\s*int\s+align\s*\)\s*\{', 'align_to'))
    if at != 'return (n + align - 1) / align * align;':
        raise ExtractError('codegen.c: align_to has an unknown shape: ' + at)
    ad = norm(function_body(parse, r'^static\s+int\s+align_down\s*\(\s*int\s+n\s*,\s*int\s+align\s*\)\s*\{', 'align_down'))
    if ad != 'return align_to(n - align + 1, align);':
        raise ExtractError('parse.c: align_down has an unknown shape: ' + ad)

    # ---- stddef.h
    stddef = strip_comments(read(repo, 'include/stddef.h'))
    mm = must(r'#\s*define\s+offsetof\s*\(\s*type\s*,\s*member\s*\)\s*(.+)', stddef, 'offsetof in include/stddef.h')
    if norm(mm.group(1)) != '((size_t)&(((type *)0)->member))':
        raise ExtractError('include/stddef.h: offsetof has an unknown shape: ' + mm.group(1))

    o = HEADER.format(tool='declspec.py', src='parse.c (declspec, align_down), type.c (primitive types), codegen.c (align_to)')
    o += 'set_option linter.unusedVariables false\nnamespace ChibiVerif.Gen.Declspec\n\n'
    o += '/-- the built-in type-specifier keywords tested in the ladder of `declspec` -/\n'
    o += 'inductive Kw where\n' + ''.join(f'  | {KW_LEAN[k]}\n' for k, _, _ in kws) + '  deriving DecidableEq, Repr\n\n'
    o += 'def Kw.all : List Kw := [' + ', '.join('.' + KW_LEAN[k] for k, _, _ in kws) + ']\n\n'
    o += 'def Kw.spelling : Kw → String\n' + ''.join(f'  | .{KW_LEAN[k]} => "{k}"\n' for k, _, _ in kws) + '\n'
    o += '/-- the primitive `Type` objects of type.c -/\n'
    o += 'inductive TyName where\n' + ''.join(f'  | {TY_LEAN[t]}\n' for t in prims) + '  deriving DecidableEq, Repr\n\n'
    o += 'def TyName.all : List TyName := [' + ', '.join('.' + TY_LEAN[t] for t in prims) + ']\n\n'
    o += 'def TyName.cName : TyName → String\n' + ''.join(f'  | .{TY_LEAN[t]} => "ty_{t}"\n' for t in prims) + '\n'
    o += '/-! counter constants (`enum` in declspec) -/\n'
    for n in order:
        o += f'def {n} : Nat := {enum[n]}\n'
    o += '\n/-- keyword ↦ (constant, true if the code uses `|=`, false for `+=`) -/\n'
    o += 'def kwIncr : Kw → Nat × Bool\n' + ''.join(f'  | .{KW_LEAN[k]} => ({c}, {"true" if isor else "false"})\n' for k, isor, c in kws) + '\n'
    o += f'def initCounter : Nat := {init_counter}\n'
    o += f'def initTy : TyName := .{TY_LEAN[init_ty]}\n\n'
    o += '/-- `switch (counter)`: case value ↦ type; every other value is `default: error_tok(tok, "invalid type")` -/\n'
    o += 'def switchTable : List (Nat × TyName) := [\n'
    o += ',\n'.join(f'  ({label}, .{TY_LEAN[t]})' for label, _, t in table) + ']\n\n'
    o += '/-- type.c literals: (size, align, is_unsigned) -/\n'
    o += 'def primInfo : TyName → Nat × Nat × Bool\n'
    o += ''.join(f'  | .{TY_LEAN[t]} => ({s}, {a}, {"true" if u else "false"})\n' for t, (_, s, a, u) in prims.items()) + '\n'
    o += '/-- type.c `TypeKind` of each literal -/\n'
    o += 'def primKind : TyName → String\n' + ''.join(f'  | .{TY_LEAN[t]} => "TY_{k}"\n' for t, (k, _, _, _) in prims.items()) + '\n'
    o += f'def PTR_SIZE : Nat := {ps}\ndef PTR_ALIGN : Nat := {pa}\n'
    o += f'def ENUM_SIZE : Nat := {es}\ndef ENUM_ALIGN : Nat := {ea}\n'
    o += f'def STRUCT_INIT_SIZE : Nat := {ss}\ndef STRUCT_INIT_ALIGN : Nat := {sa}\n\n'
    o += '/-- `array_of`: new_type(TY_ARRAY, base->size * len, base->align) -/\n'
    o += 'def arrayOf (baseSize baseAlign len : Nat) : Nat × Nat := (baseSize * len, baseAlign)\n\n'
    o += '/-- declspec, `_Alignas(type-name)`: attr->align = typename(&tok, tok)->%s  (arguments: size and align of the operand type) -/\n' % alignas_field
    o += 'def alignasOfType (tySize tyAlign : Int) : Int := %s\n\n' % ('tyAlign' if alignas_field == 'align' else 'tySize')
    o += '/-- declspec, several specifiers: attr->align = MAX(attr->align, align), chibicc.h `#define MAX(x, y) ((x) < (y) ? (y) : (x))` -/\n'
    o += 'def alignasCombine (cur new : Int) : Int := if cur < new then new else cur\n\n'
    o += '/-- declspec, `_Alignas(constant-expression)` with `int64_t n = const_expr(..)`: the guard of\n'
    o += '    `error_tok(start, "%s")`:\n    `%s` -/\n' % (ma.group(3), as_cond)
    o += 'def alignasConstBad (n : Int) : Bool :=\n  ' + ' || '.join(as_atoms) + '\n\n'
    o += '/-- declspec, `_Alignas(constant-expression)` after the guard: `align = n;` -/\n'
    o += 'def alignasOfConst (v : Int) : Int := v\n\n'
    o += '/-- struct_members (both sites): mem->align = attr.align ? attr.align : mem->ty->align -/\n'
    o += 'def memberAlign (attrAlign tyAlign : Int) : Int := if attrAlign ≠ 0 then attrAlign else tyAlign\n\n'
    o += '/-- attribute_list, `aligned(n)` with `int64_t n = const_expr(..)`: the guard of\n'
    o += '    `error_tok(start, "%s")`:\n    `%s` -/\n' % (al_msg, al_cond)
    o += 'def alignedAttrBad (n : Int) : Bool :=\n  ' + ' || '.join(al_atoms) + '\n\n'
    o += f'/-- the bounds tested by that guard: `n < {al_bounds["<"]}`, `n > {al_bounds[">"]}` -/\n'
    o += f'def ALIGNED_MIN : Int := {al_bounds["<"]}\ndef ALIGNED_MAX : Int := {al_bounds[">"]}\n\n'
    o += '/-- attribute_list, `aligned(n)` after the guard: `if (n) ty->align = n;`  (cur = ty->align before the attribute) -/\n'
    o += 'def alignedAttrApply (cur n : Int) : Int := if n ≠ 0 then n else cur\n\n'
    o += '/-- type.c `is_integer`: the kinds it accepts; struct_members: `if (!is_integer(mem->ty)) error_tok(tok, "%s")` in the bit-field arm -/\n' % mbf[0][1]
    o += 'def integerKinds : List String := [' + ', '.join(f'"{k}"' for k in integer_kinds) + ']\n\n'
    o += '/-- struct_members, bit-field arm, second guard: `if (mem->ty->is_atomic) error_tok(tok, "%s")`.\n' % mbf[0][2]
    o += '    The model has no `_Atomic`-qualified types (every `Ty` is non-atomic), so the guard never fires on a modelled\n'
    o += '    declaration; it is pinned here and exercised by the check directly against gcc. -/\n'
    o += 'def bitfieldAtomicMsg : String := "%s"\n\n' % mbf[0][2]
    o += '/-- codegen.c `align_to`: (n + align - 1) / align * align  (C `int`, `/` truncates; division by zero is the caller\'s problem) -/\n'
    o += 'def alignTo (n align : Int) : Int := Int.tdiv (n + align - 1) align * align\n\n'
    o += '/-- parse.c `align_down`: align_to(n - align + 1, align) -/\n'
    o += 'def alignDown (n align : Int) : Int := alignTo (n - align + 1) align\n\n'
    o += 'end ChibiVerif.Gen.Declspec\n'
    return {'DeclspecGen.lean': o}
