"""codegen.c -> Gen/TemplatesGen.lean : every instruction template the back end can print, GP_MAX/FP_MAX, argreg tables.

Every `println("...", args)` of codegen.c is read.  `%%` becomes `%`; numeric conversions (%d %u %ld %+ld %Lf %f) become
the placeholder `N`; every `%s` is expanded into each string its argument can be, found from the source:
  * a string literal, `c ? "a" : "b"`
  * argreg8/16/32/64[...]            -> the initialiser of that array
  * reg_ax(...) / reg_dx(...)        -> the literals returned by that function
  * a local variable                 -> every string literal assigned to it in the enclosing function
  * a parameter of a static function -> the arguments of every call of that function (same rules)
  * cast_table[..][..]               -> every cell of cast_table (macros i32i8 ... expanded), split at ';'
  * symbol and label names (`->name`, `->label`, ...) -> the placeholder `SYM` (a C identifier or .L label, never a register)
  * node->asm_str (the `asm` statement)               -> not a template; counted in `userAsmSites`
Anything else raises ExtractError.  Result: instructions as (mnemonic, operands), deduplicated and sorted."""
import re
from common import *

NUMFMT = re.compile(r'%[+-]?(?:l|L|ll)?[dufx]')
PREFIXES = {'lock', 'data16', 'rep', 'repe', 'repne'}
SYM_ARGS = re.compile(r'^\*?[\w\[\]]+(->\w+)*->(name|label|unique_label|brk_label|cont_label)$')


def split_args(s):
    out, cur, depth, i = [], '', 0, 0
    while i < len(s):
        c = s[i]
        if c == '"':
            j = i + 1
            while s[j] != '"':
                if s[j] == '\\':
                    j += 1
                j += 1
            cur += s[i:j + 1]
            i = j + 1
            continue
        if c in '([':
            depth += 1
        elif c in ')]':
            depth -= 1
        if c == ',' and depth == 0:
            out.append(cur.strip())
            cur = ''
        else:
            cur += c
        i += 1
    if cur.strip():
        out.append(cur.strip())
    return out


def unescape(s):
    return s.replace('\\"', '"').replace('\\\\', '\\').replace('\\n', '\n')


def functions(src):
    """[(name, params-text, body, start, end)] of every function definition at top level"""
    out = []
    for m in re.finditer(r'^(?:static\s+)?[\w\s\*]+?\b(\w+)\s*\(([^;{}]*)\)\s*\{', src, re.M):
        body = function_body(src[m.start():], r'\{', m.group(1))
        start = m.start()
        out.append((m.group(1), m.group(2), body, start, start + (m.end() - m.start()) + len(body)))
    return out


def find_calls(src, fname):
    """argument lists of every call `fname(...)` (not the definition)"""
    res = []
    for m in re.finditer(r'(?<![\w])' + re.escape(fname) + r'\s*\(', src):
        # skip the definition / prototype: preceded by a type word on the same line start
        line_start = src.rfind('\n', 0, m.start()) + 1
        prefix = src[line_start:m.start()]
        if re.match(r'^\s*(static\s+)?[\w\*\s]+$', prefix) and prefix.strip() and not prefix.strip().endswith(('return', 'else')):
            continue
        i = m.end()
        depth = 1
        j = i
        while depth:
            if src[j] == '"':
                j += 1
                while src[j] != '"':
                    if src[j] == '\\':
                        j += 1
                    j += 1
            elif src[j] == '(':
                depth += 1
            elif src[j] == ')':
                depth -= 1
            j += 1
        res.append(split_args(src[i:j - 1]))
    return res


class Resolver:
    def __init__(self, src, extern_names=()):
        self.src = src
        self.extern_names = set(extern_names)      # `extern char *X;` of chibicc.h: file names set by the driver
        self.funcs = functions(src)
        self.arrays = {}
        for m in re.finditer(r'static\s+char\s*\*\s*(argreg\d+)\s*\[\]\s*=\s*\{([^}]*)\}', src):
            self.arrays[m.group(1)] = [unescape(x) for x in re.findall(r'"((?:[^"\\]|\\.)*)"', m.group(2))]
        for n in ('argreg8', 'argreg16', 'argreg32', 'argreg64'):
            if len(self.arrays.get(n, [])) != 6:
                raise ExtractError(f'{n}: expected an initialiser with 6 strings')
        self.cast_strings = self.read_cast_table()

    def read_cast_table(self):
        """every cell string of cast_table (string literals and string macros concatenated)"""
        from casttable import string_expr, STR
        src = self.src
        joined = src.replace('\\\n', ' ')
        macros = {}
        for m in re.finditer(r'^[ \t]*#[ \t]*define[ \t]+([A-Za-z_]\w*)[ \t]+((?:[ \t]*' + STR + r')+)[ \t]*$', joined, re.M):
            macros[m.group(1)] = string_expr(m.group(2), {}, '#define ' + m.group(1))
        defs = {}
        for m in re.finditer(r'static\s+char\s+([a-z]\w*)\s*\[\s*\]\s*=([^;]*);', joined):
            if ';' in re.sub(STR, '', m.group(2)):
                raise ExtractError(f'initializer of {m.group(1)} not understood')
            defs[m.group(1)] = None
        # re-read each initializer up to the ';' outside string literals
        for name in list(defs):
            m = re.search(r'static\s+char\s+' + name + r'\s*\[\s*\]\s*=', joined)
            i = j = m.end()
            while joined[j] != ';':
                if joined[j] == '"':
                    j = re.compile(STR).match(joined, j).end()
                else:
                    j += 1
            defs[name] = string_expr(joined[i:j], macros, name)
        m = must(r'static\s+char\s*\*\s*cast_table\s*\[\s*\]\s*\[\s*\d+\s*\]\s*=\s*\{(.*?)\}\s*;', src, 'cast_table', re.S)
        cells = set(re.findall(r'\b([a-z]\w*)\b', m.group(1)))
        out = []
        for c in sorted(cells):
            if c not in defs:
                raise ExtractError(f'cast_table cell {c} has no string definition')
            out.append(defs[c])
        return out

    def enclosing(self, pos):
        for f in self.funcs:
            if f[3] <= pos < f[4]:
                return f
        raise ExtractError(f'println at offset {pos} is not inside a function')

    def resolve(self, expr, pos, seen=()):
        """-> list of strings, or 'SYM', or 'ASM', or 'CAST'"""
        expr = expr.strip()
        m = re.fullmatch(r'"((?:[^"\\]|\\.)*)"', expr)
        if m:
            return [unescape(m.group(1))]
        m = re.fullmatch(r'(.+?)\?\s*("(?:[^"\\]|\\.)*")\s*:\s*("(?:[^"\\]|\\.)*")', expr)
        if m:
            return [unescape(m.group(2)[1:-1]), unescape(m.group(3)[1:-1])]
        m = re.fullmatch(r'(argreg\d+)\[[^\]]*\]', expr)
        if m:
            return list(self.arrays[m.group(1)])
        m = re.fullmatch(r'(reg_ax|reg_dx)\(.*\)', expr)
        if m:
            f = next((f for f in self.funcs if f[0] == m.group(1)), None)
            if not f:
                raise ExtractError(f'{m.group(1)} not found')
            lits = re.findall(r'return\s+"((?:[^"\\]|\\.)*)"\s*;', f[2])
            if not lits:
                raise ExtractError(f'{m.group(1)} returns no literals')
            return [unescape(x) for x in lits]
        if expr == 'node->asm_str':
            return 'ASM'
        if re.fullmatch(r'cast_table\[\w+\]\[\w+\]', expr):
            return 'CAST'
        if SYM_ARGS.match(expr):
            return 'SYM'
        if expr in self.extern_names:
            # a file name kept in a global of the driver (`extern char *base_file;` in chibicc.h, printed in `.file "%s"`): text
            # chosen by the user like a symbol, never a register or mnemonic
            return 'SYM'
        if re.fullmatch(r'\w+', expr):
            f = self.enclosing(pos)
            # parameter of the enclosing function?
            params = [p.strip().split('*')[-1].split()[-1] if p.strip() else '' for p in f[1].split(',')]
            if expr in params:
                if (f[0], expr) in seen:
                    raise ExtractError(f'recursive resolution of {expr} in {f[0]}')
                idx = params.index(expr)
                out = []
                for args in find_calls(self.src, f[0]):
                    if len(args) != len(params):
                        raise ExtractError(f'call of {f[0]} with {len(args)} arguments')
                    cpos = self.src.find(f[0] + '(' + args[0]) if args else pos
                    r = self.resolve(args[idx], self.call_pos(f[0], args), seen + ((f[0], expr),))
                    if not isinstance(r, list):
                        raise ExtractError(f'argument {args[idx]} of {f[0]} is not a set of literals')
                    out += r
                if not out:
                    raise ExtractError(f'no call of {f[0]} found')
                return sorted(set(out))
            # local variable: the nearest preceding declaration `char *X` and every literal assigned to it from
            # there to the next declaration of the same name (or the end of the function)
            fstart = f[3]
            ftext = self.src[fstart:f[4]]
            rel = pos - fstart
            decls = [m2.start() for m2 in re.finditer(r'\bchar\s*\*[^;()]*?\b' + expr + r'\b', ftext) if m2.start() < rel]
            if not decls:
                raise ExtractError(f'no declaration `char *{expr}` before its use in {f[0]}')
            d0 = decls[-1]
            nxt = [m2.start() for m2 in re.finditer(r'\b(?:int|long|char\s*\*|bool)\s[^;()]*?\b' + expr + r'\b\s*[=;,]', ftext)
                   if m2.start() > d0]
            region = ftext[d0:(nxt[0] if nxt else len(ftext))]
            lits = re.findall(r'\b' + expr + r'\s*=\s*"((?:[^"\\]|\\.)*)"', region)
            for m2 in re.finditer(r'\b' + expr + r'\s*=\s*([^;"]*\?\s*"(?:[^"\\]|\\.)*"\s*:\s*"(?:[^"\\]|\\.)*")\s*;', region):
                lits += re.findall(r'"((?:[^"\\]|\\.)*)"', m2.group(1))
            other = [a for a in re.findall(r'\b' + expr + r'\s*=\s*([^;=][^;]*);', region)
                     if not re.match(r'^\s*(\(?[^;"]*\?\s*)?"', a)]
            if other:
                raise ExtractError(f'{expr} in {f[0]} is assigned something that is not a literal: {other[0][:40]}')
            if not lits:
                raise ExtractError(f'cannot resolve %s argument {expr} in {f[0]}')
            return sorted(set(unescape(x) for x in lits))
        raise ExtractError(f'cannot resolve %s argument {expr!r}')

    def call_pos(self, fname, args):
        needle = fname + '('
        start = 0
        while True:
            i = self.src.find(needle, start)
            if i < 0:
                raise ExtractError(f'call site of {fname} not found')
            if self.src[i + len(needle):].lstrip().startswith(args[0].split('(')[0][:12]) and \
               not re.match(r'^\s*static', self.src[self.src.rfind('\n', 0, i) + 1:i] or ' x'):
                return i
            start = i + 1


def parse_line(text):
    """one printed line -> None (label/directive/empty) or (mnemonic, [operands])"""
    text = text.split('#')[0].strip()
    if not text or text.endswith(':') or text.startswith('.'):
        return None
    toks = text.split(None, 1)
    mn = toks[0]
    rest = toks[1] if len(toks) > 1 else ''
    if mn in PREFIXES and rest:
        t2 = rest.split(None, 1)
        mn = mn + ' ' + t2[0]
        rest = t2[1] if len(t2) > 1 else ''
    if mn.endswith(':'):          # local label followed by an instruction: `1: ...`
        return parse_line(rest)
    ops, cur, depth = [], '', 0
    for c in rest:
        if c == '(':
            depth += 1
        elif c == ')':
            depth -= 1
        if c == ',' and depth == 0:
            ops.append(cur.strip())
            cur = ''
        else:
            cur += c
    if cur.strip():
        ops.append(cur.strip())
    return (mn, ops)


def lean_str(s):
    return '"' + s.replace('\\', '\\\\').replace('"', '\\"') + '"'


def generate(repo):
    raw = read(repo, 'codegen.c')
    src = strip_comments(raw)
    gp = c_int(must(r'^\s*#\s*define\s+GP_MAX\s+(\d+)\s*$', src, '#define GP_MAX', re.M).group(1))
    fp = c_int(must(r'^\s*#\s*define\s+FP_MAX\s+(\d+)\s*$', src, '#define FP_MAX', re.M).group(1))
    hdr = strip_comments(read(repo, 'chibicc.h'))
    externs = set(re.findall(r'^\s*extern\s+char\s*\*\s*(\w+)\s*;', hdr, re.M))
    R = Resolver(src, externs)
    templates = set()
    n_println = 0
    asm_sites = 0
    for m in re.finditer(r'\bprintln\s*\(\s*"((?:[^"\\]|\\.)*)"\s*((?:,[^;]*)?)\)\s*;', src):
        # skip the definition of println itself (`static void println(char *fmt, ...)` has no literal)
        n_println += 1
        fmt = unescape(m.group(1))
        args = split_args(m.group(2)[1:]) if m.group(2) else []
        if any(a.strip() in externs for a in args) and not fmt.lstrip().startswith('.'):
            raise ExtractError(f'println {fmt!r}: a global string of the driver is printed outside an assembler directive')
        # walk the conversions
        pieces = re.split(r'(%%|%[+-]?(?:l|L|ll)?[dufxs])', fmt)
        alts = ['']
        ai = 0
        skip = False
        for p in pieces:
            if p == '%%':
                alts = [a + '%' for a in alts]
            elif p == '%s':
                if ai >= len(args):
                    raise ExtractError(f'println {fmt!r}: missing argument')
                r = R.resolve(args[ai], m.start())
                ai += 1
                if r == 'ASM':
                    asm_sites += 1
                    skip = True
                    break
                if r == 'CAST':
                    r = R.cast_strings
                elif r == 'SYM':
                    r = ['SYM']
                alts = [a + x for a in alts for x in r]
            elif NUMFMT.fullmatch(p):
                ai += 1
                alts = [a + 'N' for a in alts]
            else:
                if '%' in p:
                    raise ExtractError(f'println {fmt!r}: conversion not understood')
                alts = [a + p for a in alts]
        if skip:
            continue
        if ai != len(args):
            raise ExtractError(f'println {fmt!r}: {len(args)} arguments for {ai} conversions')
        for a in alts:
            for part in a.split(';'):
                t = parse_line(part)
                if t:
                    templates.add((t[0], tuple(t[1])))
    total = len(re.findall(r'\bprintln\s*\(', src)) - 1   # minus the definition
    if n_println != total:
        raise ExtractError(f'{total} println calls in codegen.c but only {n_println} have the shape println("...", args);')
    if asm_sites != 1:
        raise ExtractError(f'expected exactly one println of user asm text (ND_ASM), found {asm_sites}')
    out = HEADER.format(tool='templates.py', src='codegen.c')
    out += 'namespace ChibiVerif.Gen.Templates\n\n'
    out += f'def GP_MAX : Nat := {gp}\n'
    out += f'def FP_MAX : Nat := {fp}\n'
    for n in ('argreg8', 'argreg16', 'argreg32', 'argreg64'):
        out += f'def {n} : List String := [' + ', '.join(lean_str(x) for x in R.arrays[n]) + ']\n'
    out += f'\n/-- number of `println` calls read -/\ndef printlnCalls : Nat := {n_println}\n'
    out += f'/-- `println("  %s", node->asm_str)`: user text of `asm` statements, not a template -/\ndef userAsmSites : Nat := {asm_sites}\n\n'
    out += '/-- every instruction the back end can print: (mnemonic, operands); `N` a number, `SYM` a symbol or label -/\n'
    out += 'def templates : List (String × List String) := [\n'
    rows = sorted(templates)
    out += ',\n'.join('  (' + lean_str(mn) + ', [' + ', '.join(lean_str(o) for o in ops) + '])' for mn, ops in rows)
    out += '\n]\n\nend ChibiVerif.Gen.Templates\n'
    return {'TemplatesGen.lean': out}
