"""C15: which of the repairs of the C15 known findings the code has -> Gen/LinkageRulesGen.lean

The hand model lean/ChibiVerif/Model/Linkage.lean is parametrised by four rules; each rule corresponds to one site in
parse.c / codegen.c that exists in exactly two shapes (as it was / repaired).  This translator reads the four sites from
the snapshot and emits the flags.  Every site must have exactly one of the two pinned shapes (whitespace-normalised,
comments stripped); anything else raises ExtractError (the model would not know what the code does)."""
import re
from common import ExtractError, HEADER, read, function_body, strip_comments


def norm(s):
    return ' '.join(s.split())


def has(body, text):
    return norm(text) in body


def one_of(site, body, old, new):
    """old / new: lists of statements that must all be present (and none of the other variant)"""
    o = [has(body, t) for t in old]
    n = [has(body, t) for t in new]
    if all(o) and not any(n):
        return False
    if all(n) and not any(o):
        return True
    raise ExtractError(f'{site}: neither the original nor the repaired shape '
                       f'(original statements found: {o}, repaired statements found: {n})')


def generate(repo):
    pc = strip_comments(read(repo, 'parse.c'))
    cg = strip_comments(read(repo, 'codegen.c'))

    # ---- global_variable: linkage of an extern declaration
    gv = norm(function_body(pc, r'^static Token \*global_variable\(Token \*tok, Type \*basety, VarAttr \*attr\) \{', 'global_variable'))
    extern_inherits = one_of(
        'parse.c global_variable (is_static of the new object)', gv,
        old=['Obj *var = new_gvar(get_ident(ty->name), ty); var->is_definition = !attr->is_extern; var->is_static = attr->is_static;'],
        new=['char *name = get_ident(ty->name); VarScope *prev = attr->is_extern ? find_var(ty->name) : NULL; '
             'bool prev_static = prev && prev->var && !prev->var->is_function && prev->var->is_static && !strcmp(prev->var->name, name); '
             'Obj *var = new_gvar(name, ty); var->is_definition = !attr->is_extern; var->is_static = attr->is_static || prev_static;'])
    if not has(gv, 'var->is_tls = attr->is_tls;') or not has(gv, 'var->is_definition = true; gvar_initializer(&tok, tok->next, var); } else if (!attr->is_extern) { var->is_tentative = true; }'):
        raise ExtractError('parse.c global_variable: the rest of the function is not what the model transcribes')

    # ---- function(): flags on redeclaration, root decision
    fn = norm(function_body(pc, r'^static Token \*function\(Token \*tok, Type \*basety, VarAttr \*attr\) \{', 'function'))
    pr = norm(function_body(pc, r'^Obj \*parse\(Token \*tok\) \{', 'parse'))
    flags_fn = one_of(
        'parse.c function() (linkage flags)', fn,
        old=['error_tok(tok, "static declaration follows a non-static declaration"); fn->is_definition = fn->is_definition || equal(tok, "{"); } else {',
             'fn->is_static = attr->is_static || (attr->is_inline && !attr->is_extern); fn->is_inline = attr->is_inline; } '
             'if (!(fn->is_static && fn->is_inline)) fn->is_root = true; if (consume(&tok, tok, ";"))'],
        new=['error_tok(tok, "static declaration follows a non-static declaration"); '
             'if (fn->is_inline_def && (!attr->is_inline || attr->is_extern)) { fn->is_inline_def = false; fn->is_static = false; } '
             'if (fn->is_static && !fn->is_inline_def && attr->is_inline && !fn->is_definition) fn->is_inline = true; '
             'fn->is_definition = fn->is_definition || equal(tok, "{"); } else {',
             'fn->is_inline_def = attr->is_inline && !attr->is_static && !attr->is_extern; fn->is_static = attr->is_static || fn->is_inline_def; '
             'fn->is_inline = attr->is_inline; } if (consume(&tok, tok, ";"))'])
    flags_pr = one_of(
        'parse.c parse() (root loop)', pr,
        old=['for (Obj *var = globals; var; var = var->next) if (var->is_root) mark_live(var);'],
        new=['for (Obj *var = globals; var; var = var->next) if (var->is_root || (var->is_function && !(var->is_static && var->is_inline))) mark_live(var);'])
    if flags_fn != flags_pr:
        raise ExtractError('parse.c: function() and the root loop of parse() are not in the same state of the inline-flags repair')
    if not has(fn, 'fn->is_function = true; fn->is_definition = equal(tok, "{");'):
        raise ExtractError('parse.c function(): creation of the function object is not what the model transcribes')

    # ---- scan_globals: composite type pass
    sg = norm(function_body(pc, r'^static void scan_globals\(void\) \{', 'scan_globals'))
    prepass = ('for (Obj *var = globals; var; var = var->next) { if (var->is_function || var->ty->kind != TY_ARRAY || var->ty->size >= 0) continue; '
               'for (Obj *var2 = globals; var2; var2 = var2->next) { if (!var2->is_function && var2->ty->kind == TY_ARRAY && var2->ty->size >= 0 && '
               '!strcmp(var->name, var2->name)) { var->ty = var2->ty; break; } } } Obj head;')
    if sg.startswith(norm(prepass)):
        composite = True
        rest = sg[len(norm(prepass)) - len('Obj head;'):]
    elif sg.startswith('Obj head;'):
        composite = False
        rest = sg
    else:
        raise ExtractError('parse.c scan_globals: starts with neither `Obj head;` nor the composite-type pass')
    pinned_loop = ('Obj head; Obj *cur = &head; for (Obj *var = globals; var; var = var->next) { if (!var->is_tentative) { cur = cur->next = var; continue; } '
                   'if (var->ty->kind == TY_ARRAY && var->ty->size < 0) var->ty = array_of(var->ty->base, 1); '
                   'Obj *var2 = globals; for (; var2; var2 = var2->next) if (var != var2 && var2->is_definition && !var2->is_tentative && !strcmp(var->name, var2->name)) break; '
                   'if (!var2) { for (var2 = var->next; var2; var2 = var2->next) if (var2->is_tentative && !strcmp(var->name, var2->name)) break; '
                   'if (var2 && var2->ty->size < 0 && var->ty->size >= 0) var2->ty = var->ty; } if (!var2) cur = cur->next = var; } cur->next = NULL; globals = head.next;')
    if rest != norm(pinned_loop):
        raise ExtractError('parse.c scan_globals: the loop is not the one the model transcribes')

    # ---- anonymous data owned by the function being parsed
    na = norm(function_body(pc, r'^static Obj \*new_anon_gvar\(Type \*ty\) \{', 'new_anon_gvar'))
    ed = norm(function_body(cg, r'^static void emit_data\(Obj \*prog\) \{', 'emit_data'))
    own_na = one_of('parse.c new_anon_gvar', na + ' ',
                    old=['return new_gvar(new_unique_name(), ty); '],
                    new=['Obj *var = new_gvar(new_unique_name(), ty); var->owner = current_fn; return var; '])
    own_ed = one_of('codegen.c emit_data (skipped objects)', ed,
                    old=['if (var->is_function || !var->is_definition) continue; if (var->is_static)'],
                    new=['if (var->is_function || !var->is_definition) continue; if (var->owner && !var->owner->is_live) continue; if (var->is_static)'])
    if own_na != own_ed:
        raise ExtractError('new_anon_gvar and emit_data are not in the same state of the owned-data repair')

    def b(x):
        return 'true' if x else 'false'
    out = HEADER.format(tool='linkrules.py', src='parse.c global_variable / function / parse / scan_globals / new_anon_gvar, codegen.c emit_data')
    out += f'''namespace ChibiVerif.Gen.LinkageRules

/-- global_variable: an `extern` declaration inherits internal linkage from the visible prior declaration -/
def externInherits : Bool := {b(extern_inherits)}
/-- function(): the linkage flags follow the redeclarations; the root decision is taken in the root loop of parse() -/
def flagsFollow : Bool := {b(flags_fn)}
/-- scan_globals: starts with the pass that completes arrays of unknown length from the other declarations -/
def compositeFromDecls : Bool := {b(composite)}
/-- new_anon_gvar records the owner, emit_data skips the data of functions that are not emitted -/
def ownedData : Bool := {b(own_na)}

end ChibiVerif.Gen.LinkageRules
'''
    return {'LinkageRulesGen.lean': out}
