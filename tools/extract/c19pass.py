"""preprocess.c / main.c: shapes the second-pass theorems of C19 rest on  (property C19; generates no Lean file)

Pinned (hand-modelled in Model/PP.lean `preprocess2` / `findMacro` and Model/C19Bridge.lean; ExtractError when the source no
longer has the shape the model was written after):
  preprocess.c  preprocess2: the head of the loop — `expand_macro` first, then the pass-through arm for every token that is
                not `is_hash` (the token itself is linked into the output; only its line_delta/filename fields are assigned), and the
                end of the function; find_macro (TK_IDENT + hashmap_get2 on the spelling); preprocess(): under -E the
                pp-tokens are printed as they are (no convert_pp_tokens / join_adjacent_string_literals)
  main.c        cc1: tokenize the base file, `preprocess`, and under -E `print_tokens` of exactly that list
(`is_hash`, the early returns of `expand_macro` and `init_macros` are pinned / translated by pp.py; `print_tokens`, `new_token`
and the tokenizer by lexgen.py.)
"""
import re
from common import *


def norm(s):
    return re.sub(r'\s+', ' ', s).strip()


PINNED = [
    ('preprocess.c', 'preprocess2', r'^static\s+Token\s*\*\s*preprocess2\s*\(\s*Token\s*\*\s*tok\s*\)\s*\{',
     r'^Token head = \{\}; Token \*cur = &head; while \(tok->kind != TK_EOF\) \{ '
     r'if \(expand_macro\(&tok, tok\)\) continue; '
     r'if \(!is_hash\(tok\)\) \{ (?:LineMarker \*m = line_marker_at\(tok\); )?tok->line_delta = [^;{}]*; tok->filename = [^;{}]*; '
     r'cur = cur->next = tok; tok = tok->next; continue; \} '
     r'Token \*start = tok; tok = tok->next; if \(tok->at_bol\) continue; .*'
     r'error_tok\(tok, "invalid preprocessor directive"\); \} cur->next = tok; return head\.next;$',
     'loop head (expand_macro, pass-through arm) and end of preprocess2'),
    ('preprocess.c', 'find_macro', r'^static\s+Macro\s*\*\s*find_macro\s*\(\s*Token\s*\*\s*tok\s*\)\s*\{',
     r'^if \(tok->kind != TK_IDENT\) return NULL; return hashmap_get2\(&macros, tok->loc, tok->len\);$', 'find_macro'),
    ('preprocess.c', 'preprocess', r'^Token\s*\*\s*preprocess\s*\(\s*Token\s*\*\s*tok\s*\)\s*\{',
     r'^tok = preprocess2\(tok\); if \(cond_incl\) error_tok\(cond_incl->tok, "unterminated conditional directive"\); '
     r'if \(!opt_E\) \{ convert_pp_tokens\(tok\); join_adjacent_string_literals\(tok\); \} '
     r'for \(Token \*t = tok; t; t = t->next\) t->line_no \+= t->line_delta; return tok;$',
     'preprocess(): -E prints the preprocessing tokens themselves'),
    ('main.c', 'cc1', r'^static\s+void\s+cc1\s*\(\s*void\s*\)\s*\{',
     r'Token \*tok2 = must_tokenize_file\(base_file\); tok = append_tokens\(tok, tok2\); tok = preprocess\(tok\); '
     r'char \*deps = NULL; size_t deps_len = 0; '
     r'if \(opt_M \|\| opt_MD\) \{ FILE \*deps_buf = open_memstream\(&deps, &deps_len\); print_dependencies\(deps_buf\); '
     r'fclose\(deps_buf\); if \(opt_M\) \{ write_file\(dependency_path\(\), deps, deps_len\); return; \} \} '
     r'if \(opt_E\) \{ print_tokens\(tok\); if \(opt_MD\) write_file\(dependency_path\(\), deps, deps_len\); return; \}',
     'cc1: tokenize, preprocess, print_tokens under -E'),
]


def generate(repo):
    for fn, name, sig, rx, what in PINNED:
        body = norm(strip_comments(function_body(read(repo, fn), sig, name)))
        if not re.search(rx, body):
            raise ExtractError(f'{name}: the source no longer has the shape the hand model was written after ({what})')
    return {}
