"""tokenize.c convert_pp_number (floating branch) -> Gen/FpLiteralGen.lean   (C02)

For every arm of the suffix ladder: the suffix bytes, the type object, and WHICH libc function's result ends up in
`tok->fval` (`strtold` of the first call when the arm does not assign `val` again; otherwise the `strtof`/`strtod`/`strtold`
it calls on the same text).  Props/C02.lean decides over this table that every arm reads the constant with the function
of the arm's own type (6.4.4.2p3: rounded once).  Anything of another shape raises ExtractError."""
import re
from common import *

def norm(s):
    return re.sub(r'\s+', ' ', s).strip()

ARM = r"\{ ty = (ty_\w+); (?:val = (strtof|strtod|strtold)\(tok->loc, NULL\); )?(?:end\+\+; )?\}"

def generate(repo):
    src = strip_comments(read(repo, 'tokenize.c'))
    body = norm(function_body(src, r'^static\s+void\s+convert_pp_number\s*\(\s*Token\s*\*\s*tok\s*\)\s*\{', 'convert_pp_number'))
    m = re.fullmatch(
        r"if \(convert_pp_int\(tok\)\) return; char \*end; long double val = (strtold)\(tok->loc, &end\); Type \*ty; "
        r"if \(\*end == '(\w)' \|\| \*end == '(\w)'\) " + ARM + r" "
        r"else if \(\*end == '(\w)' \|\| \*end == '(\w)'\) " + ARM + r" "
        r"else " + ARM + r" "
        r'if \(tok->loc \+ tok->len != end\) error_tok\(tok, "invalid numeric constant"\); '
        r"tok->kind = TK_NUM; tok->fval = val; tok->ty = ty;", body)
    if not m:
        raise ExtractError('convert_pp_number has a shape the translator does not understand: ' + body)
    scan, a1, a2, t1, p1, b1, b2, t2, p2, t3, p3 = m.groups()
    # a suffix arm must consume its suffix byte, the default arm must not
    arms = re.findall(ARM, body)
    texts = [x.group(0) for x in re.finditer(ARM, body)]
    if len(texts) != 3 or 'end++' not in texts[0] or 'end++' not in texts[1] or 'end++' in texts[2]:
        raise ExtractError('convert_pp_number: a suffix arm does not consume its suffix byte (or the default arm does)')
    known = {'ty_float', 'ty_double', 'ty_ldouble'}
    for t in (t1, t2, t3):
        if t not in known:
            raise ExtractError(f'convert_pp_number: unknown floating type object {t}')
    def par(p):
        return '.' + (p or scan)
    out = HEADER.format(tool='fpliteral.py', src='tokenize.c')
    out += 'namespace ChibiVerif.Gen.FpLiteral\n\n'
    out += '/-- the libc functions `convert_pp_number` reads a floating constant with -/\n'
    out += 'inductive Parser where\n  | strtof | strtod | strtold\n  deriving DecidableEq, Repr\n\n'
    out += '/-- the floating type objects -/\ninductive FTy where\n  | ty_float | ty_double | ty_ldouble\n  deriving DecidableEq, Repr\n\n'
    out += '/-- the first call: its end pointer locates the suffix byte -/\n'
    out += f'def scanner : Parser := .{scan}\n\n'
    out += '/-- suffix arms in source order: (bytes tested against `*end`, `ty`, the function whose result is stored in `tok->fval`) -/\n'
    out += 'def suffixArms : List (List Nat × FTy × Parser) := ['
    out += ', '.join(f'([{ord(x)}, {ord(y)}], .{t}, {par(p)})' for x, y, t, p in ((a1, a2, t1, p1), (b1, b2, t2, p2))) + ']\n\n'
    out += '/-- the final `else` (no suffix byte consumed) -/\n'
    out += f'def defaultArm : FTy × Parser := (.{t3}, {par(p3)})\n\n'
    out += 'end ChibiVerif.Gen.FpLiteral\n'
    return {'FpLiteralGen.lean': out}
