"""tokenize.c / unicode.c / main.c -> Gen/LexGen.lean   (property C19)

Translated (regenerated on every check run, compared with the committed cache):
  tokenize.c  read_punct: the multi-character punctuator table `kw[]` IN ORDER, and the tail `ispunct(*p) ? 1 : 0`
              tokenize(): the pp-number start test and continuation rule (the two character sets "eEpP", "+-")
  unicode.c   is_ident1 / is_ident2 range tables
  main.c      is_word_char (expression), need_space (ops[] string, the is_num definition, every `if (E) return true;`
              rule and the final `return E;` through a small boolean-expression translator)
Pinned (hand-modelled in Model/Lex.lean and Model/PrintTokens.lean; the translator checks that the source still has the
shape the hand model was written after and raises ExtractError otherwise -- nothing is guessed):
  tokenize.c  the order and conditions of the branches of the scanning loop of tokenize(), the bodies of the comment /
              newline / white-space branches, new_token (flag reset), read_ident, string_literal_end, read_char_literal,
              the `\\x` arm of read_escaped_char, startswith
  main.c      print_tokens

Characters are code points (Nat).  `char` tests on bytes >= 0x80 (`c & 0x80`) become `c >= 128` on the code point: every byte
of a multi-byte UTF-8 sequence has bit 7 set and no ASCII byte has.
"""
import re
from common import *


def norm(s):
    return re.sub(r'\s+', ' ', s).strip()


def c_string(lit):
    """value of a C string literal without escapes other than \\" \\\\ \\' (fails on others)"""
    assert lit[0] == '"' and lit[-1] == '"'
    out = []
    i = 1
    while i < len(lit) - 1:
        ch = lit[i]
        if ch == '\\':
            i += 1
            if lit[i] not in '"\\\'':
                raise ExtractError(f'unexpected escape in string literal {lit}')
            ch = lit[i]
        out.append(ord(ch))
        i += 1
    return out


def lean_chars(cps):
    return '[' + ', '.join(str(c) for c in cps) + ']'


def show(cps):
    return ''.join(chr(c) for c in cps)


# ------------------------------------------------------------------ boolean expressions of main.c

_ETOK = re.compile(r'''\s*(?:
    (?P<chr>'(?:\\.|[^\\'])')
  | (?P<str>"(?:\\.|[^"\\])*")
  | (?P<num>0[xX][0-9a-fA-F]+|\d+)
  | (?P<id>[A-Za-z_]\w*)
  | (?P<op>\|\||&&|==|!=|[()&,!])
)''', re.X)

CHAR_ESC = {"\\'": 39, '\\"': 34, '\\\\': 92, '\\n': 10, '\\t': 9, '\\0': 0}


def etokens(text):
    toks = []
    i = 0
    while True:
        while i < len(text) and text[i].isspace():
            i += 1
        if i >= len(text):
            return toks
        m = _ETOK.match(text, i)
        if not m or m.end() == i:
            raise ExtractError(f'need_space/is_word_char: cannot tokenize expression at {text[i:i + 30]!r}')
        for k in ('chr', 'str', 'num', 'id', 'op'):
            if m.group(k) is not None:
                toks.append((k, m.group(k)))
        i = m.end()


class BoolExpr:
    """E := E || E | E && E | !E | ( E ) | atom ; atoms are the tests listed in `atom`.
    `chars`: C variables of type char -> lean names; `bools`: C bool variables -> lean names;
    `strs`: C char arrays -> lean names of the generated List Nat."""

    def __init__(self, text, chars, bools, strs):
        self.t = etokens(text)
        self.i = 0
        self.chars, self.bools, self.strs = chars, bools, strs
        self.text = text

    def fail(self, why):
        raise ExtractError(f'expression {self.text!r}: {why} (at token {self.i}: {self.t[self.i:self.i + 4]})')

    def peek(self):
        return self.t[self.i] if self.i < len(self.t) else (None, None)

    def eat(self, kind, val=None):
        k, v = self.peek()
        if k != kind or (val is not None and v != val):
            self.fail(f'expected {val or kind}')
        self.i += 1
        return v

    def parse(self):
        e = self.p_or()
        if self.i != len(self.t):
            self.fail('trailing tokens')
        return e

    def p_or(self):
        e = self.p_and()
        while self.peek() == ('op', '||'):
            self.i += 1
            e = f'({e} || {self.p_and()})'
        return e

    def p_and(self):
        e = self.p_unary()
        while self.peek() == ('op', '&&'):
            self.i += 1
            e = f'({e} && {self.p_unary()})'
        return e

    def p_unary(self):
        if self.peek() == ('op', '!'):
            self.i += 1
            return f'(!{self.p_unary()})'
        return self.p_atom()

    def charval(self):
        k, v = self.peek()
        if k == 'chr':
            self.i += 1
            body = v[1:-1]
            if body in CHAR_ESC:
                return str(CHAR_ESC[body])
            if len(body) != 1:
                self.fail(f'character constant {v}')
            return str(ord(body))
        if k == 'id' and v in self.chars:
            self.i += 1
            return self.chars[v]
        self.fail('expected a char variable or a character constant')

    def p_atom(self):
        k, v = self.peek()
        if k == 'op' and v == '(':
            # either ( E ) or ( c & 0x80 )
            if (self.i + 4 < len(self.t) + 1 and self.t[self.i + 1][0] == 'id' and self.t[self.i + 1][1] in self.chars
                    and self.t[self.i + 2] == ('op', '&')):
                var = self.chars[self.t[self.i + 1][1]]
                mask = self.t[self.i + 3]
                if mask[0] != 'num' or int(mask[1], 0) != 0x80 or self.t[self.i + 4] != ('op', ')'):
                    self.fail('only the test (c & 0x80) is understood')
                self.i += 5
                return f'decide ({var} ≥ 128)'
            self.i += 1
            e = self.p_or()
            self.eat('op', ')')
            return e
        if k == 'id' and v in ('isalnum', 'isdigit', 'is_word_char'):
            self.i += 1
            self.eat('op', '(')
            arg = self.charval()
            self.eat('op', ')')
            return {'isalnum': 'isAlnum', 'isdigit': 'isDigit', 'is_word_char': 'isWordChar'}[v] + f' {arg}'
        if k == 'id' and v == 'strchr':
            self.i += 1
            self.eat('op', '(')
            k2, v2 = self.peek()
            if k2 == 'str':
                self.i += 1
                hay = lean_chars(c_string(v2)) + f' /- {v2} -/'
            elif k2 == 'id' and v2 in self.strs:
                self.i += 1
                hay = self.strs[v2]
            else:
                self.fail('strchr: first argument must be a string literal or a known char array')
            self.eat('op', ',')
            arg = self.charval()
            self.eat('op', ')')
            # strchr(s, c) with c != 0 (the callers test len > 0 and token text contains no NUL)
            return f'({hay}).contains {arg}'
        if k == 'id' and v in self.bools:
            self.i += 1
            return self.bools[v]
        if (k == 'id' and v in self.chars) or k == 'chr':
            lhs = self.charval()
            k2, v2 = self.peek()
            if k2 != 'op' or v2 not in ('==', '!='):
                self.fail('a char may only be compared with == / !=')
            self.i += 1
            rhs = self.charval()
            return f'({lhs} == {rhs})' if v2 == '==' else f'({lhs} != {rhs})'
        self.fail('unknown atom')


# ------------------------------------------------------------------ tokenize.c

EXPECTED_BRANCHES = [
    'startswith(p, "//")',
    'startswith(p, "/*")',
    "*p == '\\n'",
    'isspace(*p)',
    "isdigit(*p) || (*p == '.' && isdigit(p[1]))",
    "*p == '\"'",
    'startswith(p, "u8\\"")',
    'startswith(p, "u\\"")',
    'startswith(p, "L\\"")',
    'startswith(p, "U\\"")',
    "*p == '\\''",
    'startswith(p, "u\'")',
    'startswith(p, "L\'")',
    'startswith(p, "U\'")',
    'ident_len',
    'punct_len',
]

PINNED = {
    'line comment': 'p += 2; while (*p && *p != \'\\n\') p++; has_space = true; continue;',
    'block comment': 'char *q = strstr(p + 2, "*/"); if (!q) error_at(p, "unclosed block comment"); p = q + 2; has_space = true; continue;',
    'newline': 'p++; at_bol = true; has_space = false; continue;',
    'white space': 'p++; has_space = true; continue;',
}


def top_level_ifs(body):
    """[(condition, block text)] of the `if (...) {...}` statements at nesting depth 0 of `body`"""
    out = []
    i = 0
    n = len(body)
    depth = 0
    while i < n:
        c = body[i]
        if c in '"\'':
            j = i + 1
            while body[j] != c:
                if body[j] == '\\':
                    j += 1
                j += 1
            i = j + 1
            continue
        if c == '{':
            depth += 1
        elif c == '}':
            depth -= 1
        elif depth == 0 and re.match(r'if\s*\(', body[i:]) and (i == 0 or not (body[i - 1].isalnum() or body[i - 1] == '_')):
            j = body.index('(', i)
            d = 0
            k = j
            while True:
                ch = body[k]
                if ch in '"\'':
                    k += 1
                    while body[k] != ch:
                        if body[k] == '\\':
                            k += 1
                        k += 1
                elif ch == '(':
                    d += 1
                elif ch == ')':
                    d -= 1
                    if d == 0:
                        break
                k += 1
            cond = body[j + 1:k]
            m = re.match(r'\s*\{', body[k + 1:])
            if m:
                b0 = k + 1 + m.end() - 1
                d = 0
                e = b0
                while True:
                    ch = body[e]
                    if ch in '"\'':
                        e += 1
                        while body[e] != ch:
                            if body[e] == '\\':
                                e += 1
                            e += 1
                    elif ch == '{':
                        d += 1
                    elif ch == '}':
                        d -= 1
                        if d == 0:
                            break
                    e += 1
                out.append((norm(cond), norm(body[b0 + 1:e])))
                i = e + 1
                continue
            out.append((norm(cond), None))
            i = k + 1
            continue
        i += 1
    return out


def gen_tokenize(src):
    out = ''
    # ---- read_punct
    body = function_body(src, r'^static\s+int\s+read_punct\s*\(\s*char\s*\*\s*p\s*\)\s*\{', 'read_punct')
    m = re.fullmatch(
        r'static char \*kw\[\] = \{(.*?),?\s*\}; '
        r'for \(int i = 0; i < sizeof\(kw\) / sizeof\(\*kw\); i\+\+\) '
        r'if \(startswith\(p, kw\[i\]\)\) return strlen\(kw\[i\]\); '
        r'return ispunct\(\*p\) \? 1 : 0;', norm(body))
    if not m:
        raise ExtractError('read_punct has a shape the translator does not understand: ' + norm(body)[:300])
    lits = re.findall(r'"(?:\\.|[^"\\])*"', m.group(1))
    if norm(re.sub(r'"(?:\\.|[^"\\])*"', '', m.group(1))).replace(',', '').strip():
        raise ExtractError('read_punct kw[]: something other than string literals in the table')
    kws = [c_string(l) for l in lits]
    if not kws or any(len(k) < 2 for k in kws):
        raise ExtractError('read_punct kw[]: empty table or an entry shorter than two characters')
    out += '/-- tokenize.c `read_punct`: `static char *kw[]`, in source order (first match wins) -/\n'
    out += 'def punctKw : List (List Nat) := [\n'
    out += ',\n'.join(f'  {lean_chars(k)} /- {show(k)} -/' for k in kws)
    out += ']\n\n'
    out += ('/-- tokenize.c `read_punct`: `for (i…) if (startswith(p, kw[i])) return strlen(kw[i]); return ispunct(*p) ? 1 : 0;` -/\n'
            'def readPunct (p : List Nat) : Nat :=\n'
            '  match punctKw.find? (fun k => k.isPrefixOf p) with\n'
            '  | some k => k.length\n'
            '  | none => match p with\n'
            '    | c :: _ => if isPunct c then 1 else 0\n'
            '    | [] => 0\n\n')
    # ---- startswith
    body = function_body(src, r'^static\s+bool\s+startswith\s*\(\s*char\s*\*\s*p\s*,\s*char\s*\*\s*q\s*\)\s*\{', 'startswith')
    if norm(body) != 'return strncmp(p, q, strlen(q)) == 0;':
        raise ExtractError('startswith changed: ' + norm(body))
    # ---- new_token
    body = norm(function_body(src, r'^static\s+Token\s*\*\s*new_token\s*\(', 'new_token'))
    if not re.search(r'tok->at_bol = at_bol; tok->has_space = has_space; at_bol = has_space = false; return tok;$', body):
        raise ExtractError('new_token: flag copy/reset changed: ' + body[-200:])
    # ---- tokenize loop
    body = function_body(src, r'^Token\s*\*\s*tokenize\s*\(\s*File\s*\*\s*file\s*\)\s*\{', 'tokenize')
    nb = norm(body)
    m = re.search(r'at_bol = true; has_space = false; while \(\*p\) \{', nb)
    if not m:
        raise ExtractError('tokenize: initial flags / loop header changed')
    wi = body.index('while (*p)')
    loop = function_body(body[wi:], r'while \(\*p\)\s*\{', 'tokenize loop')
    ifs = top_level_ifs(strip_comments(loop))
    conds = [c for c, _ in ifs]
    if conds != EXPECTED_BRANCHES:
        raise ExtractError('tokenize: the branches of the scanning loop changed: ' + repr(conds))
    blocks = dict(zip(['line comment', 'block comment', 'newline', 'white space'], [b for _, b in ifs[:4]]))
    for k, want in PINNED.items():
        if blocks[k] != want:
            raise ExtractError(f'tokenize: {k} branch changed: {blocks[k]!r}')
    if not re.search(r'int ident_len = read_ident\(p\); if \(ident_len\)', norm(strip_comments(loop))) or \
       not re.search(r'int punct_len = read_punct\(p\); if \(punct_len\)', norm(strip_comments(loop))) or \
       not norm(strip_comments(loop)).endswith('error_at(p, "invalid token");'):
        raise ExtractError('tokenize: identifier / punctuator / invalid-token tail changed')
    num = ifs[4][1]
    m = re.fullmatch(
        r'char \*q = p\+\+; for \(;;\) \{ '
        r'if \(p\[0\] && p\[1\] && strchr\(("(?:[^"\\]|\\.)*"), p\[0\]\) && strchr\(("(?:[^"\\]|\\.)*"), p\[1\]\)\) p \+= 2; '
        r'else if \(isalnum\(\*p\) \|\| \*p == \'\.\'\) p\+\+; '
        r'else break; \} '
        r'cur = cur->next = new_token\(TK_PP_NUM, q, p\); continue;', num)
    if not m:
        raise ExtractError('tokenize: pp-number branch has a shape the translator does not understand: ' + num)
    exps, signs = c_string(m.group(1)), c_string(m.group(2))
    out += '/-- tokenize(): pp-number continuation `strchr("%s", p[0]) && strchr("%s", p[1])` -/\n' % (show(exps), show(signs))
    out += f'def ppExpChars : List Nat := {lean_chars(exps)}\n'
    out += f'def ppSignChars : List Nat := {lean_chars(signs)}\n\n'
    # dispatch of the literal branches: (condition, reader call)
    want_calls = {
        5: 'read_string_literal(p, p)', 6: 'read_string_literal(p, p + 2)', 7: 'read_utf16_string_literal(p, p + 1)',
        8: 'read_utf32_string_literal(p, p + 1, ty_int)', 9: 'read_utf32_string_literal(p, p + 1, ty_uint)',
        10: 'read_char_literal(p, p, ty_int)', 11: 'read_char_literal(p, p + 1, ty_ushort)',
        12: 'read_char_literal(p, p + 1, ty_int)', 13: 'read_char_literal(p, p + 1, ty_uint)'}
    for idx, call in want_calls.items():
        if not ifs[idx][1].startswith('cur = cur->next = ' + call + ';') or not ifs[idx][1].endswith('p += cur->len; continue;'):
            raise ExtractError(f'tokenize: literal branch {conds[idx]!r} changed: {ifs[idx][1]!r}')
    # ---- readers (pinned)
    pins = [
        ('read_ident', r'^static\s+int\s+read_ident\s*\(\s*char\s*\*\s*start\s*\)\s*\{',
         'char *p = start; uint32_t c = decode_utf8(&p, p); if (!is_ident1(c)) return 0; for (;;) { char *q; '
         'c = decode_utf8(&q, p); if (!is_ident2(c)) return p - start; p = q; }'),
        ('string_literal_end', r'^static\s+char\s*\*\s*string_literal_end\s*\(\s*char\s*\*\s*p\s*\)\s*\{',
         'char *start = p; for (; *p != \'"\'; p++) { if (*p == \'\\n\' || *p == \'\\0\') error_at(start, "unclosed string literal"); '
         'if (*p == \'\\\\\' && p[1]) p++; } return p;'),
        ('read_char_literal', r'^static\s+Token\s*\*\s*read_char_literal\s*\(',
         'char *p = quote + 1; if (*p == \'\\0\') error_at(start, "unclosed char literal"); int c; '
         'if (*p == \'\\\\\' && p[1] == \'\\0\') error_at(start, "unclosed char literal"); if (*p == \'\\\\\') '
         'c = read_escaped_char(&p, p + 1); else c = decode_utf8(&p, p); char *end = strchr(p, \'\\\'\'); if (!end) '
         'error_at(p, "unclosed char literal"); Token *tok = new_token(TK_NUM, start, end + 1); tok->val = c; tok->ty = ty; return tok;'),
    ]
    for name, sig, want in pins:
        got = norm(strip_comments(function_body(src, sig, name)))
        if got != want:
            raise ExtractError(f'{name} changed (hand model in Model/Lex.lean was written after another text): {got!r}')
    esc = norm(strip_comments(function_body(src, r'^static\s+int\s+read_escaped_char\s*\(', 'read_escaped_char')))
    if 'if (*p == \'x\') { p++; if (!isxdigit(*p)) error_at(p, "invalid hex escape sequence");' not in esc or esc.count('error_at') != 1:
        raise ExtractError('read_escaped_char: the error sites changed')
    for fn in ('read_string_literal', 'read_utf16_string_literal', 'read_utf32_string_literal'):
        b = norm(strip_comments(function_body(src, r'^static\s+Token\s*\*\s*' + fn + r'\s*\(', fn)))
        if not b.startswith('char *end = string_literal_end(quote + 1);') or 'new_token(TK_STR, start, end + 1)' not in b \
           or 'read_escaped_char(&p, p + 1)' not in b:
            raise ExtractError(f'{fn} changed')
    return out, kws


# ------------------------------------------------------------------ unicode.c

def gen_ranges(src):
    out = ''
    tables = {}
    for fn in ('is_ident1', 'is_ident2'):
        body = norm(strip_comments(function_body(src, r'^bool\s+' + fn + r'\s*\(\s*uint32_t\s+c\s*\)\s*\{', fn)))
        m = re.fullmatch(r'static uint32_t range\[\] = \{(.*?),?\s*\}; return (.*);', body)
        if not m:
            raise ExtractError(f'{fn}: unexpected shape: {body[:200]}')
        want_ret = 'in_range(range, c)' if fn == 'is_ident1' else 'is_ident1(c) || in_range(range, c)'
        if m.group(2) != want_ret:
            raise ExtractError(f'{fn}: return expression changed: {m.group(2)}')
        vals = []
        for item in m.group(1).split(','):
            item = item.strip()
            if not item:
                continue
            if re.fullmatch(r"'.'", item):
                vals.append(ord(item[1]))
            elif re.fullmatch(r'0[xX][0-9a-fA-F]+|\d+', item):
                vals.append(int(item, 0))
            elif item == '-1':
                vals.append(-1)
            else:
                raise ExtractError(f'{fn}: table entry {item!r}')
        if vals[-1] != -1 or -1 in vals[:-1] or len(vals) % 2 != 1:
            raise ExtractError(f'{fn}: table is not pairs followed by -1')
        pairs = list(zip(vals[0:-1:2], vals[1:-1:2]))
        tables[fn] = pairs
    body = norm(strip_comments(function_body(src, r'^static\s+bool\s+in_range\s*\(', 'in_range')))
    if body != 'for (int i = 0; range[i] != -1; i += 2) if (range[i] <= c && c <= range[i + 1]) return true; return false;':
        raise ExtractError('in_range changed: ' + body)
    out += '/-- unicode.c `in_range` -/\ndef inRange (t : List (Nat × Nat)) (c : Nat) : Bool := t.any (fun r => decide (r.1 ≤ c) && decide (c ≤ r.2))\n\n'
    for fn, name in (('is_ident1', 'ident1Ranges'), ('is_ident2', 'ident2Ranges')):
        pairs = tables[fn]
        out += f'/-- unicode.c `{fn}`: `range[]` -/\ndef {name} : List (Nat × Nat) := [\n'
        rows = []
        for i in range(0, len(pairs), 6):
            rows.append('  ' + ', '.join(f'(0x{a:X}, 0x{b:X})' for a, b in pairs[i:i + 6]))
        out += ',\n'.join(rows) + ']\n\n'
    out += 'def isIdent1 (c : Nat) : Bool := inRange ident1Ranges c\n'
    out += 'def isIdent2 (c : Nat) : Bool := isIdent1 c || inRange ident2Ranges c\n\n'
    return out


# ------------------------------------------------------------------ main.c

def gen_main(src):
    out = ''
    body = norm(strip_comments(function_body(src, r'^static\s+bool\s+is_word_char\s*\(\s*char\s+c\s*\)\s*\{', 'is_word_char')))
    m = re.fullmatch(r'return (.*);', body)
    if not m:
        raise ExtractError('is_word_char: not a single return: ' + body)
    e = BoolExpr(m.group(1), {'c': 'c'}, {}, {}).parse()
    out += f'/-- main.c `is_word_char`: `{m.group(1)}` -/\ndef isWordChar (c : Nat) : Bool := {e}\n\n'

    body = norm(strip_comments(function_body(src, r'^static\s+bool\s+need_space\s*\(\s*Token\s*\*\s*prev\s*,\s*Token\s*\*\s*tok\s*\)\s*\{', 'need_space')))
    m = re.fullmatch(
        r'static char ops\[\] = ("(?:[^"\\]|\\.)*"); '
        r'if \(prev->len == 0 \|\| tok->len == 0\) return false; '
        r'char a = prev->loc\[prev->len - 1\]; '
        r'char b = tok->loc\[0\]; '
        r'bool is_num = isdigit\(prev->loc\[0\]\) \|\| \(prev->loc\[0\] == \'\.\' && prev->len > 1 && isdigit\(prev->loc\[1\]\)\); '
        r'((?:if \(.*?\) return true; )*)'
        r'return (.*);', body)
    if not m:
        raise ExtractError('need_space has a shape the translator does not understand: ' + body[:400])
    ops = c_string(m.group(1))
    out += f'/-- main.c need_space: `static char ops[] = {m.group(1)}` -/\ndef ops : List Nat := {lean_chars(ops)}\n\n'
    rules = re.findall(r'if \((.*?)\) return true; ', m.group(2))
    if norm(''.join(f'if ({r}) return true; ' for r in rules)) != norm(m.group(2)):
        raise ExtractError('need_space: rule list not understood')
    env = ({'a': 'a', 'b': 'b'}, {'is_num': 'isNum'}, {'ops': 'ops'})
    out += ('/-- main.c need_space, the rules after the prologue: `a` = last character of the previous spelling, `b` = first\n'
            '    character of the next one, `isNum` = the previous spelling starts like a pp-number -/\n'
            'def needSpaceCore (a b : Nat) (isNum : Bool) : Bool :=\n')
    for r in rules:
        out += f'  -- if ({r}) return true;\n  if {BoolExpr(r, *env).parse()} then true else\n'
    out += f'  -- return {m.group(3)};\n  {BoolExpr(m.group(3), *env).parse()}\n\n'
    out += ('/-- main.c need_space, `is_num`: `isdigit(prev->loc[0]) || (prev->loc[0] == \'.\' && prev->len > 1 && isdigit(prev->loc[1]))` -/\n'
            'def isNumStart : List Nat → Bool\n'
            '  | [] => false\n'
            '  | [c] => isDigit c\n'
            '  | c :: d :: _ => isDigit c || (c == 46 && isDigit d)\n\n'
            '/-- main.c need_space on two spellings (`prev->len == 0 || tok->len == 0` → false) -/\n'
            'def needSpace (prev tok : List Nat) : Bool :=\n'
            '  match prev.getLast?, tok.head? with\n'
            '  | some a, some b => needSpaceCore a b (isNumStart prev)\n'
            '  | _, _ => false\n\n')
    # print_tokens (pinned)
    body = norm(strip_comments(function_body(src, r'^static\s+void\s+print_tokens\s*\(\s*Token\s*\*\s*tok\s*\)\s*\{', 'print_tokens')))
    want = ('FILE *out = open_file(opt_o ? opt_o : "-"); int line = 1; Token *prev = NULL; '
            'for (; tok->kind != TK_EOF; tok = tok->next) { '
            'if (line > 1 && tok->at_bol) fprintf(out, "\\n"); '
            'else if (tok->has_space && !tok->at_bol) fprintf(out, " "); '
            'else if (prev && !tok->at_bol && need_space(prev, tok)) fprintf(out, " "); '
            'fprintf(out, "%.*s", tok->len, tok->loc); line++; prev = tok; } fprintf(out, "\\n");')
    # after the last newline the stream may be flushed/closed (prints nothing): `close_file(out, opt_o);`
    if body.startswith(want) and body[len(want):].strip() in ('', 'close_file(out, opt_o);'):
        body = want
    if body != want:
        raise ExtractError('print_tokens changed (hand model Model/PrintTokens.lean was written after another text): ' + body)
    return out


def generate(repo):
    tok_src = read(repo, 'tokenize.c')
    uni_src = read(repo, 'unicode.c')
    main_src = read(repo, 'main.c')
    out = HEADER.format(tool='lexgen.py', src='tokenize.c, unicode.c, main.c')
    out += 'import ChibiVerif.Model.LexChar\n\nnamespace ChibiVerif.Gen.Lex\nopen ChibiVerif.LexChar\n\n'
    t, kws = gen_tokenize(tok_src)
    out += t
    out += gen_ranges(uni_src)
    out += gen_main(main_src)
    out += 'end ChibiVerif.Gen.Lex\n'
    return {'LexGen.lean': out}
