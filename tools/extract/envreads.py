"""C12: which libc functions the compiler imports, where the environment-reading ones are called, and whether any
format string prints a pointer.  -> Gen/EnvReadsGen.lean

Needs a *built* snapshot (object files next to the sources)."""
import os, re, subprocess
from common import *

SOURCES = ['main.c', 'tokenize.c', 'preprocess.c', 'parse.c', 'type.c', 'codegen.c', 'hashmap.c', 'strings.c', 'unicode.c']
# functions whose call sites are listed (candidates for reading something other than the input files and options)
WATCH = ['time', 'localtime', 'localtime_r', 'gmtime', 'ctime', 'ctime_r', 'asctime', 'strftime', 'clock', 'gettimeofday',
         'clock_gettime', 'stat', 'fstat', 'lstat', 'getenv', 'secure_getenv', 'getpid', 'getppid', 'getuid', 'rand', 'random',
         'srand', 'drand48', 'getcwd', 'isatty', 'ttyname', 'uname', 'gethostname', 'getrandom', 'mkstemp', 'tmpnam', 'tempnam']

def top_level_functions(src):
    """yield (name, body_start, body_end) for function definitions at file scope (brace depth 0)"""
    out = []
    i, n, depth = 0, len(src), 0
    last_paren_ident = None
    while i < n:
        c = src[i]
        if c == '"' or c == "'":
            q = c; i += 1
            while src[i] != q:
                if src[i] == '\\': i += 1
                i += 1
        elif c == '{':
            if depth == 0:
                # find the identifier before the matching '(' of the parameter list
                j = i - 1
                while j >= 0 and src[j].isspace(): j -= 1
                name = None
                if j >= 0 and src[j] == ')':
                    d = 0
                    while j >= 0:
                        if src[j] == ')': d += 1
                        elif src[j] == '(':
                            d -= 1
                            if d == 0: break
                        j -= 1
                    m = re.search(r'([A-Za-z_]\w*)\s*$', src[:j])
                    if m: name = m.group(1)
                start = i
                d = 0
                k = i
                while k < n:
                    ch = src[k]
                    if ch == '"' or ch == "'":
                        q = ch; k += 1
                        while src[k] != q:
                            if src[k] == '\\': k += 1
                            k += 1
                    elif ch == '{': d += 1
                    elif ch == '}':
                        d -= 1
                        if d == 0: break
                    k += 1
                if name:
                    out.append((name, start, k))
                i = k
        i += 1
    return out

def generate(repo):
    imports, defined = set(), set()
    for s in SOURCES:
        o = os.path.join(repo, s[:-2] + '.o')
        if not os.path.exists(o):
            raise ExtractError(f'{o} missing: envreads needs a built snapshot')
        u = subprocess.run(['nm', '-u', o], capture_output=True, text=True)
        d = subprocess.run(['nm', '--defined-only', o], capture_output=True, text=True)
        if u.returncode or d.returncode:
            raise ExtractError('nm failed on ' + o)
        imports |= {l.split()[-1] for l in u.stdout.splitlines() if l.strip()}
        defined |= {l.split()[-1] for l in d.stdout.splitlines() if l.strip()}
    # every *.c in the directory is linked in (Makefile: $(wildcard *.c)); a new file must not escape the audit
    extra = sorted(f for f in os.listdir(repo) if f.endswith('.c') and f not in SOURCES and f != 'verif_dump.c')
    libc = sorted(x.split('@')[0] for x in imports - defined)
    sites, percent_p = [], []
    for s in SOURCES:
        src = strip_comments(read(repo, s))
        fns = top_level_functions(src)
        for w in WATCH:
            for m in re.finditer(r'(?<![\w.>])' + re.escape(w) + r'\s*\(', src):
                encl = next((name for name, a, b in fns if a <= m.start() <= b), None)
                if encl is None:
                    continue   # a declaration, not a call
                sites.append((w, s, encl))
        for m in re.finditer(r'"(?:\\.|[^"\\])*"', src):
            if re.search(r'%[-+ #0-9.*l]*p', m.group(0)):
                percent_p.append(f'{s}:{src.count(chr(10), 0, m.start()) + 1}')
    sites = sorted(set(sites))
    out = HEADER.format(tool='envreads.py', src='*.o (nm) and *.c')
    out += 'namespace ChibiVerif.Gen.EnvReads\n\n'
    out += '/-- libc symbols imported by the nine translation units (nm -u minus symbols they define) -/\n'
    out += 'def libcImports : List String := [' + ', '.join(f'"{x}"' for x in libc) + ']\n\n'
    out += '/-- call sites (callee, file, enclosing function) of functions that may read the process environment, the clock or the file system metadata -/\n'
    out += 'def watchedCallSites : List (String × String × String) := [' + ', '.join(f'("{a}", "{b}", "{c}")' for a, b, c in sites) + ']\n\n'
    out += '/-- string literals containing a %p conversion -/\n'
    out += 'def percentP : List String := [' + ', '.join(f'"{x}"' for x in percent_p) + ']\n\n'
    out += '/-- C files linked into the compiler besides the nine known ones and the guarded hook file -/\n'
    out += 'def extraSources : List String := [' + ', '.join(f'"{x}"' for x in extra) + ']\n\n'
    out += 'end ChibiVerif.Gen.EnvReads\n'
    return {'EnvReadsGen.lean': out}
