"""C12 (fixpoint half): static audit of chibicc's OWN source for behaviour that C leaves unspecified or undefined, i.e.
for the places where the gcc-built compiler (stage 1) and the self-compiled compiler (stage 2, chibicc evaluates the
RIGHT operand first) may legitimately behave differently.  -> Gen/C12AuditGen.lean

Source of truth: clang-14's typed AST (JSON) of each of the nine translation units.  For every function defined there an
effect summary is computed by a fixpoint over the call graph:

  exitDiag   may terminate the process with a user diagnostic (error / error_at / error_tok / exit, transitively)
  exitInt    may terminate only through an internal error (`unreachable()`, assert)
  writes     abstract locations that may be written     reads   abstract locations that may be read

Abstract locations: g:<name> (global), s:<file>:<name> (file-static / static local), l:<fn>.<name> (local, never part
of a summary), f:<Record>.<field> (any object of that record type reached through a pointer), d:<type> (object of a
non-record type reached through a pointer), p:<k> (pointee of parameter k, replaced by the actual argument at each
call), io:<what> (streams, file system, processes, clock).  Objects allocated inside a function and reached only
through the local that received the allocation are private until published: accesses through such a local are no
effects ("fresh" analysis, least fixpoint over the functions that return fresh objects).

Every expression in which C11 leaves the order of evaluation of two operands open (operands of binary operators other
than && || and the comma operator, both sides of an assignment, the function designator and the arguments of a call,
array and index of a subscript, the elements of an initializer list) and in which at least two operands have side
effects, or one writes what another reads, is listed as a site with the raw effect sets of its operands.  The *decision*
(harmless or not, and why) is taken in Lean over these raw sets (Model/C12Audit.lean), not here.

Also listed: local variables without initializer, malloc/realloc calls (storage that calloc's zero fill does not
cover), relational comparison / subtraction / integer conversion of pointers, calls of qsort-like functions, clang's own
-Wuninitialized/-Wunsequenced diagnostics, and the rarely used constructs (features of the source that occur at most
twice) with their lines, for the coverage leg of the check.

Anything the walker does not understand raises ExtractError (never guesses)."""
import os, re, json, subprocess
from common import *

SOURCES = ['main.c', 'tokenize.c', 'preprocess.c', 'parse.c', 'type.c', 'codegen.c', 'hashmap.c', 'strings.c', 'unicode.c']

# ---------------------------------------------------------------------------------------------------------------- libc
# name -> (exitDiag, exitInt, writes, reads, fresh result)     p:k = pointee of argument k
def _E(ed=False, ei=False, w=(), r=(), fresh=False):
    return (ed, ei, frozenset(w), frozenset(r), fresh)

LIBC = {
    'calloc': _E(fresh=True), 'malloc': _E(fresh=True), 'strdup': _E(r=['p:0'], fresh=True), 'strndup': _E(r=['p:0'], fresh=True),
    'realloc': _E(w=['p:0'], r=['p:0']),
    'free': _E(w=['p:0']),
    'strlen': _E(r=['p:0']), 'strcmp': _E(r=['p:0', 'p:1']), 'strncmp': _E(r=['p:0', 'p:1']), 'strncasecmp': _E(r=['p:0', 'p:1']),
    'strcasecmp': _E(r=['p:0', 'p:1']), 'memcmp': _E(r=['p:0', 'p:1']), 'strchr': _E(r=['p:0']), 'strrchr': _E(r=['p:0']), 'strstr': _E(r=['p:0', 'p:1']), 'memchr': _E(r=['p:0']), 'strnlen': _E(r=['p:0']),
    'memcpy': _E(w=['p:0'], r=['p:1']), 'memset': _E(w=['p:0']), 'strncpy': _E(w=['p:0'], r=['p:1']), 'strcpy': _E(w=['p:0'], r=['p:1']),
    'memmove': _E(w=['p:0'], r=['p:1']),
    'strtoul': _E(w=['p:1', 'g:errno'], r=['p:0']), 'strtol': _E(w=['p:1', 'g:errno'], r=['p:0']), 'strtold': _E(w=['p:1', 'g:errno'], r=['p:0']),
    'strtod': _E(w=['p:1', 'g:errno'], r=['p:0']), 'strtof': _E(w=['p:1', 'g:errno'], r=['p:0']),
    'strtok': _E(w=['p:0', 'g:strtok-state'], r=['p:0', 'p:1', 'g:strtok-state']),
    '__ctype_b_loc': _E(), '__ctype_tolower_loc': _E(), '__ctype_toupper_loc': _E(), 'tolower': _E(), 'toupper': _E(),
    'isalnum': _E(), 'isalpha': _E(), 'isdigit': _E(), 'isxdigit': _E(), 'isspace': _E(), 'ispunct': _E(), 'isupper': _E(), 'islower': _E(),
    '__errno_location': _E(r=['g:errno']), 'strerror': _E(r=['g:errno']),
    'fprintf': _E(w=['io:stream'], r=['p:1']), 'vfprintf': _E(w=['io:stream'], r=['p:1', 'p:2']), 'printf': _E(w=['io:stream'], r=['p:0']),
    'fputc': _E(w=['io:stream']), 'fputs': _E(w=['io:stream'], r=['p:0']), 'puts': _E(w=['io:stream'], r=['p:0']), 'putchar': _E(w=['io:stream']),
    'fwrite': _E(w=['io:stream'], r=['p:0']), 'fflush': _E(w=['io:stream', 'd:char *', 'd:size_t', 'd:char']), 'fclose': _E(w=['io:stream', 'd:char *', 'd:size_t', 'd:char']),
    'fopen': _E(w=['io:fs', 'g:errno'], r=['p:0', 'io:fs'], fresh=True), 'fread': _E(w=['p:0', 'io:stream'], r=['io:stream']), 'ferror': _E(r=['io:stream']),
    'open_memstream': _E(w=['p:0', 'p:1', 'io:stream'], fresh=True),
    'exit': _E(ed=True), '_exit': _E(ed=True), '__assert_fail': _E(ei=True), 'abort': _E(ei=True),
    'stat': _E(w=['p:1', 'g:errno'], r=['p:0', 'io:fs']), 'time': _E(w=['p:0'], r=['io:clock']),
    'localtime': _E(w=['g:localtime-buffer'], r=['p:0', 'io:clock']), 'ctime_r': _E(w=['p:1'], r=['p:0', 'io:clock']),
    'fork': _E(w=['io:proc']), 'execvp': _E(w=['io:proc'], r=['p:0', 'p:1']), 'wait': _E(w=['p:0', 'io:proc']), 'unlink': _E(w=['io:fs'], r=['p:0']),
    'mkstemp': _E(w=['p:0', 'io:fs', 'g:errno']), 'close': _E(w=['io:fs']), 'atexit': _E(w=['io:proc']),
    'glob': _E(w=['p:3', 'io:fs'], r=['p:0', 'io:fs']), 'globfree': _E(w=['p:0']),
    'dirname': _E(w=['p:0'], r=['p:0']), '__xpg_basename': _E(w=['p:0'], r=['p:0']), 'basename': _E(w=['p:0'], r=['p:0']),
    '__builtin_va_start': _E(w=['p:0']), '__builtin_va_end': _E(w=['p:0']), '__builtin_va_copy': _E(w=['p:0'], r=['p:1']),
}
SORTLIKE = {'qsort', 'qsort_r', 'bsearch', 'lfind', 'lsearch', 'tsearch', 'twalk', 'hsearch', 'readdir', 'scandir'}
EXITERS = {'error', 'error_at', 'error_tok'}


class Eff:
    __slots__ = ('ed', 'ei', 'W', 'R', 'bare')
    def __init__(self, ed=False, ei=False, W=(), R=(), bare=()):
        self.ed, self.ei, self.W, self.R, self.bare = ed, ei, set(W), set(R), set(bare)
    def add(self, o):
        self.ed |= o.ed; self.ei |= o.ei; self.W |= o.W; self.R |= o.R; self.bare |= o.bare
        return self
    def effectful(self):
        return self.ed or self.ei or bool(self.W)
    def key(self):
        return (self.ed, self.ei, frozenset(self.W), frozenset(self.R))


def strip(n):
    """skip parentheses and casts that do not change the designated object"""
    while n.get('kind') in ('ParenExpr', 'ImplicitCastExpr', 'CStyleCastExpr', 'ConstantExpr') and n.get('inner'):
        n = n['inner'][-1]
    return n

def strip_paren(n):
    while n.get('kind') == 'ParenExpr':
        n = n['inner'][0]
    return n

def off(loc):
    if 'expansionLoc' in loc:
        loc = loc['expansionLoc']
    return loc.get('offset'), loc.get('tokLen', 1)

def is_ptr_type(t):
    return t.endswith('*') or t.endswith('* const') or t.endswith('*restrict') or ('(*)' in t)

def pointee(t):
    t = t.strip()
    if '(*)' in t:
        return 'fn'
    for suf in ('*restrict', '* const', '*const', '*'):
        if t.endswith(suf):
            return norm_type(t[:-len(suf)])
    m = re.match(r'(.*)\[\d*\]$', t)
    if m:
        return norm_type(m.group(1))
    return None

def norm_type(t):
    t = re.sub(r'\((unnamed|anonymous)[^)]*\)', '(unnamed)', t)
    t = re.sub(r'\b(const|volatile|restrict|struct|union|enum)\b', '', t)
    return re.sub(r'\s+', ' ', t).strip()


class Unit:
    """one translation unit"""
    def __init__(self, repo, cfile):
        self.file = cfile
        self.text = open(os.path.join(repo, cfile), 'rb').read()
        cmd = ['clang-14', '-std=c11', '-fsyntax-only', '-w', '-Xclang', '-ast-dump=json', '-I', repo, os.path.join(repo, cfile)]
        p = subprocess.run(cmd, capture_output=True)
        if p.returncode != 0:
            raise ExtractError(f'clang-14 failed on {cfile}: {p.stderr.decode(errors="replace")[:300]}')
        self.ast = json.loads(p.stdout)
        self.fields = {}      # FieldDecl id -> (record, field)
        self.records = {}     # record name -> [(field, type)]
        self.globals = {}     # VarDecl id -> loc name
        self.fns = {}         # name -> FunctionDecl node with body (defined in this file)
        self.typedefs = {}    # typedef name -> underlying type
        self.rec_by_id = {}
        self.alias = {}       # typedef name -> record it names
        self._collect(self.ast, None)
        for n in self.ast.get('inner', []):
            if n.get('kind') == 'VarDecl':
                st = n.get('storageClass')
                self.globals[n['id']] = f's:{cfile}:{n["name"]}' if st == 'static' else f'g:{n["name"]}'
            if n.get('kind') == 'FunctionDecl' and any(c.get('kind') == 'CompoundStmt' for c in n.get('inner', [])):
                o = n['loc'].get('offset') if 'expansionLoc' not in n['loc'] else n['loc']['expansionLoc'].get('offset')
                name = n['name'].encode()
                if o is not None and self.text[o:o + len(name)] == name:
                    self.fns[n['name']] = n

    def _collect(self, n, rec):
        k = n.get('kind')
        if k == 'RecordDecl' and n.get('completeDefinition'):
            fl = []
            name = n.get('name') or ('anon{' + ','.join(c.get('name', '?') for c in n.get('inner', []) if c.get('kind') == 'FieldDecl')[:40] + '}')
            self.rec_by_id[n['id']] = name
            for c in n.get('inner', []):
                if c.get('kind') == 'FieldDecl':
                    self.fields[c['id']] = (name, c.get('name', '?'))
                    fl.append((c.get('name', '?'), c['type'].get('desugaredQualType', c['type']['qualType'])))
            self.records.setdefault(name, fl)
        if k == 'TypedefDecl' and 'name' in n:
            self.typedefs[n['name']] = n['type'].get('desugaredQualType', n['type']['qualType'])
            def find_decl(x):
                if isinstance(x, dict):
                    d = x.get('decl')
                    if isinstance(d, dict) and d.get('kind') == 'RecordDecl' and d.get('id') in self.rec_by_id:
                        return self.rec_by_id[d['id']]
                    for c in x.get('inner', []):
                        r = find_decl(c)
                        if r:
                            return r
                return None
            r = find_decl({'inner': n.get('inner', [])})
            if r and r != n['name']:
                self.alias[n['name']] = r
        for c in n.get('inner', []):
            if isinstance(c, dict):
                self._collect(c, rec)

    def src(self, node):
        b, _ = off(node['range']['begin'])
        e, l = off(node['range']['end'])
        if b is None or e is None:
            return '?'
        return re.sub(r'\s+', ' ', self.text[b:e + l].decode('utf-8', 'replace')).strip()

    def line(self, node):
        b, _ = off(node['range']['begin'])
        return self.text.count(b'\n', 0, b) + 1 if b is not None else 0


class Audit:
    def __init__(self, repo):
        self.units = [Unit(repo, s) for s in SOURCES]
        self.records = {}
        self.alias = {}
        for u in self.units:
            for r, fl in u.records.items():
                self.records.setdefault(r, fl)
            self.alias.update(u.alias)
        self.fn_unit = {}
        for u in self.units:
            for name in u.fns:
                if name in self.fn_unit and not (u.fns[name].get('storageClass') == 'static'):
                    raise ExtractError(f'function {name} defined twice')
                # static functions with equal names in different files are kept apart by a file prefix
                self.fn_unit[(u.file, name)] = u
        self.summ = {}       # (file, name) -> Eff  (summaries)
        self.fresh_fns = set()
        self.addr_taken_fns = {}   # name -> type string
        self.sites = []
        self.record_sites = False
        self.ptr_ops, self.sort_calls, self.uninit, self.raw_allocs = [], [], [], []
        self.features = {}

    # ------------------------------------------------------------------------------------------------- helpers
    def resolve(self, u, name):
        """function `name` called from unit u -> key of its definition, or None (external)"""
        if (u.file, name) in self.fn_unit:
            return (u.file, name)
        for (f, n), uu in self.fn_unit.items():
            if n == name and uu.fns[n].get('storageClass') != 'static':
                return (f, n)
        return None

    def floc(self, rec, field):
        disp = getattr(self, '_disp', None)
        if disp is None:
            disp = self._disp = {v: k for k, v in sorted(self.alias.items(), reverse=True)}
        return f'f:{disp.get(rec, rec)}.{field}'

    def rec_fields(self, rec, seen=()):
        out = set()
        rec = self.alias.get(rec, rec)
        for fname, ftype in self.records.get(rec, []):
            out.add(self.floc(rec, fname))
            t = norm_type(ftype)
            t = self.alias.get(t, t)
            if t in self.records and t not in seen:
                out |= self.rec_fields(t, seen + (rec,))
        return out

    def class_of_type(self, t):
        """locations an object of type t reached through a pointer may be"""
        t = norm_type(t)
        m = re.match(r'(.*)\[\d*\]$', t)
        while m:
            t = m.group(1).strip()
            m = re.match(r'(.*)\[\d*\]$', t)
        t = self.alias.get(t, t)
        if t in self.records:
            return self.rec_fields(t)
        return {f'd:{t}'}

    # --------------------------------------------------------------------------------------------- per function
    def prepare(self, u, fn):
        """locals, parameters, address-taken and escaped locals, fresh locals"""
        info = {'u': u, 'name': fn['name'], 'params': [], 'plocs': {}, 'locals': {}, 'static': {}, 'addr': set(), 'esc': set(),
                'assigned': {}, 'written_params': set(), 'types': {}}
        names = {}
        def lname(nm, did):
            k = names.setdefault(nm, [])
            if did not in k:
                k.append(did)
            i = k.index(did)
            return f'l:{fn["name"]}.{nm}' + (f'#{i}' if i else '')
        body = None
        for c in fn.get('inner', []):
            if c.get('kind') == 'ParmVarDecl':
                info['params'].append(c['id'])
                info['locals'][c['id']] = lname(c.get('name', f'arg{len(info["params"])}'), c['id'])
                info['types'][c['id']] = c['type'].get('desugaredQualType', c['type']['qualType'])
            elif c.get('kind') == 'CompoundStmt':
                body = c
        info['body'] = body
        def walk(n, parent, in_call_arg):
            k = n.get('kind')
            if k == 'VarDecl':
                t = n['type'].get('desugaredQualType', n['type']['qualType'])
                info['types'][n['id']] = t
                if n.get('storageClass') == 'static':
                    info['static'][n['id']] = f's:{u.file}:{fn["name"]}.{n["name"]}'
                elif n.get('storageClass') != 'extern':
                    info['locals'][n['id']] = lname(n['name'], n['id'])
                    if n.get('inner'):
                        init = [c for c in n['inner'] if 'kind' in c and c['kind'] not in ('FullComment', 'AlignedAttr')]
                        if init:
                            info['assigned'].setdefault(n['id'], []).append(init[-1])
                    # (no initializer: listed by the uninitialised-locals audit)
            if k == 'BinaryOperator' and n.get('opcode') == '=':
                tgt = strip_paren(n['inner'][0])
                if tgt.get('kind') == 'DeclRefExpr':
                    did = tgt['referencedDecl']['id']
                    info['assigned'].setdefault(did, []).append(n['inner'][1])
                    if did in info['params']:
                        info['written_params'].add(did)
            if k in ('CompoundAssignOperator',) or (k == 'UnaryOperator' and n.get('opcode') in ('++', '--')):
                tgt = strip_paren(n['inner'][0])
                if tgt.get('kind') == 'DeclRefExpr':
                    did = tgt['referencedDecl']['id']
                    info['assigned'].setdefault(did, []).append(None)
                    if did in info['params']:
                        info['written_params'].add(did)
            root = None
            if k == 'UnaryOperator' and n.get('opcode') == '&':
                root = n['inner'][0]
            elif k == 'ImplicitCastExpr' and n.get('castKind') == 'ArrayToPointerDecay' and (parent or {}).get('kind') != 'ArraySubscriptExpr':
                root = n['inner'][0]
            if root is not None:
                r = strip_paren(root)
                while r.get('kind') in ('MemberExpr', 'ArraySubscriptExpr') and not r.get('isArrow'):
                    r = strip(r['inner'][0]) if r['kind'] == 'ArraySubscriptExpr' else strip_paren(r['inner'][0])
                if r.get('kind') == 'DeclRefExpr' and r['referencedDecl'].get('kind') in ('VarDecl', 'ParmVarDecl'):
                    did = r['referencedDecl']['id']
                    info['addr'].add(did)
                    if not in_call_arg:
                        info['esc'].add(did)
            for i, c in enumerate(n.get('inner', [])):
                if not isinstance(c, dict) or 'kind' not in c:
                    continue
                if k == 'CallExpr' and i > 0:
                    walk(c, n, True)
                elif k in ('ImplicitCastExpr', 'CStyleCastExpr', 'ParenExpr'):
                    walk(c, n, in_call_arg)
                else:
                    walk(c, n, False)
        if body:
            walk(body, None, False)
        return info

    def compute_fresh(self, info):
        """least set of locals that only ever hold freshly allocated objects (given the current fresh functions)"""
        cand = {d for d, t in info['types'].items() if d in info['locals'] and d not in info['params'] and is_ptr_type(t)
                and d not in info['addr'] and info['assigned'].get(d)}
        changed = True
        while changed:
            changed = False
            for d in list(cand):
                for e in info['assigned'][d]:
                    if e is None or not self.is_fresh_expr(e, info, cand):
                        cand.discard(d); changed = True
                        break
        info['fresh'] = cand
        return cand

    def is_fresh_expr(self, e, info, fresh):
        e = strip(e)
        if e.get('kind') == 'CallExpr':
            c = strip(e['inner'][0])
            if c.get('kind') == 'DeclRefExpr' and c['referencedDecl'].get('kind') == 'FunctionDecl':
                nm = c['referencedDecl']['name']
                key = self.resolve(info['u'], nm)
                if key is None:
                    return nm in LIBC and LIBC[nm][4]
                return key in self.fresh_fns
            return False
        if e.get('kind') == 'DeclRefExpr':
            return e['referencedDecl']['id'] in fresh
        return False

    def returns_fresh(self, info):
        rets = []
        def walk(n):
            if n.get('kind') == 'ReturnStmt':
                rets.append(n)
            for c in n.get('inner', []):
                if isinstance(c, dict):
                    walk(c)
        walk(info['body'])
        if not rets:
            return False
        for r in rets:
            if not r.get('inner') or not self.is_fresh_expr(r['inner'][0], info, info['fresh']):
                return False
        return True

    # ------------------------------------------------------------------------------------------- expression walker
    def var_locs(self, ref, info):
        rd = ref['referencedDecl']
        did = rd['id']
        if rd.get('kind') in ('FunctionDecl', 'EnumConstantDecl'):
            return set()
        if did in info['locals']:
            s = {info['locals'][did]}
            if did in info['esc']:
                s |= self.class_of_type(info['types'][did])
            return s
        if did in info['static']:
            return {info['static'][did]}
        if did in info['u'].globals:
            return {info['u'].globals[did]}
        # extern declaration inside a function, or declared in a header and defined elsewhere
        return {f'g:{rd["name"]}'}

    def param_index(self, e, info):
        e = strip(e)
        if e.get('kind') == 'DeclRefExpr':
            did = e['referencedDecl']['id']
            if did in info['params'] and did not in info['written_params']:
                return info['params'].index(did)
        return None

    def is_fresh_ptr(self, e, info):
        e = strip(e)
        return e.get('kind') == 'DeclRefExpr' and e['referencedDecl']['id'] in info.get('fresh', ())

    def pointee_locs(self, p, info):
        """locations *p may designate, for a pointer-valued expression p"""
        q = strip(p)
        if self.is_fresh_ptr(q, info):
            return set()
        if q.get('kind') == 'UnaryOperator' and q.get('opcode') == '&':
            locs, _ = self.lval(q['inner'][0], info, effects=False)
            return locs
        if q.get('kind') in ('StringLiteral', 'CompoundLiteralExpr', 'PredefinedExpr'):
            return set()
        # array lvalue decaying to a pointer
        pp = p
        while pp.get('kind') in ('ParenExpr', 'CStyleCastExpr') or (pp.get('kind') == 'ImplicitCastExpr' and pp.get('castKind') != 'ArrayToPointerDecay'):
            pp = pp['inner'][-1]
        if pp.get('kind') == 'ImplicitCastExpr' and pp.get('castKind') == 'ArrayToPointerDecay':
            locs, _ = self.lval(pp['inner'][0], info, effects=False)
            return locs
        t = q.get('type', {}).get('desugaredQualType', q.get('type', {}).get('qualType', ''))
        pt = pointee(t)
        if pt is None:
            s = {'d:' + (norm_type(t) or '?')}
        elif pt in ('void', 'fn'):
            s = {'d:void'} if pt == 'void' else set()
        else:
            s = self.class_of_type(pt)
        k = self.param_index(q, info)
        if k is not None:
            s = set(s) | {f'p:{k}'}
        return s

    def lval(self, e, info, effects=True):
        """(locations designated, effects of computing the designation)"""
        k = e.get('kind')
        if k in ('ParenExpr',) or (k in ('ImplicitCastExpr', 'CStyleCastExpr') and e.get('valueCategory') == 'lvalue'):
            return self.lval(e['inner'][-1], info, effects)
        if k == 'DeclRefExpr':
            return self.var_locs(e, info), Eff()
        if k == 'MemberExpr':
            rec, fname = info['u'].fields.get(e.get('referencedMemberDecl'), ('?', e.get('name', '?')))
            base = e['inner'][0]
            if e.get('isArrow'):
                eff = self.ev(base, info) if effects else Eff()
                if self.is_fresh_ptr(base, info):
                    return set(), eff
                locs = {self.floc(rec, fname)}
                return locs, eff
            if base.get('valueCategory') == 'lvalue':
                blocs, eff = self.lval(base, info, effects)
                bs = strip_paren(base)
                locs = set()
                if bs.get('kind') == 'DeclRefExpr':
                    did = bs['referencedDecl']['id']
                    locs |= blocs
                    if did not in info['locals'] or did in info['addr']:
                        locs.add(self.floc(rec, fname))
                else:
                    if blocs:
                        locs.add(self.floc(rec, fname))
                return locs, eff
            return set(), (self.ev(base, info) if effects else Eff())
        if k == 'UnaryOperator' and e.get('opcode') == '*':
            p = e['inner'][0]
            return self.pointee_locs(p, info), (self.ev(p, info) if effects else Eff())
        if k == 'UnaryOperator' and e.get('opcode') in ('__extension__', '__real', '__imag'):
            return self.lval(e['inner'][0], info, effects)
        if k == 'ArraySubscriptExpr':
            a, i = e['inner'][0], e['inner'][1]
            locs = self.pointee_locs(a, info)
            eff = Eff()
            if effects:
                ea, ei = self.ev(a, info), self.ev(i, info)
                self.site(info, e, 'subscript', [ea, ei], set())
                eff.add(ea).add(ei)
            return locs, eff
        if k in ('CompoundLiteralExpr',):
            return set(), (self.ev(e['inner'][0], info) if effects and e.get('inner') else Eff())
        if k in ('StringLiteral', 'PredefinedExpr'):
            return set(), Eff()
        if k == 'VAArgExpr':
            return set(), (self.ev(e, info) if effects else Eff())
        raise ExtractError(f'{info["u"].file}:{info["u"].line(e)}: lvalue of kind {k} not understood')

    def call_summary(self, e, info):
        """effects of the call itself (after its operands have been evaluated), and the callee name"""
        callee = strip(e['inner'][0])
        args = e['inner'][1:]
        targets = []
        u = info['u']
        name = None
        if callee.get('kind') == 'DeclRefExpr' and callee['referencedDecl'].get('kind') == 'FunctionDecl':
            name = callee['referencedDecl']['name']
            key = self.resolve(u, name)
            if key is None:
                if name not in LIBC:
                    if name in SORTLIKE:
                        return Eff(W={'d:void'}, R={'d:void'}), name
                    raise ExtractError(f'{u.file}:{u.line(e)}: external function {name} has no effect entry')
                ed, ei, w, r, _ = LIBC[name]
                targets.append(Eff(ed, ei, w, r))
            else:
                s = self.summ.get(key, Eff())
                s = Eff(s.ed, s.ei, s.W, s.R)
                if name in EXITERS:
                    fmt = strip(args[0 if name == 'error' else 1]) if len(args) > (0 if name == 'error' else 1) else {}
                    internal = fmt.get('kind') == 'StringLiteral' and fmt.get('value', '').startswith('"internal error')
                    s.ed, s.ei = (not internal), internal
                    # what the diagnostic routine prints on its way out is part of "exits with that diagnostic"
                    s.W, s.R = set(), set()
                targets.append(s)
        else:
            # call through a pointer: every function of that type whose address is taken
            t = callee.get('type', {}).get('desugaredQualType', callee.get('type', {}).get('qualType', ''))
            base = norm_type(t).rstrip('* ').strip()
            if base in u.typedefs:
                t = u.typedefs[base]
            sig = norm_type(t).replace('(*)', '').replace(' ', '')
            cands = [k2 for k2, ty in self.addr_taken_fns.items() if norm_type(ty).replace(' ', '') == sig]
            if not cands:
                raise ExtractError(f'{u.file}:{u.line(e)}: indirect call of type {t}: no candidate function')
            for k2 in cands:
                s = self.summ.get(k2, Eff())
                targets.append(Eff(s.ed, s.ei, s.W, s.R))
            name = '(*' + '|'.join(sorted(c[1] for c in cands)) + ')'
        out = Eff()
        for s in targets:
            out.ed |= s.ed; out.ei |= s.ei
            for src, dst in ((s.W, out.W), (s.R, out.R)):
                for loc in src:
                    if loc.startswith('p:'):
                        k = int(loc[2:])
                        if k < len(args):
                            dst |= self.pointee_locs(args[k], info)
                    else:
                        dst.add(loc)
        return out, name

    def ev(self, e, info):
        k = e.get('kind')
        if k in ('IntegerLiteral', 'FloatingLiteral', 'CharacterLiteral', 'StringLiteral', 'PredefinedExpr', 'UnaryExprOrTypeTraitExpr',
                 'OffsetOfExpr', 'ImplicitValueInitExpr', 'GNUNullExpr', 'TypeTraitExpr'):
            return Eff()
        if k == 'ImplicitCastExpr':
            ck = e.get('castKind')
            sub = e['inner'][0]
            if ck == 'LValueToRValue':
                locs, eff = self.lval(sub, info)
                eff.R |= locs
                return eff
            if ck in ('ArrayToPointerDecay', 'FunctionToPointerDecay'):
                if sub.get('kind') == 'DeclRefExpr' and sub['referencedDecl'].get('kind') == 'FunctionDecl':
                    return Eff()
                _, eff = self.lval(sub, info)
                return eff
            return self.ev(sub, info)
        if k in ('ParenExpr', 'CStyleCastExpr', 'ConstantExpr'):
            return self.ev(e['inner'][-1], info)
        if k == 'DeclRefExpr':
            return Eff()
        if k == 'MemberExpr':
            if e.get('valueCategory') == 'lvalue':
                _, eff = self.lval(e, info)
                return eff
            return self.ev(e['inner'][0], info)
        if k == 'ArraySubscriptExpr':
            _, eff = self.lval(e, info)
            return eff
        if k == 'UnaryOperator':
            op = e.get('opcode')
            sub = e['inner'][0]
            if op == '&':
                s = strip_paren(sub)
                if s.get('kind') == 'DeclRefExpr' and s['referencedDecl'].get('kind') == 'FunctionDecl':
                    return Eff()
                _, eff = self.lval(sub, info)
                return eff
            if op == '*':
                _, eff = self.lval(e, info)
                return eff
            if op in ('++', '--'):
                locs, eff = self.lval(sub, info)
                eff.R |= locs; eff.W |= locs; eff.bare |= locs
                return eff
            return self.ev(sub, info)
        if k in ('BinaryOperator', 'CompoundAssignOperator'):
            op = e.get('opcode')
            l, r = e['inner'][0], e['inner'][1]
            if op in (',', '&&', '||'):
                return self.ev(l, info).add(self.ev(r, info))
            if op == '=' or k == 'CompoundAssignOperator':
                locs, el = self.lval(l, info)
                er = self.ev(r, info)
                self.site(info, e, 'assign ' + op, [el, er], locs)
                out = Eff().add(el).add(er)
                out.W |= locs; out.bare |= locs
                if k == 'CompoundAssignOperator':
                    out.R |= locs
                return out
            el, er = self.ev(l, info), self.ev(r, info)
            self.site(info, e, 'binary ' + op, [el, er], set())
            self.ptr_op(info, e, op, l, r)
            return Eff().add(el).add(er)
        if k in ('ConditionalOperator', 'BinaryConditionalOperator'):
            out = Eff()
            for c in e['inner']:
                if c.get('kind') == 'OpaqueValueExpr':
                    continue
                out.add(self.ev(c, info))
            return out
        if k == 'OpaqueValueExpr':
            return Eff()
        if k == 'CallExpr':
            ec = self.ev(e['inner'][0], info)
            eargs = [self.ev(a, info) for a in e['inner'][1:]]
            self.site(info, e, 'call', [ec] + eargs, set())
            s, name = self.call_summary(e, info)
            if name in SORTLIKE and self.record_sites:
                self.sort_calls.append((info['u'].file, info['name'], info['u'].line(e), name))
            if name in ('malloc', 'realloc') and self.record_sites:
                self.raw_allocs.append((info['u'].file, info['name'], info['u'].line(e), info['u'].src(e)))
            out = Eff().add(ec)
            for a in eargs:
                out.add(a)
            # effects that happen inside the callee are sequenced as a whole: they are no "bare" side effects
            out.ed |= s.ed; out.ei |= s.ei; out.W |= s.W; out.R |= s.R
            return out
        if k == 'InitListExpr':
            els = [c for c in e.get('inner', []) if 'kind' in c]
            effs = [self.ev(c, info) for c in els]
            self.site(info, e, 'init-list', effs, set())
            out = Eff()
            for x in effs:
                out.add(x)
            if e.get('array_filler'):
                for c in e['array_filler']:
                    if 'kind' in c and c['kind'] != 'ImplicitValueInitExpr':
                        out.add(self.ev(c, info))
            return out
        if k == 'CompoundLiteralExpr':
            return self.ev(e['inner'][0], info) if e.get('inner') else Eff()
        if k == 'VAArgExpr':
            locs = self.pointee_locs(e['inner'][0], info)
            eff = self.ev(e['inner'][0], info)
            eff.R |= locs; eff.W |= locs
            return eff
        if k == 'StmtExpr':
            return self.stmt(e['inner'][0], info)
        raise ExtractError(f'{info["u"].file}:{info["u"].line(e)}: expression of kind {k} not understood')

    # ---------------------------------------------------------------------------------------------- sites
    def site(self, info, node, kind, effs, store):
        if not self.record_sites:
            return
        n_eff = sum(1 for x in effs if x.effectful())
        rw = False
        for i, a in enumerate(effs):
            for j, b in enumerate(effs):
                if i != j and a.W & b.R:
                    rw = True
        st = any(x.bare & store for x in effs)
        if n_eff >= 2 or rw or st:
            u = info['u']
            self.sites.append({'file': u.file, 'fn': info['name'], 'line': u.line(node), 'kind': kind, 'text': u.src(node),
                               'store': sorted(store), 'ops': [(x.ed, x.ei, sorted(x.W), sorted(x.R), sorted(x.bare)) for x in effs]})

    def ptr_op(self, info, e, op, l, r):
        if not self.record_sites:
            return
        tl = l.get('type', {}).get('desugaredQualType', l.get('type', {}).get('qualType', ''))
        tr = r.get('type', {}).get('desugaredQualType', r.get('type', {}).get('qualType', ''))
        if is_ptr_type(tl) and is_ptr_type(tr) and op in ('<', '>', '<=', '>=', '-'):
            u = info['u']
            self.ptr_ops.append((u.file, info['name'], u.line(e), 'compare' if op != '-' else 'subtract', norm_type(pointee(tl) or '?'), u.src(e)))

    # ---------------------------------------------------------------------------------------------- statements
    def stmt(self, n, info):
        k = n.get('kind')
        out = Eff()
        if k is None:
            return out
        if k == 'DeclStmt':
            for d in n.get('inner', []):
                if d.get('kind') != 'VarDecl':
                    continue
                if d.get('storageClass') in ('static', 'extern'):
                    continue
                init = [c for c in d.get('inner', []) if 'kind' in c and c['kind'].endswith(('Expr', 'Literal', 'Operator'))]
                if init:
                    out.add(self.ev(init[-1], info))
                    out.W.add(info['locals'][d['id']])
                elif self.record_sites:
                    t = d['type'].get('desugaredQualType', d['type']['qualType'])
                    agg = bool(re.search(r'\[', t)) or self.alias.get(norm_type(t), norm_type(t)) in self.records
                    self.uninit.append((info['u'].file, info['name'], d['name'], norm_type(t), agg, d['id'] in info['addr']))
            return out
        if k.endswith(('Expr', 'Literal', 'Operator')):
            return self.ev(n, info)
        if k in ('CompoundStmt', 'IfStmt', 'ForStmt', 'WhileStmt', 'DoStmt', 'SwitchStmt', 'CaseStmt', 'DefaultStmt', 'ReturnStmt', 'LabelStmt',
                 'AttributedStmt'):
            for c in n.get('inner', []):
                if isinstance(c, dict) and 'kind' in c:
                    out.add(self.stmt(c, info))
            return out
        if k in ('BreakStmt', 'ContinueStmt', 'NullStmt', 'GotoStmt'):
            return out
        if k == 'IndirectGotoStmt':
            return self.ev(n['inner'][0], info)
        raise ExtractError(f'{info["u"].file}:{info["u"].line(n)}: statement of kind {k} not understood')

    # ---------------------------------------------------------------------------------------------- driver
    def run(self):
        infos = {}
        for u in self.units:
            for name, fn in u.fns.items():
                infos[(u.file, name)] = self.prepare(u, fn)
        # functions whose address is taken (used as a value outside the callee position)
        for u in self.units:
            def walk(n, parent_call_callee):
                k = n.get('kind')
                if k == 'DeclRefExpr' and n.get('referencedDecl', {}).get('kind') == 'FunctionDecl' and not parent_call_callee:
                    key = self.resolve(u, n['referencedDecl']['name'])
                    if key:
                        self.addr_taken_fns[key] = n['referencedDecl']['type']['qualType']
                inner = [c for c in n.get('inner', []) if isinstance(c, dict)]
                for i, c in enumerate(inner):
                    cal = (k == 'CallExpr' and i == 0) or (parent_call_callee and k in ('ImplicitCastExpr', 'ParenExpr'))
                    walk(c, cal)
            for fn in u.fns.values():
                walk(fn, False)
            for n in u.ast.get('inner', []):
                if n.get('kind') == 'VarDecl':
                    walk(n, False)
        # fresh functions: least fixpoint
        changed = True
        while changed:
            changed = False
            for key, info in infos.items():
                self.compute_fresh(info)
                if key not in self.fresh_fns and self.returns_fresh(info):
                    self.fresh_fns.add(key); changed = True
        for info in infos.values():
            self.compute_fresh(info)
        # summaries: least fixpoint
        for rounds in range(60):
            changed = False
            for key, info in infos.items():
                eff = self.stmt(info['body'], info)
                s = Eff(eff.ed, eff.ei, {x for x in eff.W if not x.startswith('l:')}, {x for x in eff.R if not x.startswith('l:')})
                old = self.summ.get(key)
                if old is None or old.key() != s.key():
                    self.summ[key] = s; changed = True
            if not changed:
                break
        else:
            raise ExtractError('effect summaries did not stabilise')
        self.record_sites = True
        for key, info in sorted(infos.items()):
            self.stmt(info['body'], info)
        self.infos = infos
        return self


# ------------------------------------------------------------------------------------------------------- rare constructs
LOOPS = ('ForStmt', 'WhileStmt', 'DoStmt')

def type_class(t):
    t = norm_type(t)
    if '*' in t or '[' in t:
        return 'ptr'
    for k in ('long double', 'double', 'float', '_Bool', 'bool'):
        if t == k:
            return k.replace(' ', '')
    if re.fullmatch(r'(unsigned )?(char|short|int|long|long long)|u?int\d+_t|size_t|unsigned|signed char', t):
        return ('u' if t.startswith(('unsigned', 'uint', 'size_t')) else 'i') + {'char': '8', 'signed char': '8', 'short': '16', 'int': '32', 'unsigned': '32'}.get(
            t.replace('unsigned ', ''), '64' if ('long' in t or '64' in t or t == 'size_t') else ('8' if '8' in t else '16' if '16' in t else '32'))
    return 'other'

def features(audit):
    """feature -> [(file, line)]; a feature is a syntactic construct together with the context that decides how chibicc
    compiles it (operator and operand type class, kind of cast, jump statement with its enclosing loops and the loops
    that were completed before it in the same body)."""
    feats = {}
    def add(f, u, n):
        feats.setdefault(f, []).append((u.file, u.line(n)))
    def tq(n):
        return n.get('type', {}).get('desugaredQualType', n.get('type', {}).get('qualType', ''))
    def walk(u, n, chain, done):
        k = n.get('kind')
        if k is None:
            return
        if k in ('BinaryOperator', 'CompoundAssignOperator'):
            add(f'{k} {n.get("opcode")} {type_class(tq(n["inner"][0]))}', u, n)
        elif k == 'UnaryOperator':
            add(f'UnaryOperator {"post" if n.get("isPostfix") else "pre"}{n.get("opcode")} {type_class(tq(n["inner"][0]))}', u, n)
        elif k in ('ImplicitCastExpr', 'CStyleCastExpr'):
            ck = n.get('castKind')
            if ck in ('IntegralCast', 'IntegralToFloating', 'FloatingToIntegral', 'FloatingCast', 'IntegralToBoolean', 'PointerToBoolean', 'FloatingToBoolean',
                      'IntegralToPointer', 'PointerToIntegral'):
                add(f'cast {ck} {type_class(tq(n["inner"][0]))}->{type_class(tq(n))}', u, n)
        elif k == 'ConditionalOperator':
            add(f'ConditionalOperator {type_class(tq(n))}', u, n)
        elif k == 'MemberExpr':
            pass
        elif k in ('BreakStmt', 'ContinueStmt', 'GotoStmt', 'IndirectGotoStmt'):
            add(f'{k} in {">".join(chain[-2:]) or "-"} after {"+".join(sorted(set(done))) or "-"}', u, n)
        elif k in ('DoStmt', 'ForStmt', 'WhileStmt', 'SwitchStmt'):
            add(f'{k} in {">".join(chain[-2:]) or "-"}', u, n)
        elif k in ('VAArgExpr', 'CompoundLiteralExpr', 'StmtExpr', 'InitListExpr', 'LabelStmt', 'BinaryConditionalOperator', 'OffsetOfExpr'):
            add(k, u, n)
        elif k == 'CallExpr':
            c = strip(n['inner'][0])
            if not (c.get('kind') == 'DeclRefExpr' and c['referencedDecl'].get('kind') == 'FunctionDecl'):
                add('CallExpr indirect', u, n)
            t = type_class(tq(n))
            if audit.alias.get(norm_type(tq(n)), norm_type(tq(n))) in audit.records:
                add('CallExpr returning struct', u, n)
            elif t in ('float', 'double', 'longdouble', '_Bool', 'bool', 'i8', 'u8', 'i16', 'u16'):
                add(f'CallExpr returning {t}', u, n)
        elif k == 'VarDecl' and n.get('storageClass') == 'static' and chain is not None:
            add('static local', u, n)
        if k in LOOPS or k == 'SwitchStmt':
            for c in n.get('inner', []):
                if isinstance(c, dict):
                    walk(u, c, chain + [k], [])
            return
        if k == 'CompoundStmt':
            seen = list(done)
            for c in n.get('inner', []):
                if isinstance(c, dict):
                    walk(u, c, chain, seen)
                    if c.get('kind') in LOOPS or c.get('kind') == 'SwitchStmt':
                        seen = seen + [c['kind']]
            return
        for c in n.get('inner', []):
            if isinstance(c, dict):
                walk(u, c, chain, done)
    for u in audit.units:
        for fn in u.fns.values():
            walk(u, fn, [], [])
    return feats


def clang_warnings(repo):
    out = []
    for s in SOURCES:
        cmd = ['clang-14', '-std=c11', '-fsyntax-only', '-w', '-Wuninitialized', '-Wsometimes-uninitialized', '-Wconditional-uninitialized',
               '-Wunsequenced', '-Wsequence-point', '-Wpointer-compare', '-fno-caret-diagnostics', '-I', repo, os.path.join(repo, s)]
        p = subprocess.run(cmd, capture_output=True, text=True)
        if p.returncode != 0:
            raise ExtractError(f'clang-14 failed on {s}: {p.stderr[:300]}')
        for l in p.stderr.splitlines():
            m = re.match(r'.*?([\w.]+\.c):(\d+):\d+: warning: (.*)', l)
            if m:
                out.append(f'{m.group(1)}:{m.group(2)}: {m.group(3)}')
    return out


def lstr(s):
    s = s.replace('\\', '\\\\').replace('"', '\\"')
    s = ''.join(c if 32 <= ord(c) < 127 else f'\\u{{{ord(c):x}}}' for c in s)
    return '"' + s + '"'

def generate(repo):
    a = Audit(repo).run()
    locs = sorted({x for s in a.sites for op in s['ops'] for x in op[2] + op[3] + op[4]} | {x for s in a.sites for x in s['store']})
    idx = {x: i for i, x in enumerate(locs)}
    io = [idx[x] for x in locs if x.startswith('io:')]
    out = HEADER.format(tool='c12audit.py', src='the nine *.c (clang-14 typed AST)')
    out += 'import ChibiVerif.Model.C12Audit\nnamespace ChibiVerif.Gen.C12Audit\nopen ChibiVerif.C12Audit\n\n'
    out += '/-- abstract locations (index = id used below) -/\ndef locNames : List String := [' + ', '.join(lstr(x) for x in locs) + ']\n\n'
    out += '/-- locations whose content is visible outside the process (streams, file system, child processes) -/\n'
    out += 'def ioLocs : List Nat := [' + ', '.join(map(str, io)) + ']\n\n'
    out += ('/-- every expression of the nine sources whose operands C11 leaves unsequenced / indeterminately sequenced and of which at least two have side\n'
            '    effects, or one writes what another reads; per operand: may exit with a diagnostic, may exit with an internal error, writes, reads, writes not inside a call -/\n')
    out += 'def sites : List Site := [\n'
    rows = []
    for s in a.sites:
        ops = ', '.join('⟨%s, %s, [%s], [%s], [%s]⟩' % (str(o[0]).lower(), str(o[1]).lower(), ', '.join(str(idx[x]) for x in o[2]),
                                                       ', '.join(str(idx[x]) for x in o[3]), ', '.join(str(idx[x]) for x in o[4])) for o in s['ops'])
        rows.append('  ⟨%s, %s, %d, %s, %s, [%s], [%s]⟩' % (lstr(s['file']), lstr(s['fn']), s['line'], lstr(s['kind']), lstr(s['text'][:300]),
                                                          ', '.join(str(idx[x]) for x in s['store']), ops))
    out += ',\n'.join(rows) + ']\n\n'
    out += '/-- number of functions analysed, of expressions with unsequenced operands is not recorded; functions returning freshly allocated objects -/\n'
    out += 'def analysedFunctions : Nat := %d\n' % len(a.infos)
    out += 'def freshFunctions : List String := [' + ', '.join(lstr(n) for _, n in sorted(a.fresh_fns)) + ']\n\n'
    out += '/-- functions that may terminate the process with a user diagnostic -/\n'
    out += 'def mayExitDiag : List String := [' + ', '.join(lstr(f'{f}:{n}') for (f, n), s in sorted(a.summ.items()) if s.ed) + ']\n\n'
    out += '/-- local variables declared without an initializer: (file, function, name, type, aggregate, address taken) -/\n'
    out += 'def uninitLocals : List (String × String × String × String × Bool × Bool) := [\n' + ',\n'.join(
        '  (%s, %s, %s, %s, %s, %s)' % (lstr(f), lstr(fn), lstr(n), lstr(t), str(agg).lower(), str(ad).lower()) for f, fn, n, t, agg, ad in sorted(set(a.uninit))) + ']\n\n'
    out += '/-- malloc / realloc calls (storage not zero-filled by calloc): (file, function, text) -/\n'
    out += 'def rawAllocs : List (String × String × String) := [' + ', '.join('(%s, %s, %s)' % (lstr(f), lstr(fn), lstr(t)) for f, fn, ln, t in a.raw_allocs) + ']\n\n'
    out += '/-- relational comparison or subtraction of two pointers: (file, function, kind, pointee type, text) -/\n'
    out += 'def pointerOps : List (String × String × String × String × String) := [\n' + ',\n'.join(
        '  (%s, %s, %s, %s, %s)' % (lstr(f), lstr(fn), lstr(k), lstr(t), lstr(x[:200])) for f, fn, ln, k, t, x in a.ptr_ops) + ']\n\n'
    # pointer <-> integer conversions
    p2i = []
    for u in a.units:
        def walk(n, fn):
            if n.get('kind') in ('ImplicitCastExpr', 'CStyleCastExpr') and n.get('castKind') == 'PointerToIntegral':
                p2i.append((u.file, fn, u.src(n)))
            for c in n.get('inner', []):
                if isinstance(c, dict):
                    walk(c, fn)
        for name, fn in u.fns.items():
            walk(fn, name)
    out += '/-- conversions of a pointer value to an integer: (file, function, text) -/\n'
    out += 'def pointerToInt : List (String × String × String) := [' + ', '.join('(%s, %s, %s)' % (lstr(f), lstr(fn), lstr(t[:200])) for f, fn, t in p2i) + ']\n\n'
    out += '/-- calls of functions whose result depends on an unspecified order (qsort of equal keys, directory order, ...) -/\n'
    out += 'def sortCalls : List (String × String × String) := [' + ', '.join('(%s, %s, %s)' % (lstr(f), lstr(fn), lstr(n)) for f, fn, ln, n in a.sort_calls) + ']\n\n'
    out += "/-- clang-14 -Wuninitialized -Wsometimes-uninitialized -Wconditional-uninitialized -Wunsequenced -Wpointer-compare on the nine sources -/\n"
    out += 'def clangWarnings : List String := [' + ', '.join(lstr(w) for w in clang_warnings(repo)) + ']\n\n'
    feats = features(a)
    rare = sorted((f, fl, ln) for f, occ in feats.items() if len(occ) <= 2 for fl, ln in occ)
    out += ('/-- constructs of the nine sources (operator x operand class, cast kind, jump statement x enclosing loops x loops completed before it, ...) that\n'
            '    occur at most twice: (feature, file, line).  The coverage leg of ./check C12 must drive stage 2 through every one of these lines. -/\n')
    out += 'def rareConstructs : List (String × String × Nat) := [\n' + ',\n'.join('  (%s, %s, %d)' % (lstr(f), lstr(fl), ln) for f, fl, ln in rare) + ']\n\n'
    out += 'def featureCount : Nat := %d\n\n' % len(feats)
    out += 'end ChibiVerif.Gen.C12Audit\n'
    return {'C12AuditGen.lean': out}


if __name__ == '__main__':
    import sys
    a = Audit(sys.argv[1]).run()
    for s in a.sites:
        print(f'{s["file"]}:{s["line"]} {s["fn"]} [{s["kind"]}] {s["text"][:160]}')
        for o in s['ops']:
            if o[0] or o[1] or o[2]:
                print('     ', 'D' if o[0] else '-', 'I' if o[1] else '-', 'W', o[2][:12], 'bare', o[4][:6])
    print(len(a.sites), 'sites;', len(a.fresh_fns), 'fresh functions')
